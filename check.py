#!/venv/bin/python
"""
./check.py <Cxx> [--tier quick|thorough] [--replay <path>]

One property per invocation.  Pipeline (DESIGN.md section 4):
  1. regenerate translator output from PERSIM_ROOT (default /repo) where the property has one,
  2. `lake build` the property's theorem module and the model driver (under a file lock),
  3. audit: forbidden tokens, `#print axioms` of every property theorem,
  4. correspondence + [T] streams against the real code (harness/props/<id>.py),
  5. known findings, 6. evidence/<id>.json.
Exit 0: held on everything explored.  Exit 1: VIOLATION line(s) printed.  Exit 2: the machinery
itself failed (never a violation).
"""
import argparse, fcntl, importlib, json, os, re, subprocess, sys, time, traceback

VERIF = os.path.dirname(os.path.abspath(__file__))
sys.path.insert(0, VERIF)
from harness import common  # noqa: E402
from harness.common import HarnessError  # noqa: E402

LEAN = common.LEAN_DIR
ALLOWED_AXIOMS = {"propext", "Classical.choice", "Quot.sound"}
FORBIDDEN = re.compile(r"\bsorry\b|\badmit\b|^\s*axiom\s|native_decide|bv_decide|implemented_by|\bunsafe\s|maxHeartbeats\s+0\b",
                       re.M)
TRUSTED_BASE = [
    "Lean 4.33.0 kernel; Mathlib v4.33.0 as compiled on this image",
    "axioms: subset of {propext, Classical.choice, Quot.sound}, audited per theorem on every run; no native_decide/bv_decide/sorry/own axioms",
    "the correspondence harness (harness/common.py, harness/props/*.py, lean/Driver.lean + Drv/*): testing artefact tying the hand-written model to /repo",
    "exact-arithmetic idealisation: theorems are over ordered fields / the reals; IEEE rounding inside the code is outside them",
    "CPython/NumPy semantics and external routines (hopcroftkarp, scipy, sklearn, joblib, matplotlib) enter the model as parameters with stated contracts",
]


def sh(cmd, cwd=None, timeout=3600, env=None):
    p = subprocess.run(cmd, cwd=cwd, stdout=subprocess.PIPE, stderr=subprocess.STDOUT, timeout=timeout, env=env)
    return p.returncode, p.stdout.decode(errors="replace")


class Lock:
    def __init__(self, path):
        self.path = path

    def __enter__(self):
        self.f = open(self.path, "w")
        fcntl.flock(self.f, fcntl.LOCK_EX)

    def __exit__(self, *a):
        fcntl.flock(self.f, fcntl.LOCK_UN)
        self.f.close()


def strip_comments(src):
    """remove -- line comments and /- … -/ block comments (nested), keep strings crude"""
    out, i, depth = [], 0, 0
    while i < len(src):
        if src.startswith("/-", i):
            depth += 1; i += 2; continue
        if depth and src.startswith("-/", i):
            depth -= 1; i += 2; continue
        if depth:
            if src[i] == "\n":
                out.append("\n")
            i += 1; continue
        if src.startswith("--", i):
            while i < len(src) and src[i] != "\n":
                i += 1
            continue
        out.append(src[i]); i += 1
    return "".join(out)


def lean_files():
    for root, dirs, files in os.walk(LEAN):
        dirs[:] = [d for d in dirs if d != ".lake"]
        for f in files:
            if f.endswith(".lean"):
                yield os.path.join(root, f)


def forbidden_hits():
    hits = []
    for f in lean_files():
        src = strip_comments(open(f).read())
        for m in FORBIDDEN.finditer(src):
            hits.append("%s: %s" % (os.path.relpath(f, LEAN), m.group(0).strip()))
    return hits


# public theorems only: `private` helpers cannot be named from outside; their axioms are part of their users'
THM = re.compile(r"^\s*(?:@\[[^\]]*\]\s*)?(?:protected\s+)?(?:theorem|lemma)\s+([A-Za-z_][\w.']*)", re.M)
NS = re.compile(r"^\s*(namespace|end)\s+([\w.]+)\s*$", re.M)


def theorems_of(path):
    """fully qualified theorem names declared in a Lean file (tracks `namespace … end`)"""
    src = strip_comments(open(path).read())
    names, stack = [], []
    for line in src.split("\n"):
        m = NS.match(line)
        if m:
            if m.group(1) == "namespace":
                stack.append(m.group(2))
            elif stack and stack[-1].split(".")[-1] == m.group(2).split(".")[-1]:
                stack.pop()
            continue
        m = THM.match(line)
        if m:
            n = m.group(1)
            names.append(n[len("_root_."):] if n.startswith("_root_.") else ".".join(stack + [n]))
    return names


def module_of(relpath):
    return relpath[:-5].replace("/", ".")


def build(targets, timeout=3000):
    os.makedirs(os.path.join(LEAN, ".lake"), exist_ok=True)
    with Lock(os.path.join(LEAN, ".lake", "verif.lock")):
        return sh(["lake", "build"] + targets, cwd=LEAN, timeout=timeout)


def audit_axioms(pid, prop_files):
    """#print axioms for every theorem of the property's files; returns (names, axioms-by-name, raw)"""
    names = []
    for rel in prop_files:
        names += theorems_of(os.path.join(LEAN, rel))
    adir = os.path.join(LEAN, ".lake", "audit")
    os.makedirs(adir, exist_ok=True)
    path = os.path.join(adir, "%s.lean" % pid)
    with open(path, "w") as f:
        for rel in prop_files:
            f.write("import %s\n" % module_of(rel))
        for n in names:
            f.write("#print axioms %s\n" % n)
    rc, out = sh(["lake", "env", "lean", path], cwd=LEAN, timeout=1800)
    ax = {}
    for m in re.finditer(r"'(\S+?)' depends on axioms: \[([^\]]*)\]", out.replace("\n", " ")):
        ax[m.group(1)] = {a.strip() for a in m.group(2).split(",") if a.strip()}
    for m in re.finditer(r"'(\S+?)' does not depend on any axioms", out):
        ax[m.group(1)] = set()
    return names, ax, (rc, out)


def leancheck(mods):
    return sh(["lake", "env", "leanchecker"] + mods, cwd=LEAN, timeout=3000)


def write_evidence(ctx, mod, proof):
    cov = {
        "evaluations": ctx.evaluations,
        "distinct_nontrivial": len(ctx.nontrivial),
        "rule": ctx.rule or getattr(mod, "RULE", ""),
        "samples": ctx.samples[:6] or ["(no generated case: proof obligations only)"],
        "obligations": proof["obligations"],
        "discharged": proof["discharged"],
        "checker_cmd": proof["checker_cmd"],
        "trusted_base": TRUSTED_BASE + list(getattr(mod, "TRUSTED", [])),
        "theorems": proof["theorems"],
        "axioms_seen": proof["axioms_seen"],
        "proof_broken": proof["broken"],
        "leanchecker": proof.get("leanchecker"),
        "counters": ctx.counters,
        "tests": ctx.tests,
        "known_findings_replayed": ctx.known_hits,
        "explanation": getattr(mod, "EXPLANATION", ""),
    }
    if getattr(mod, "LEVEL", "proof") == "translation_validation":
        cov["programs"] = ctx.extra.get("programs", ctx.evaluations)
        cov["disagreements_checked"] = ctx.extra.get("disagreements_checked", 0)
    for k, v in ctx.extra.items():           # extras never replace a field the evidence schema defines
        keep = k not in cov or (k in ("programs", "disagreements_checked") and isinstance(v, int))
        cov[k if keep else "extra_" + k] = v
    ev = {
        "property_id": ctx.pid, "tier": ctx.tier, "seed": ctx.seed,
        "level": getattr(mod, "LEVEL", "proof"),
        "coverage": cov,
        "assumptions": list(getattr(mod, "ASSUMPTIONS", [])) + ctx.assumptions,
        "wall_s": round(ctx.elapsed(), 2),
        "violations": len(ctx.violations),
    }
    # maintenance runs against scratch trees (tools/run_seeded.py) must not overwrite the evidence of /repo
    evdir = os.environ.get("VERIF_EVIDENCE_DIR") or os.path.join(VERIF, "evidence")
    os.makedirs(evdir, exist_ok=True)
    with open(os.path.join(evdir, "%s.json" % ctx.pid), "w") as f:
        json.dump(common.sanitize(ev), f, indent=1, allow_nan=False)


def import_closure(prop_files):
    """module names of PersimVerif reachable through `import` lines from the given files"""
    seen, todo = set(), [module_of(f) for f in prop_files]
    while todo:
        m = todo.pop()
        if m in seen:
            continue
        seen.add(m)
        path = os.path.join(LEAN, m.replace(".", "/") + ".lean")
        try:
            src = open(path).read()
        except OSError:
            continue
        for mm in re.findall(r"^import\s+(PersimVerif[\w.]*)", src, flags=re.M):
            todo.append(mm)
    return seen


def regenerate_generated(modules, skip_ir=False):
    """rewrite (only when the text changes) the generated files among `modules` from PERSIM_ROOT's source"""
    from harness.translator import consts, py2lean
    if "PersimVerif.Generated.KernelConsts" in modules:
        consts.generate(common.REPO, common.LEAN_DIR)
    by_file = {py2lean.FILES[k][1]: k for k in py2lean.FILES}
    keys = [by_file[m.split(".")[-1] + ".lean"] for m in modules if m.split(".")[-1] + ".lean" in by_file]
    if keys:
        py2lean.generate(common.REPO, common.LEAN_DIR, only=keys)
    if not skip_ir and any(m.startswith("PersimVerif.Generated.ApiIR") for m in modules):
        raise HarnessError("a property other than C19 imports the generated API IR: add its regeneration here")


def run_check(pid, tier, seed, replay):
    mod = importlib.import_module("harness.props.%s" % pid.lower())
    ctx = common.Ctx(pid, tier, seed)
    if replay:
        rep = json.load(open(replay if os.path.isabs(replay) else os.path.join(VERIF, replay)))
        if not hasattr(mod, "replay"):
            print("no replay function for %s; replay file content:\n%s" % (pid, json.dumps(rep, indent=1)[:4000]))
            return 0
        common.import_persim()
        ok = mod.replay(ctx, rep)
        print("replay: property %s on this tree" % ("HOLDS" if ok else "FAILS"))
        return 0 if ok else 1

    prop_files = list(getattr(mod, "PROP_FILES", ["PersimVerif/Props/%s.lean" % pid]))
    generated = hasattr(mod, "pre_build")

    # --- 1.-3. translator output, build and audit, atomically under the file lock: two checks running at the same
    # time (possibly with different PERSIM_ROOT) must not see each other's Generated/*.lean
    os.makedirs(os.path.join(LEAN, ".lake"), exist_ok=True)
    with Lock(os.path.join(LEAN, ".lake", "verif.lock")):
        if generated:
            mod.pre_build(ctx)          # translator: regenerate Lean from PERSIM_ROOT's source
            prop_files = list(getattr(mod, "PROP_FILES", prop_files))
        # every generated file the property files import (directly or through a composed property) must come from THIS
        # run's PERSIM_ROOT, not from whichever check ran last: regenerate the cheap ones (constants, Src*) always
        closure = import_closure(prop_files)
        gen_in_closure = sorted(m for m in closure if m.startswith("PersimVerif.Generated."))
        regenerate_generated(gen_in_closure, skip_ir=(pid == "C19"))
        generated = generated or bool(gen_in_closure)
        ctx.extra["generated_modules_in_import_closure"] = gen_in_closure
        rc, out = sh(["lake", "build", "persim_model"], cwd=LEAN, timeout=3000)
        if rc != 0:
            raise HarnessError("model driver does not build:\n" + out[-4000:])
        rc, out = sh(["lake", "build"] + [module_of(f) for f in prop_files], cwd=LEAN, timeout=3000)
        broken = []
        if rc != 0:
            if not generated:
                raise HarnessError("property theorems do not build (no generated input involved):\n" + out[-4000:])
            broken = sorted(set(re.findall(r"error: ([^\n]*)", out)))[:20] or ["lake build failed"]
            print("proof obligations no longer check:\n" + out[-3000:], flush=True)

        # --- 3. audit
        hits = forbidden_hits()
        if hits:
            raise HarnessError("forbidden tokens in the Lean sources: %s" % hits[:10])
        names, ax, (arc, aout) = ([], {}, (0, ""))
        if not broken:
            names, ax, (arc, aout) = audit_axioms(pid, prop_files)
            bad = {n: sorted(a - ALLOWED_AXIOMS) for n, a in ax.items() if a - ALLOWED_AXIOMS}
            missing = [n for n in names if n not in ax]
            if bad:
                raise HarnessError("theorems depend on axioms outside the allowed set: %s" % bad)
            if missing or arc != 0:
                raise HarnessError("axiom audit incomplete (%s):\n%s" % (missing[:5], aout[-3000:]))
        else:
            for rel in prop_files:
                names += theorems_of(os.path.join(LEAN, rel))
        proof = {
            "obligations": len(names),
            "discharged": 0 if broken else len(names),
            "checker_cmd": "cd lean && lake build %s && lake env lean .lake/audit/%s.lean  (#print axioms of every theorem)"
                           % (" ".join(module_of(f) for f in prop_files), pid),
            "theorems": names,
            "axioms_seen": sorted(set().union(*ax.values())) if ax else [],
            "broken": broken,
        }
        if tier == "thorough" and not broken and os.environ.get("VERIF_SKIP_LEANCHECKER") != "1":
            lrc, lout = leancheck([module_of(f) for f in prop_files])
            proof["leanchecker"] = {"rc": lrc, "tail": lout[-300:]}
            if lrc != 0:
                raise HarnessError("leanchecker rejected the compiled theorems:\n" + lout[-3000:])

    # --- 4./5. correspondence, [T] streams, known findings
    common.import_persim()
    ctx.proof_broken = broken
    mod.run(ctx)

    if broken and not any(found for _, found in ctx.violations):
        ctx.violation("proof obligation(s) no longer check and no failing input was found: %s" % broken[:5],
                      {"theorems_or_errors": broken}, found_input=False)
    write_evidence(ctx, mod, proof)
    print("%s %s seed=%d: obligations %d/%d, evaluations %d (distinct non-trivial %d), tests %s, violations %d, %.1fs"
          % (pid, tier, seed, proof["discharged"], proof["obligations"], ctx.evaluations, len(ctx.nontrivial),
             {k: (v["cases"], v["failures"]) for k, v in ctx.tests.items()}, len(ctx.violations), ctx.elapsed()), flush=True)
    return 1 if ctx.violations else 0


def main():
    ap = argparse.ArgumentParser()
    ap.add_argument("pid")
    ap.add_argument("--tier", default=os.environ.get("VERIF_TIER", "quick"), choices=["quick", "thorough"])
    ap.add_argument("--replay")
    a = ap.parse_args()
    try:
        seed = int(os.environ.get("VERIF_SEED", "0") or 0)
    except ValueError:
        seed = 0
    if os.environ.get("PYTHONHASHSEED") is None:
        # str-keyed dicts / sets of the code under test (the matching dict of bottleneck) iterate in an order that depends on
        # the interpreter's hash seed, and what they return feeds later random draws of the harness: pin the hash seed to
        # VERIF_SEED so that one seed means one run (the streams that are ABOUT hash order start their own interpreters
        # with explicit hash seeds)
        os.environ["PYTHONHASHSEED"] = str(abs(seed) % 4294967296)
        os.execv(sys.executable, [sys.executable] + sys.argv)
    try:
        rc = run_check(a.pid.upper(), a.tier, seed, a.replay)
    except subprocess.TimeoutExpired as e:
        print("TIMEOUT (internal): %s" % e, flush=True)
        sys.exit(2)
    except Exception:
        traceback.print_exc()
        print("INTERNAL ERROR in the checking machinery (exit 2; not a violation)", flush=True)
        sys.exit(2)
    sys.exit(rc)


if __name__ == "__main__":
    main()
