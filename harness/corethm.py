"""
Evidence honesty helper (used by harness/props/c03.py, c08.py, c09.py, c10.py): records which of a property's theorems
carry a clause of the property ("core") as opposed to helper lemmas, concrete instances, regression witnesses and definitional
restatements.  check.py counts every public theorem of the property's files as an obligation; this list says how many of
them are the statement itself.  A core name that is not declared in the property's Lean files is an internal error.
"""
import os, re
from . import common

_THM = re.compile(r"^\s*(?:@\[[^\]]*\]\s*)?(?:protected\s+)?(?:theorem|lemma)\s+([A-Za-z_][\w.']*)", re.M)


def declared(prop_files):
    names = []
    for rel in prop_files:
        path = os.path.join(common.LEAN_DIR, rel)
        if os.path.exists(path):
            names += [n.split(".")[-1] for n in _THM.findall(open(path).read())]
    return names


def record(ctx, core, prop_files):
    names = declared(prop_files)
    missing = [n for n in core if n not in names]
    if missing:
        raise common.HarnessError("CORE_THEOREMS names that are not declared in %s: %s" % (prop_files, missing))
    ctx.extra["core_theorems"] = list(core)
    ctx.extra["theorem_counts"] = {"theorems": len(names), "core": len(core)}
