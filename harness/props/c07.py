"""C07 — bottleneck and Wasserstein obey the metric and invariance laws at any size.

Theorems: lean/PersimVerif/Props/C07.lean + Lemmas/MatchingLaws.lean — every law of the statement, for the
SPECIFICATION values (minimum over all partial matchings), for diagrams of any size, incl. both triangle
inequalities.  C01/C02 identify the code's values with those specification values.
Tie: the C01/C02 correspondence repeated at large sizes with certified optima (see `large_sizes`), and
[T] the laws themselves evaluated on the real code on triples of up to hundreds of points, under several hash seeds.
"""
import json, math, os, subprocess, sys
from fractions import Fraction
import numpy as np
from .. import common
from ..common import close
from . import c01, c02

LEVEL = "proof"
RULE = ("triples of diagrams with 0..N points (N=60 quick, 300 thorough; sizes 0,1,2 always included; the first two triples of "
        "every run have 100+ points per diagram — one independent, one related), coordinates from lattice/half/dyadic/decimal/"
        "uniform modes with duplicates and diagonal points, one power-of-two scale per triple; one triple in seven is 'large "
        "offset, tiny spread' (a diagram and two successive perturbations by delta, all translated by T = 1e3..1e6 feature "
        "sizes, delta/T ~ 1e-8); one in seven is 'diagonal cost at an offset' (C02's class: exact diagonal points b == d and points of persistence 2^-13 or "
        "1e-7..1e-13 of the offset, at offsets -5, -1e3, +-2^30, 2^40, 1e9, ..., against the empty diagram, themselves, a reordering, other diagonal "
        "points, and the same points with one dropped); about one triple in six (8 of 60 in every quick run) carries 1-4 points with INFINITE death per diagram, at random rows, "
        "with births that differ between the diagrams — the same non-zero number in all three, in two of them (each pair), different numbers, or in one "
        "diagram only: both functions drop such points (C01/C02), so every law must hold with the values of the finite parts; every law of the statement is evaluated for both distances on each triple (an empty diagram of a triple is "
        "handed over in one of the five accepted forms, `vs_empty` uses all five; a quarter of the d(Y,X) evaluations get nested lists); non-trivial = at "
        "least two of the three diagrams have >= 3 points; distinct by digest of the triple.  Certified pairs: related and "
        "independent pairs of exactly m+n points, (6,6) (12,10) (30,30) (80,60) x3 and one (120,110) quick; x6 plus (150,150) "
        "(150,10) thorough — each for BOTH distances")
ASSUMPTIONS = ["domain of the model-level laws (Props/C07Model.lean, `ProperDgm`): ALL bottleneck laws model_bn_* and the Wasserstein laws "
               "model_ws_nonneg, model_ws_reorder_zero, model_ws_triangle (for the middle diagram) and model_bn_le_ws require birth <= death "
               "for every finite point.  The restriction is necessary and the code does not enforce it: on /repo bottleneck([[1,0]],[[1,0]]) "
               "= -0.5 and wasserstein([[1,0]],[[1,0]]) = -1.414 (a point below the diagonal has a negative diagonal cost).  Every diagram "
               "generated here has birth <= death; points below the diagonal are outside the property",
               "laws on the real code are compared with tolerance min(1e-9*scale*k, 1e-9*|reference value| + 32*eps*F*k), k = 1 (bottleneck) / "
               "n+1 (Wasserstein), scale = largest |coordinate| (not floored at 1) — relative to the VALUE, with a rounding floor F*k: F = the EXTENT "
               "sqrt 2*(largest - smallest coordinate) of the diagrams the law evaluates (a bound on every entry of their cost matrices, invariant "
               "under translation, 0 for copies of one diagonal point) for symmetric, triangle, reorder_zero, diagonal_points_ignored, vs_empty and "
               "bottleneck <= Wasserstein — both functions compute every entry from coordinate differences, so only the summation and the solver's "
               "arithmetic on entries are left; F = largest |coordinate| only for translate_along_diagonal and scales_linearly, where the law itself "
               "rounds the coordinates.  nonneg_finite is exact (>= 0), reorder_zero demands 0 <= d(X, reordering of X) <= floor (the fixed tree "
               "returns exactly 0.0), vs_empty demands a value >= 0.  Until the /repo fix of the Wasserstein diagonal cost F was the largest "
               "|coordinate| for every law (what the rotation by pi/4 needed), under which wasserstein(X, X) = -2.4e-7 at -2^30 passed; the Wasserstein cost matrix is np.sqrt of summed squared coordinate differences (since /repo fix "
               "6c9bac1 — before it, sklearn's expanded formula needed 1e-6 and broke translation invariance at large offsets)",
               "points with infinite death: dropped by both functions with a warning (clauses of C01/C02, proved for the models as C01.inf_dropped / "
               "C02.inf_dropped; the model-level laws of Props/C07Model.lean are stated for raw point lists with non-finite deaths allowed).  The laws are "
               "evaluated on diagrams containing such points with the closed forms (vs_empty) taken over the finite points; the warnings are "
               "suppressed here — that they are raised is C01/C02's clause, not a law of this statement",
               "a law whose evaluation RAISES fails: the statement covers every diagram, the empty one included, in each form both functions "
               "accept on the unchanged tree (np.zeros((0,2)), [], np.array([]), [[]], np.array([[]])) — `vs_empty` is evaluated against all five, both orders",
               "certified pairs: bottleneck value within 1e-9*scale of the optimum certified by C01's cert.opt (bit-exact on these lattice/half/dyadic "
               "inputs on the unchanged tree; a last-bit difference is reported as a correspondence break, not as a failing input); "
               "Wasserstein value within min(1e-9*scale*rows, 1e-9*|value| + 32 eps*rows*largest entry of the definition's cost matrix) (c02.tol_for) of the optimum of the model's matrix certified by C02's cert.dual (exact rational dual "
               "potentials verified in Lean)",
               "the theorems are about the specification values; that the code computes them is C01/C02"]
# the theorems that carry clauses of the property statement: every law, for the specification values (C07.lean) and for what
# the models of the code return (C07Model.lean); the other obligations are facts about the two cost systems (linf_*, euclid_*,
# diag*_*), the generic matching laws they instantiate (Lemmas/MatchingLaws, MatchingReindex, PermEquiv) and bridges
_SPEC_LAWS = ["symm", "nonneg", "reorder_zero", "add_diagonal", "translate", "scale", "vs_empty", "triangle_ineq"]
CORE_THEOREMS = (["PersimVerif.C07.bottleneck_" + x for x in _SPEC_LAWS] + ["PersimVerif.C07.wasserstein_" + x for x in _SPEC_LAWS]
                 + ["PersimVerif.C07.bottleneck_le_wasserstein", "PersimVerif.C07.bottleneck_perm_zero_list",
                    "PersimVerif.C07.wasserstein_perm_zero_list"]
                 + ["PersimVerif.C07.model_bn_" + x for x in ("symm", "oracle_irrelevant", "triangle", "nonneg", "perm_invariant",
                                                              "reorder_zero", "add_diagonal", "add_diagonal_left", "translate",
                                                              "scale", "vs_empty")]
                 + ["PersimVerif.C07.model_ws_" + x for x in ("symm", "triangle", "nonneg", "perm_invariant", "reorder_zero",
                                                              "add_diagonal", "add_diagonal_left", "translate", "scale", "vs_empty")]
                 + ["PersimVerif.C07.model_bn_le_ws"]
                 + ["PersimVerif.C07.model_bn_" + x for x in ("triangle_oracles", "scale_nonneg", "add_diagonal_list",
                                                              "add_diagonal_list_left", "vs_empty_left")]
                 + ["PersimVerif.C07.model_ws_" + x for x in ("solver_irrelevant", "triangle_solvers", "add_diagonal_list",
                                                              "add_diagonal_list_left", "vs_empty_left")]
                 # the guard birth <= death is necessary: what the models return on [(1,0)] against itself
                 + ["PersimVerif.C07." + x for x in ("improper_bn_negative", "improper_ws_negative", "improper_bn_le_ws_fails",
                                                     "improper_ws_triangle_fails")])
PROP_FILES = ["PersimVerif/Props/C07.lean", "PersimVerif/Props/C07Model.lean", "PersimVerif/Lemmas/MatchingLaws.lean",
              "PersimVerif/Lemmas/PermEquiv.lean", "PersimVerif/Lemmas/MatchingReindex.lean"]


def A(d, eform=0):
    """float64 (n,2) array; an EMPTY diagram in any of the forms both functions accept (eform 0..4):
    np.zeros((0,2)), [], np.array([]), [[]], np.array([[]])"""
    if len(d) == 0:
        return EMPTY_FORMS[eform % len(EMPTY_FORMS)][1]()
    return np.array(d, dtype=float).reshape(-1, 2)


EMPTY_FORMS = [("np.zeros((0,2))", lambda: np.zeros((0, 2))), ("[]", lambda: []), ("np.array([])", lambda: np.array([])),
               ("[[]]", lambda: [[]]), ("np.array([[]])", lambda: np.array([[]]))]
TOL = 1e-9
ROUND = 32 * 2.0 ** -52


def law_tol(ref, scale, k, floor_scale=None):
    """tolerance of one law comparison whose reference value is `ref`: 1e-9 relative to the VALUE plus a rounding-level term
    32*eps*floor_scale*k (k = 1 for bottleneck, number of points + 1 for the Wasserstein sum), never more than the former
    1e-9*scale*k (scale = largest |coordinate| of the triple).
    floor_scale is
      * `extent` of the diagrams the law evaluates (sqrt 2 * (largest - smallest finite coordinate): a bound on every entry of
        their cost matrices, invariant under translation, 0 for copies of one diagonal point) for the laws that hand the
        diagrams over AS THEY ARE — symmetric, triangle, reorder_zero, diagonal_points_ignored, vs_empty, bottleneck <=
        Wasserstein: both functions compute every matrix entry from coordinate DIFFERENCES (Wasserstein's diagonal cost
        (d - b)/sqrt 2 too, since the /repo fix of the diagonal cost), so nothing rounds at the size of the coordinates;
        what is left is the summation and the solver's arithmetic on entries;
      * the largest |coordinate| (the default) for translate_along_diagonal and scales_linearly, where the law itself
        rounds the COORDINATES (X + t, X * lam) before the functions see them.
    Until that fix the floor was 32*eps*largest |coordinate|*k for every law — the error the rotation by pi/4 left in each
    Wasserstein diagonal cost — under which wasserstein(X, reordering of X) = -2.4e-7 at coordinates near -2^30 and a
    diagonal cost off by 1e-3 of its value passed reorder_zero and vs_empty."""
    ref = abs(float(ref))
    fs = scale if floor_scale is None else min(scale, floor_scale)
    if not math.isfinite(ref):
        return TOL * scale * k
    return min(TOL * scale * k, TOL * ref + ROUND * fs * k)


def extent(*dgms):
    """sqrt 2 * (largest - smallest finite coordinate) of the given diagrams: every distance between two of their points
    and every diagonal cost is at most this"""
    xs = [float(x) for D in dgms for p in D for x in p if math.isfinite(x)]
    return math.sqrt(2.0) * (max(xs) - min(xs)) if xs else 0.0


LAWS = ("symmetric", "nonneg_finite", "triangle", "reorder_zero", "diagonal_points_ignored", "translate_along_diagonal",
        "scales_linearly", "vs_empty", "bottleneck_le_wasserstein")


def draw_ingredients(r, X, Y, Z, scale):
    """the random choices of one law evaluation — stored in the violation record so that `replay` re-evaluates the same laws"""
    return {"perm_seed": r.randint(0, 2 ** 31 - 1), "diag": [r.uniform(-1, 1) * scale, 0.0, scale],
            "t": r.choice([1.0, -3.0, 0.125]) * scale,
            "lam": r.choice([0.5, 4.0, 3.7, 1e-3, 1e-7, 2.0 ** -30, 2.0 ** 20]),
            "eforms": [r.randint(0, 4) for _ in range(3)], "aslist": r.random() < 0.25}


def eval_laws(name, X, Y, Z, ing, ctx=None, out=None):
    """every law of the statement for one distance (`name` = 'bn' | 'ws') on the real code for the triple X, Y, Z (lists of
    points) with the recorded random ingredients `ing` -> list of the laws that FAIL (a law whose evaluation raises fails:
    the statement covers every diagram, the empty one in any accepted form included).  Used by `run` and by `replay`."""
    bnf = common.pm("bottleneck").bottleneck
    f = bnf if name == "bn" else common.pm("wasserstein").wasserstein
    ef = ing.get("eforms", [0, 0, 0])
    ax, ay, az = A(X, ef[0]), A(Y, ef[1]), A(Z, ef[2])
    fx, fy = A(X), A(Y)                        # float64 (n,2) arrays for the arithmetic on the inputs
    scale = max(common.maxabs(X), common.maxabs(Y), common.maxabs(Z), 1e-300)
    k = 1 if name == "bn" else len(X) + len(Y) + len(Z) + 1
    tolc = lambda ref: law_tol(ref, scale, k)                      # laws that round the coordinates themselves
    ext = extent(X, Y, Z)
    tol = lambda ref, e=ext: law_tol(ref, scale, k, e)             # laws on the diagrams as they are
    bad, notes = [], {}

    def law(what, thunk):
        try:
            c = bool(thunk())
        except Exception as e:              # noqa: a raise is a failure of the law on this input
            c = False
            notes[what] = "raised %s: %s" % (type(e).__name__, str(e)[:200])
        if ctx is not None:
            ctx.test(name + "." + what, c)
        if not c:
            bad.append(what)

    try:
        dxy, dyz, dxz = float(f(ax, ay)), float(f(ay, az)), float(f(ax, az))
        dyx = float(f(ay.tolist(), ax.tolist())) if ing.get("aslist") and len(X) and len(Y) else float(f(ay, ax))
    except Exception as e:
        notes["distances"] = "raised %s: %s" % (type(e).__name__, str(e)[:200])
        if out is not None:
            out.update(notes)
        if ctx is not None:
            ctx.test(name + ".returns", False)
        return ["returns_a_value"]
    if out is not None:
        out.update({"d(X,Y)": dxy, "d(Y,X)": dyx, "d(Y,Z)": dyz, "d(X,Z)": dxz})
    law("symmetric", lambda: abs(dxy - dyx) <= tol(dxy))
    law("nonneg_finite", lambda: dxy >= 0 and dyz >= 0 and dxz >= 0 and all(map(math.isfinite, (dxy, dyz, dxz))))
    law("triangle", lambda: dxz <= dxy + dyz + tol(dxy + dyz))
    if "triangle" in bad:
        notes.setdefault("triangle", "d(X,Z) = %r > d(X,Y) + d(Y,Z) = %r + %r" % (dxz, dxy, dyz))
    if len(X):
        perm = fx[np.random.RandomState(ing["perm_seed"]).permutation(len(X))]
        # 0 <= d(X, reordering of X) <= room for the solver: every point has a copy at distance exactly 0 (on the fixed tree
        # both functions return exactly 0.0 here on every input tried; a NEGATIVE value fails whatever its size)
        law("reorder_zero", lambda: 0 <= f(fx, perm) <= tol(0.0, extent(X)))
    diag = np.array([[t, t] for t in ing["diag"]])
    ed = extent(X, Y, [[t, t] for t in ing["diag"]])               # the added diagonal points enter the matrix the solver sees
    law("diagonal_points_ignored", lambda: abs(f(np.vstack([fx, diag]), ay) - dxy) <= tol(dxy, ed)
        and abs(f(ax, np.vstack([fy, diag[:1]])) - dxy) <= tol(dxy, ed))
    t = ing["t"]
    law("translate_along_diagonal", lambda: abs(f(fx + t, fy + t) - dxy) <= tolc(dxy) * 4)
    lam = ing["lam"]
    law("scales_linearly", lambda: abs(f(fx * lam, fy * lam) - lam * dxy) <= tolc(dxy) * lam)
    def closed_form(g):
        """value against the empty diagram: max persistence / 2 resp. total persistence / sqrt 2 of the points that count
        (a point with infinite death is dropped by both functions — C01/C02 — so it contributes nothing)"""
        g = g[np.isfinite(g[:, 1])] if len(g) else g
        p = g[:, 1] - g[:, 0] if len(g) else np.zeros(0)
        return (p.max() / 2 if len(p) else 0.0) if name == "bn" else p.sum() / math.sqrt(2)
    want = closed_form(fx) if len(X) else 0.0

    def vs_empty():                            # against the empty diagram in EVERY accepted form, both orders
        for n_form, (label, mk) in enumerate(EMPTY_FORMS):
            g_, w_ = fx, want
            if n_form and len(X) > 25:          # the other ways of writing "no points": on the first 25 points (cost)
                g_ = fx[:25]
                w_ = closed_form(g_)
            for v in (f(g_, mk()), f(mk(), g_)):
                if not (abs(v - w_) <= tol(w_, extent(g_.tolist())) and v >= 0):
                    notes["vs_empty"] = "against %s: %r, expected %r" % (label, float(v), float(w_))
                    return False
        return True
    law("vs_empty", vs_empty)
    if name == "ws":
        def bn_le_ws():
            b = float(bnf(ax, ay))
            if not b <= dxy + tol(dxy):
                notes["bottleneck_le_wasserstein"] = "bottleneck(X,Y) = %r > wasserstein(X,Y) = %r" % (b, dxy)
                return False
            return True
        law("bottleneck_le_wasserstein", bn_le_ws)
    if out is not None:
        out.update(notes)
    return bad


def gen_dgm(ctx, nmax, mode=None, exact_n=False):
    r = ctx.rng
    n = nmax if exact_n else r.choice([0, 1, 2, r.randint(0, nmax), r.randint(0, nmax), r.randint(min(3, nmax), nmax), nmax])
    mode = mode or ctx.gen.mode()
    pts = []
    for _ in range(n):
        if pts and r.random() < 0.15:
            pts.append(list(r.choice(pts)))
        else:
            pts.append(ctx.gen.bar(mode, allow_diag=(r.random() < 0.2)))
    return pts


def derive(ctx, X, mode):
    """a diagram related to X: some points kept bit-identical (shared points), some moved along or across the
    diagonal by a lattice step (relay structures x-e -> x -> x+e), some dropped, some new"""
    r = ctx.rng
    step = r.choice([0.5, 1.0, 1.0, 0.125])
    out = []
    for p in X:
        u = r.random()
        if u < 0.35:
            out.append(list(p))
        elif u < 0.6:
            s = r.choice([-1, 1]) * step
            out.append([p[0] + s, p[1] + s])
        elif u < 0.8:
            q = [p[0] + r.choice([-1, 0, 1]) * step * 0.5, p[1] + r.choice([-1, 0, 1]) * step * 0.5]
            out.append(q if q[1] >= q[0] else list(p))
        elif u < 0.9:
            continue
        else:
            out.append(list(p)); out.append(ctx.gen.bar(mode, allow_diag=True))
    return out


ESSENTIAL_PATTERNS = ("same_count_all", "same_count_XY", "same_count_XZ", "same_count_YZ", "different_counts", "one_side_only")


def add_essential(ctx, X, Y, Z, mode, pattern):
    """points with INFINITE death (essential classes) put into the diagrams of a triple, at random rows: `pattern` says
    which diagrams get the same non-zero number of them (1..3) and which a different number (possibly none); births are
    births of finite points of the triple, fresh coordinates of the triple's mode, or those moved out by up to 8 feature
    sizes — different in different diagrams.  Both functions drop such points (C01/C02), so every law of the statement
    still has to hold on these diagrams, with the values of the finite parts."""
    r = ctx.rng
    k = r.choice([1, 1, 2, 3])
    other = lambda: r.choice([c for c in (0, 0, 1, 2, 3, 4) if c != k])
    counts = {"same_count_all": (k, k, k), "same_count_XY": (k, k, other()), "same_count_XZ": (k, other(), k),
              "same_count_YZ": (other(), k, k), "different_counts": tuple(r.sample([0, 1, 2, 3, 4], 3)),
              "one_side_only": tuple(r.sample([k, 0, 0], 3))}[pattern]
    births = [p[0] for D in (X, Y, Z) for p in D]
    feat = max([1.0] + [abs(b) for b in births])

    def birth():
        u = r.random()
        if births and u < 0.3:
            return r.choice(births)
        if u < 0.7:
            return ctx.gen.coord(mode) if not births or feat < 100 else r.choice(births) + ctx.gen.coord(mode)
        return (r.choice(births) if births else 0.0) + r.choice([-1, 1]) * r.choice([0.5, 2.0, 8.0]) * r.uniform(0.2, 1.0) * feat
    out = []
    for D, c in zip((X, Y, Z), counts):
        D = [list(p) for p in D]
        for _ in range(c):
            D.insert(r.randint(0, len(D)), [birth(), math.inf])
        out.append(D)
    return out


def hashseed_values(cases, seed):
    env = dict(os.environ, PYTHONHASHSEED=str(seed), PERSIM_ROOT=common.REPO)
    p = subprocess.run([sys.executable, os.path.join(common.VERIF, "harness", "hashseed_worker.py")],
                       input=json.dumps(cases).encode(), stdout=subprocess.PIPE, stderr=subprocess.PIPE, env=env, timeout=3000)
    if p.returncode != 0:
        raise common.HarnessError("hash-seed worker failed: " + p.stderr.decode()[-2000:])
    return json.loads(p.stdout.decode())


def run(ctx):
    import warnings
    ctx.extra["core_theorems"] = CORE_THEOREMS
    bn = common.pm("bottleneck").bottleneck
    ws = common.pm("wasserstein").wasserstein
    r = ctx.rng
    nmax = ctx.n(60, 300)
    ntrip = ctx.n(60, 120)
    hs_cases = []
    with warnings.catch_warnings():
        warnings.simplefilter("ignore")
        for it in range(ntrip):
            mode = ctx.gen.mode()
            big = nmax if (it % 10 == 0) else max(3, nmax // r.choice([1, 2, 4, 10]))
            g = 2.0 ** r.choice([-40, -30, -24, -20, -10, 0, 0, 0, 10, 20])   # one scale for the whole triple
            if it == 0:                             # "hundreds of points" in every run: 100+ points in each diagram
                X, Y, Z = (gen_dgm(ctx, max(nmax, k), mode, exact_n=True) for k in (110, 105, 100))
                ctx.count("triples_independent"); ctx.count("triples_100+_points")
            elif it == 1:
                X = gen_dgm(ctx, max(nmax, 110), mode, exact_n=True); Y = derive(ctx, X, mode); Z = derive(ctx, Y, mode)
                ctx.count("triples_related"); ctx.count("triples_100+_points")
            elif it % 7 == 3:                       # large offset, tiny spread (close points far from the origin)
                base = gen_dgm(ctx, r.randint(3, max(3, min(big, 40))), mode, exact_n=True)
                (X, Y, Z), _, _ = c02.offset_family(ctx, base, 3, mode)
                if r.random() < 0.5:
                    X, Y = Y, X
                g = 1.0
                ctx.count("triples_large_offset_tiny_spread")
            elif it % 7 == 4:                       # diagonal costs far from the origin (c02.gen_diag_pair): exact diagonal points
                # and points of tiny persistence at offsets -5 .. -2^30 .. 2^40, against the empty diagram, themselves, a
                # reordering, other diagonal points; Z = the same points with one dropped.  nonneg_finite, reorder_zero and
                # vs_empty on these are what the rotation by pi/4 (the /repo fix of the diagonal cost) violated
                pc = c02.gen_diag_pair(ctx, min(big, 12))
                X, Y = sorted((pc["dgm1"], pc["dgm2"]), key=len, reverse=True)
                Z = [list(p) for p in X][1:] if r.random() < 0.7 else []
                r.shuffle(Z)
                if r.random() < 0.3:
                    X, Y = Y, X
                g = 1.0
                ctx.count("triples_diagonal_cost_at_offset")
            elif it % 3 == 0:
                X, Y, Z = (gen_dgm(ctx, big, mode) for _ in range(3))
                ctx.count("triples_independent")
            else:                                   # related diagrams: shared points, relays, near-copies
                X = gen_dgm(ctx, big, mode); Y = derive(ctx, X, mode); Z = derive(ctx, Y, mode)
                if r.random() < 0.5:
                    X, Y, Z = Y, X, Z               # X and Z both derived from the middle one
                ctx.count("triples_related")
            if it % 7 in (2, 5) and it > 1 and (it % 7 == 5 or r.random() < 0.15):
                # about one triple in six (8 of 60 always): points with infinite death in the diagrams
                pattern = ESSENTIAL_PATTERNS[(it // 7) % len(ESSENTIAL_PATTERNS)] if it % 7 == 5 else r.choice(ESSENTIAL_PATTERNS)
                X, Y, Z = add_essential(ctx, X, Y, Z, mode, pattern)
                ctx.count("triples_with_infinite_death_points"); ctx.count("infinite_death:" + pattern)
            X, Y, Z = ([[a * g, b * g] for a, b in D] for D in (X, Y, Z))
            ctx.count("scale=2^%d" % int(math.log2(g)))
            nontriv = sum(sum(math.isfinite(p[1]) for p in d) >= 3 for d in (X, Y, Z)) >= 2
            ctx.case({"X": X[:4], "Y": Y[:4], "Z": Z[:4], "sizes": [len(X), len(Y), len(Z)]}, nontriv, sample_every=13)
            ctx.count("size<=%d" % (10 ** len(str(max(len(X), len(Y), len(Z), 1)))))
            scale = max(common.maxabs(X), common.maxabs(Y), common.maxabs(Z), 1e-300)
            for name in ("bn", "ws"):
                ing = draw_ingredients(r, X, Y, Z, scale)
                det = {}
                bad = eval_laws(name, X, Y, Z, ing, ctx, det)
                if bad:
                    ctx.violation("%s: law(s) %s fail on the real code (%s)" % ("bottleneck" if name == "bn" else "wasserstein", bad,
                                                                                 {k_: v_ for k_, v_ in det.items() if k_ in bad or k_ == "distances"}),
                                  dict(ing, X=X, Y=Y, Z=Z, fn=name, laws=bad), values=det)
                    if len(ctx.violations) > 4:
                        return
            if len(hs_cases) < 2 * ctx.n(20, 60) and max(len(X), len(Y)) <= 40:
                hs_cases.append(["bn", X, Y]); hs_cases.append(["ws", X, Y])
    # every hash seed: same values in fresh interpreters
    seeds = [0, 1, 7] if not ctx.thorough else list(range(12))
    base = hashseed_values(hs_cases, seeds[0])
    for s in seeds[1:]:
        vals = hashseed_values(hs_cases, s)
        for c, a, b in zip(hs_cases, base, vals):
            same = a == b
            ctx.test("hash_seed_independent", same)
            if not same:
                ctx.violation("value depends on PYTHONHASHSEED (%s vs %s under seeds %s/%s)" % (a, b, seeds[0], s),
                              {"fn": c[0], "X": c[1], "Y": c[2], "hashseeds": [seeds[0], s]})
                return
    large_sizes(ctx)


def large_sizes(ctx):
    """the C01 and C02 correspondences repeated at large sizes, on RELATED pairs (shared points, relays, near-copies) and
    independent ones: the real value against an optimum whose certificate a Lean-proved checker accepts —
    bottleneck: independent exact oracle + `cert.opt` (theorem C01.cert_opt_sound), compared exactly;
    Wasserstein: the model's Float matrix (`ws.matrix`), scipy as an untrusted hint, exact rational dual potentials,
    `cert.dual` (theorems C02.dual_cert_sound / dualCheck_sound), compared within c02's tolerance."""
    import warnings
    bn = common.pm("bottleneck").bottleneck
    ws = common.pm("wasserstein").wasserstein
    r = ctx.rng
    sizes = [(6, 6), (12, 10), (30, 30), (80, 60)] * ctx.n(3, 6) + ([(150, 150), (150, 10)] if ctx.thorough else [(120, 110)])
    cases, lines = [], []
    for (m, n) in sizes:
        mode = r.choice(["lattice", "half", "dyadic"])        # exact comparison modes (bottleneck)
        X = gen_dgm(ctx, m, mode, exact_n=True)
        kind = "independent"
        Y = gen_dgm(ctx, n, mode, exact_n=True)
        if r.random() < 0.7:
            Y = derive(ctx, X, mode); kind = "related"
            if r.random() < 0.5:
                B = X; X = derive(ctx, B, mode); Y = derive(ctx, B, mode)     # both derived from a common middle
        case = {"dgm1": X, "dgm2": Y, "mode": "dyadic", "kinds": ["array", "array"]}
        v, line = c01.truth_for(case)
        cases.append((case, v, kind)); lines.append(line)
        lines.append("ws.matrix %s %s" % (common.enc(X), common.enc(Y)))
    answers = common.ask(lines)
    cert_lines, claims = [], []
    for k, (case, v, kind) in enumerate(cases):
        if answers[2 * k] is not True:
            raise common.HarnessError("cert.opt rejected the certificate of the independent oracle: %r" % (answers[2 * k],))
        mat = answers[2 * k + 1]
        if not (isinstance(mat, list) and len(mat) == 3):
            raise common.HarnessError("ws.matrix answered %r" % (mat,))
        line, claimed = c02.certificate(None, [[float(x) for x in row] for row in mat[2]])
        cert_lines.append(line); claims.append(claimed)
    cert_answers = common.ask(cert_lines)
    with warnings.catch_warnings():
        warnings.simplefilter("ignore")
        for (case, v, kind), cans, claimed in zip(cases, cert_answers, claims):
            bucket = "certified_pairs_%s_size<=%d" % (kind, 10 ** len(str(max(len(case["dgm1"]), len(case["dgm2"]), 1))))
            ctx.count(bucket)
            if max(len(case["dgm1"]), len(case["dgm2"])) >= 100:
                ctx.count("certified_pairs_100+_points")
            code = float(bn(A(case["dgm1"]), A(case["dgm2"])))
            ok = bn_is(code, v, case)
            ctx.test("bn.value_is_certified_optimum", ok)
            if not ok:
                ctx.violation("bottleneck value %r differs from the certified min-max matching cost %s" % (code, v),
                              {"X": case["dgm1"], "Y": case["dgm2"], "Z": [], "fn": "bn", "laws": ["value_is_certified_optimum"],
                               "certified": str(v)})
                return
            if not (math.isfinite(code) and Fraction(code) == v) and not ctx.counters.get("bn.value_not_bit_exact"):
                # lattice/half/dyadic inputs: the code's float arithmetic is exact, so is the model's value — a last-bit
                # difference is a break of the C01 correspondence, not a failing input of a law
                ctx.count("bn.value_not_bit_exact")
                ctx.violation("bottleneck value %r is not bit-identical to the certified min-max matching cost %s on a dyadic input "
                              "(equal up to rounding; the property holds on this input)" % (code, v),
                              {"correspondence": "bn(value, large sizes)", "line": "cert.opt", "code": code, "model": str(v),
                               "X": case["dgm1"], "Y": case["dgm2"], "Z": [], "fn": "bn", "laws": ["value_is_certified_optimum"]},
                              found_input=False)
            opt = c02.checked(cans, claimed)
            wcode = float(ws(A(case["dgm1"]), A(case["dgm2"])))
            ok = c02.agree(wcode, opt, c02.scale_of(case), case)
            ctx.test("ws.value_is_certified_optimum", ok)
            if not ok:
                ctx.violation("wasserstein value %r differs from the certified min-sum matching cost %r (optimum of the model's matrix, "
                              "dual certificate verified by cert.dual)" % (wcode, float(opt)),
                              {"X": case["dgm1"], "Y": case["dgm2"], "Z": [], "fn": "ws", "laws": ["value_is_certified_optimum"],
                               "certified": str(opt)})
                return


def bn_is(code, v, case):
    """verdict: the bottleneck value is the certified optimum up to rounding (1e-9 * largest |coordinate|)"""
    return math.isfinite(code) and abs(Fraction(code) - v) <= Fraction(TOL * c01.scale_of(case))


def eval_certified(name, X, Y):
    """the law `value_is_certified_optimum` for one pair on the real code -> (holds, code value, certified optimum)"""
    import warnings
    case = {"dgm1": X, "dgm2": Y, "mode": "dyadic", "kinds": ["array", "array"]}
    with warnings.catch_warnings():
        warnings.simplefilter("ignore")
        if name == "bn":
            v, line = c01.truth_for(case)
            if common.ask([line])[0] is not True:
                raise common.HarnessError("cert.opt rejected the certificate of the independent oracle")
            code = float(common.pm("bottleneck").bottleneck(A(X), A(Y)))
            return bn_is(code, v, case), code, v
        mat = common.ask(["ws.matrix %s %s" % (common.enc(X), common.enc(Y))])[0]
        if not (isinstance(mat, list) and len(mat) == 3):
            raise common.HarnessError("ws.matrix answered %r" % (mat,))
        line, claimed = c02.certificate(None, [[float(x) for x in row] for row in mat[2]])
        opt = c02.checked(common.ask([line])[0], claimed)
        code = float(common.pm("wasserstein").wasserstein(A(X), A(Y)))
        return c02.agree(code, opt, c02.scale_of(case), case), code, float(opt)


def replay(ctx, rep):
    import warnings
    c = rep["case"]
    if "X" not in c:
        print("nothing to re-run on the real code in this replay:", json.dumps(c)[:1500])
        return True
    name = "bn" if c.get("fn") == "bn" else "ws"
    pts = lambda d: [[float(x) for x in p] for p in d]
    with warnings.catch_warnings():
        warnings.simplefilter("ignore")
        if "hashseeds" in c:
            a = hashseed_values([[c["fn"], c["X"], c["Y"]]], c["hashseeds"][0])
            b = hashseed_values([[c["fn"], c["X"], c["Y"]]], c["hashseeds"][1])
            print(a, b); return a == b
        X, Y, Z = pts(c["X"]), pts(c["Y"]), pts(c.get("Z", []))
        if c.get("laws") == ["value_is_certified_optimum"]:
            ok, code, v = eval_certified(name, X, Y)
            print("code value %r, certified optimum %s" % (code, v))
            return ok
        scale = max(common.maxabs(X), common.maxabs(Y), common.maxabs(Z), 1e-300)
        if "perm_seed" in c:
            ing = {k: c[k] for k in ("perm_seed", "diag", "t", "lam", "eforms", "aslist") if k in c}
            ing["diag"] = [float(x) for x in ing["diag"]]
            rounds = [ing]
        else:
            # a record written before the random ingredients were stored (or by hand): the laws are re-evaluated with
            # several fresh draws (t and lam from the record where present)
            import random
            rr = random.Random(0)
            rounds = []
            for _ in range(5):
                ing = draw_ingredients(rr, X, Y, Z, scale)
                ing.update({k: float(c[k]) for k in ("t", "lam") if k in c})
                rounds.append(ing)
        failing = []
        for ing in rounds:
            det = {}
            bad = eval_laws(name, X, Y, Z, ing, None, det)
            print("values:", det)
            failing += [b for b in bad if b not in failing]
        print("laws recorded as failing:", c.get("laws"), "- failing now:", failing or "none")
        return not failing


MANIFEST = {
    "text": "Proof (174 theorems in Props/C07.lean, Props/C07Model.lean and the three lemma files, of which 55 are the core statements - since the second audit also three-oracle / three-solver triangle laws, list forms of the added-diagonal-point laws, left-side empty laws, scaling by 0, and the NECESSITY of birth <= death (improper_*: the models return -1/2 and -sqrt 2 on [(1,0)] against itself, as the code does): the 8 "
            "laws x 2 distances + bottleneck_le_wasserstein + the two List.Perm forms for the specification values, and 22 model-level laws "
            "model_bn_* / model_ws_* / model_bn_le_ws; the rest are facts about the two cost systems, the generic matching laws they "
            "instantiate and list/index bridges): every law of the statement is a Lean theorem about the specification values (minimum over "
            "all partial matchings) for diagrams of ANY size — symmetry, non-negativity, zero on reorderings, invariance under added diagonal "
            "points and diagonal translation, linear scaling, the value against the empty diagram, bottleneck <= Wasserstein, and BOTH "
            "triangle inequalities (composition of partial matchings) — first for arbitrary cost systems with a pseudo-metric pair cost and "
            "a 1-Lipschitz diagonal cost, then instantiated with (L-inf,(d-b)/2) and (Euclid,(d-b)/sqrt2) over the reals, and finally composed "
            "with the C01/C02 main theorems (Props/C07Model.lean) into EVERY law of the statement about what the MODELS of persim.bottleneck / "
            "persim.wasserstein return, for lists of raw points (non-finite deaths allowed) and any oracles/solvers honouring their contracts "
            "(two different ones where two runs occur, so across hash seeds) — under the hypothesis `ProperDgm` (birth <= death for every finite "
            "point) for all bottleneck laws and for the Wasserstein laws nonneg / reorder_zero / triangle (middle diagram) / bn_le_ws, which is "
            "necessary: the code returns -0.5 (bottleneck) and -1.414 (Wasserstein) for [(1,0)] against itself: symmetry, triangle, non-negativity, reordering of the inputs "
            "(List.Perm) leaves the value unchanged and d(X, perm X) = 0, a diagonal point inserted anywhere in either diagram, translation "
            "along the diagonal, scaling, the value against a side without finite points, bottleneck <= Wasserstein. That the code's values ARE "
            "the specification values is C01/C02; both correspondences are repeated here on related and independent pairs of exactly m+n "
            "points — up to 120+110 in the quick tier, 150+150 in the thorough tier — against certified optima (bottleneck: cert.opt, exact; "
            "Wasserstein: dual certificate of the model's matrix verified by cert.dual), and the laws are run on the real code on triples "
            "(60 quick, of up to 60 points plus two triples of 100+ points per diagram; 120 thorough, up to 300 points), including 'large "
            "offset, tiny spread' triples and triples whose diagrams contain points with infinite death (equal and different numbers of them across the "
            "three diagrams, different births: they are dropped, so every law must still hold), under several hash seeds.",
    "note": "Trusted: Lean kernel + Mathlib (propext/Classical.choice/Quot.sound); C01/C02 for 'code value = specification value' "
            "(external solvers hopcroftkarp / scipy LSA are contracts certified per run there; re-certified here at the large sizes); float "
            "rounding is outside the theorems ([T] law stream with stated tolerances: min(1e-9*largest |coordinate|*k, 1e-9*|value| + 32 eps*F*k), "
            "k = 1 for bottleneck, the number of points + 1 for Wasserstein, F = the extent sqrt 2*(largest - smallest coordinate) of the diagrams the law "
            "evaluates, and the largest |coordinate| only for the two laws that translate / scale the coordinates; non-negativity exact, also in reorder_zero and vs_empty).  Domain: diagrams with birth <= death "
            "(`ProperDgm` in Props/C07Model.lean, see ASSUMPTIONS); the code does not reject points below the diagonal and several laws are "
            "false there.  A violation record stores the random ingredients of the law evaluation (permutation seed, diagonal points, shift, "
            "factor, empty-diagram forms) and `replay` re-evaluates every law through the same function `eval_laws`.",
    "technique": "Lean 4 theorems about the matching specification, composed with the C01/C02 model theorems + laws and certified optima "
                 "replayed on the real code at large sizes",
}
