"""C04 — persistence image pixels are weighted kernel mass over each pixel.

Theorems: lean/PersimVerif/Props/C04.lean (model lean/PersimVerif/Model/Image.lean at an ordered field / the reals).
Tie: `PersistenceImager(...).transform` of the real code on non-square grids against
  (a) `img.assemble`: the model's reshape / inclusion-exclusion / weights / accumulation at Float, fed with the
      REAL kernel's values at the model's flat corner mesh (axes, signs, weights, order — independent of kernel accuracy),
  (b) `img.fast` / `img.one`: the model's own isotropic fast path and zero-covariance / uniform kernels at Float (Φ = Erfc.normCdf),
  (c) `img.uniform`: the whole image exactly at Rat on dyadic inputs,
  (d) `img.dispatch`: which path, against call counters wrapped around images_kernels.norm_cdf / the kernel.
[T]: pixel = sum_k w_k * (mass of the kernel density over the pixel), the mass computed independently of persim
     (closed forms, 1-D quadrature of the analytically marginalised density, scipy dblquad of the density).
"""
import math
import numpy as np
from fractions import Fraction
from .. import common
from ..translator import py2lean
from ..common import enc, ask, call

LEVEL = "proof"
PROP_FILES = ["PersimVerif/Props/C04.lean", py2lean.prop_file("weights")] + py2lean.prop_files("image")
RULE = ("one PRNG; imagers on NON-square grids (rx, ry in 1..7, rx != ry in 6 of 7 cases; plus a class of 24 / 150 LARGE grids 40x3, 3x40, "
        "64x64, 64x5, 33x17, 1x100, 128x2 with the uniform / zero-covariance Gaussian kernel at 1x/4x/12x the usual size and 4-24 points, "
        "every pixel against the closed-form mass), pixel sizes dyadic and non-dyadic, "
        "whole-configuration scale 2^-10/1/2^10; diagrams of 0-6 points placed inside / exactly on mesh lines / outside / far "
        "outside / on the diagonal / duplicated, given as (b,d) with skew=True or pre-converted with skew=False; kernels: Gaussian "
        "with scalar variance (float/int/np.float64), 2x2 matrix (list/array/tuple) with equal or unequal variances, zero or "
        "non-zero covariance (|r| up to 0.999, equal-variance correlated included), uniform box, user callables; weights: "
        "persistence (n random), linear_ramp (random low/high/start/end, all three branches, low/high negative in 3 of 7), user callable "
        "(coefficients negative in 3 of 7), user callables that return one of their argument arrays itself / a view of it / a copy "
        "(weight = that coordinate). "
        "OUTSIDE the quantifier, compared with the model only (a disagreement there is a correspondence break, never a claimed failing input; "
        "the same configuration restricted to the quantifier is judged instead): a point in 22 lies BELOW the diagonal (negative persistence: "
        "sign kept for odd n, NaN image for fractional n, `low` for the ramp), and 15% of the equal-variance matrices carry an ASYMMETRIC "
        "sigma[1][0] != sigma[0][1] = 0; "
        "ramp and user weights are scaled by 1e-12 / 1e-9 / 1 / 1e6 (tolerances are relative to the total absolute weight). "
        "non-trivial = at least one point of non-zero weight whose kernel puts mass > 1e-6 inside the grid; distinct by digest of the case")
ASSUMPTIONS = [
    "the kernel called on the flat corner arrays acts elementwise (true of the built-in kernels; the model's `vectorize`)",
    "the Gaussian kernel is the bivariate normal CDF: accuracy of bvn_cdf is C13's (partial) part; here its values enter `img.assemble` as data and the [T] density streams test the outcome",
    "mesh `_bpnts/_ppnts` and `resolution` are taken from the imager (C12 proves their geometry); the model requires len(mesh) = resolution + 1",
    "NumPy slicing / broadcasting / += semantics as modelled (lists of lists, row-major); float rounding is outside the theorems (1e-12 / 1e-9 tolerances, exact on dyadic uniform cases)",
]
TRUSTED = [py2lean.trusted_note("weights"), py2lean.trusted_note("image"),
           "scipy.special.ndtr, scipy.integrate.quad/dblquad as independent oracles of the [T] streams"]

# theorems that carry a clause of the property (of 20 in Props/C04.lean); not listed: `rfl` restatements (skew_is_bp, toBP_spec,
# persistence_weight_on_persistence, effKernel_general, dispatch_ignores_s10), helpers (uniformAt_apply, dispatch_general_iff,
# bad_mesh_rejected) and the documentation of a totalisation (linearRamp_degenerate)
CORE_THEOREMS = ["PersimVerif.C04." + n for n in (
    "pixel_is_weighted_mass", "rect_mass_of_cdf", "pixel_is_kernel_mass", "pixel_is_normal_mass_isotropic",
    "pixel_is_normal_mass_diag", "pixel_is_box_mass", "fast_path_eq_general", "fast_pixel_outer_product", "dispatch_fast_iff",
    "linearRamp_branches", "linearRamp_joints")]

TOL_ASM = 1e-12
TOL_FAST = 1e-9
TOL_MASS = 1e-6


# ----------------------------------------------------------------------------- case construction

class Counters:
    def __init__(self):
        self.direct_norm = 0
        self.kernel = 0
        self.depth = 0


def user_weight(b, p, a=1.0, c=0.5):
    """a user-supplied weight (elementwise)"""
    return a * np.abs(b) + c * p * p


# user weights that hand back one of their ARGUMENT ARRAYS (the object itself, a view of it, or — as a control — a copy):
# `lambda b, p: p` is the most natural user weight there is ("weigh by persistence").  The weight of a point is then that
# coordinate's value; an implementation that afterwards works in place on the array it passed to the weight function changes
# the weights it was given.
def _alias_p(b, p):
    return p


def _alias_b(b, p):
    return b


def _alias_p_view(b, p):
    return p[:]


def _alias_b_view(b, p):
    return b[:]


def _alias_p_asarray(b, p):
    return np.asarray(p)


def _alias_p_rev2(b, p):
    return p[::-1][::-1]


def _alias_p_copy(b, p):
    return p.copy()


USER_ALIAS = {"p": _alias_p, "b": _alias_b, "p[:]": _alias_p_view, "b[:]": _alias_b_view, "asarray(p)": _alias_p_asarray,
              "p[::-1][::-1]": _alias_p_rev2, "p.copy()": _alias_p_copy}


def user_fn_params(w):
    """(callable, weight_params) of a user weight description"""
    if w["kind"] == "user_alias":
        return USER_ALIAS[w["ret"]], {}
    return user_weight, {"a": w["a"], "c": w["c"]}


def user_value(w, b, p):
    """the weight of the point (b, p) under a user weight description, from its definition"""
    if w["kind"] == "user_alias":
        return b if w["ret"] in ("b", "b[:]") else p
    return w["a"] * abs(b) + w["c"] * p * p


def make_user_logistic(cnt):
    def logistic_kernel(x, y, mu=None, scale=1.0):
        cnt.kernel += 1
        return 1.0 / (1.0 + np.exp(-(x - mu[0]) / scale)) / (1.0 + np.exp(-(y - mu[1]) / scale))
    return logistic_kernel


def sigma_value(k):
    """kernel_params['sigma'] in the representation the case asks for"""
    rep = k["repr"]
    if "s" in k:
        s = k["s"]
        return int(s) if rep == "int" else (np.float64(s) if rep == "npfloat" else float(s))
    S = k["S"]
    if rep == "array":
        return np.array(S, dtype=np.float64)
    if rep == "tuple":
        return tuple(tuple(r) for r in S)
    return [list(r) for r in S]


def sigma_matrix(k):
    if "s" in k:
        return [[float(k["s"]), 0.0], [0.0, float(k["s"])]]
    return [[float(x) for x in r] for r in k["S"]]


class Patched:
    """wrap images_kernels.norm_cdf / gaussian / uniform with call counters for the duration of a block"""

    def __init__(self, cnt):
        self.cnt = cnt
        self.ik = common.pm("images_kernels")

    def __enter__(self):
        ik, cnt = self.ik, self.cnt
        self.saved = (ik.norm_cdf, ik.gaussian, ik.uniform)
        o_norm, o_gauss, o_unif = self.saved

        def norm_cdf(x):
            if cnt.depth == 0:
                cnt.direct_norm += 1
            return o_norm(x)

        def gaussian(birth, pers, mu=None, sigma=None):
            cnt.kernel += 1
            cnt.depth += 1
            try:
                return o_gauss(birth, pers, mu=mu, sigma=sigma)
            finally:
                cnt.depth -= 1

        def uniform(x, y, mu=None, width=1, height=1):
            cnt.kernel += 1
            return o_unif(x, y, mu=mu, width=width, height=height)

        ik.norm_cdf, ik.gaussian, ik.uniform = norm_cdf, gaussian, uniform
        return self

    def __exit__(self, *a):
        self.ik.norm_cdf, self.ik.gaussian, self.ik.uniform = self.saved


def build_imager(case, cnt):
    """must run inside `Patched` so that 'gaussian'/'uniform' resolve to the counted wrappers"""
    images = common.pm("images")
    ik = common.pm("images_kernels")
    iw = common.pm("images_weights")
    k, w = case["kernel"], case["weight"]
    if k["kind"] == "gaussian":
        kernel = "gaussian" if k.get("as", "str") == "str" else ik.gaussian
        kparams = {"sigma": sigma_value(k)}
    elif k["kind"] == "uniform":
        kernel = "uniform" if k.get("as", "str") == "str" else ik.uniform
        kparams = {"width": k["width"], "height": k["height"]}
    elif k["kind"] == "user_logistic":
        kernel, kparams = make_user_logistic(cnt), {"scale": k["scale"]}
    elif k["kind"] == "user_gauss_wrap":
        g = ik.gaussian

        def wrapped_gaussian(x, y, mu=None, sigma=None):
            return g(x, y, mu=mu, sigma=sigma)
        kernel, kparams = wrapped_gaussian, {"sigma": sigma_value(k)}
    else:
        raise common.HarnessError("kernel kind %r" % k["kind"])
    if w["kind"] == "persistence":
        weight = "persistence" if w.get("as", "str") == "str" else iw.persistence
        wparams = {"n": w["n"]}
    elif w["kind"] == "linear_ramp":
        weight = "linear_ramp" if w.get("as", "str") == "str" else iw.linear_ramp
        wparams = {"low": w["low"], "high": w["high"], "start": w["start"], "end": w["end"]}
    elif w["kind"] in ("user", "user_alias"):
        weight, wparams = user_fn_params(w)
    else:
        raise common.HarnessError("weight kind %r" % w["kind"])
    return images.PersistenceImager(birth_range=tuple(case["birth_range"]), pers_range=tuple(case["pers_range"]),
                                    pixel_size=case["pixel_size"], weight=weight, weight_params=wparams,
                                    kernel=kernel, kernel_params=kparams)


def real_kernel_values(case, bb, pp, mu):
    """the REAL kernel's flat output at the corner arrays `bb, pp` for a point at `mu` (uncounted originals)"""
    ik = common.pm("images_kernels")
    k = case["kernel"]
    bb = np.array(bb, dtype=np.float64); pp = np.array(pp, dtype=np.float64); mu = np.array(mu, dtype=np.float64)
    if k["kind"] in ("gaussian", "user_gauss_wrap"):
        return ik.gaussian(bb, pp, mu=mu, sigma=np.array(sigma_matrix(k)))
    if k["kind"] == "uniform":
        return ik.uniform(bb, pp, mu=mu, width=k["width"], height=k["height"])
    return make_user_logistic(Counters())(bb, pp, mu=mu, scale=k["scale"])


def weight_spec(w):
    if w["kind"] == "persistence":
        return ["pers", w["n"]]
    if w["kind"] == "linear_ramp":
        return ["ramp", w["low"], w["high"], w["start"], w["end"]]
    return None


def kernel_spec(k):
    if k["kind"] == "gaussian":
        if "s" in k:
            return ["gaussian", ["scalar", float(k["s"])]]
        S = sigma_matrix(k)
        return ["gaussian", ["matrix", S[0][0], S[0][1], S[1][0], S[1][1]]]
    if k["kind"] == "uniform":
        return ["uniform", k["width"], k["height"]]
    return ["other"]


def to_bp(case):
    d = case["dgm"]
    return [[b, (x - b) if case["skew"] else x] for b, x in d]


def weights_independent(case, bp):
    """the weight of each point from the documentation of the weight functions (not persim's code)"""
    w = case["weight"]
    out = []
    for b, p in bp:
        if w["kind"] == "persistence":
            out.append(float(np.float64(p) ** w["n"]) if (p >= 0 or float(w["n"]).is_integer()) else math.nan)
        elif w["kind"] == "linear_ramp":
            if p < w["start"]:
                out.append(w["low"])
            elif p > w["end"]:
                out.append(w["high"])
            else:
                out.append((p - w["start"]) * (w["high"] - w["low"]) / (w["end"] - w["start"]) + w["low"])
        else:
            out.append(user_value(w, b, p))
    return out


# ----------------------------------------------------------------------------- independent mass oracles

def _ndtr(x):
    from scipy.special import ndtr
    return float(ndtr(x))


def mass_closed(k, mu, b0, b1, p0, p1):
    """mass of the kernel's distribution centred at mu over (b0,b1]x(p0,p1]; None when no closed form"""
    if k["kind"] in ("gaussian", "user_gauss_wrap"):
        S = sigma_matrix(k)
        if S[0][1] != 0.0:
            return None
        sx, sy = math.sqrt(S[0][0]), math.sqrt(S[1][1])
        return (_ndtr((b1 - mu[0]) / sx) - _ndtr((b0 - mu[0]) / sx)) * (_ndtr((p1 - mu[1]) / sy) - _ndtr((p0 - mu[1]) / sy))
    if k["kind"] == "uniform":
        W, H = k["width"], k["height"]
        ox = max(0.0, min(b1, mu[0] + W / 2) - max(b0, mu[0] - W / 2))
        oy = max(0.0, min(p1, mu[1] + H / 2) - max(p0, mu[1] - H / 2))
        return ox * oy / (W * H)
    s = k["scale"]
    lg = lambda t: 1.0 / (1.0 + math.exp(-t)) if t > -700 else 0.0
    return (lg((b1 - mu[0]) / s) - lg((b0 - mu[0]) / s)) * (lg((p1 - mu[1]) / s) - lg((p0 - mu[1]) / s))


def mass_quad1d(k, mu, b0, b1, p0, p1):
    """bivariate normal: marginalise y analytically (conditional normal), integrate the density in x by quadrature"""
    from scipy.integrate import quad
    S = sigma_matrix(k)
    sx = math.sqrt(S[0][0])
    sc = math.sqrt(S[1][1] - S[0][1] ** 2 / S[0][0])
    beta = S[0][1] / S[0][0]

    def f(x):
        z = (x - mu[0]) / sx
        m = mu[1] + beta * (x - mu[0])
        return math.exp(-0.5 * z * z) / (sx * math.sqrt(2 * math.pi)) * (_ndtr((p1 - m) / sc) - _ndtr((p0 - m) / sc))
    lo, hi = max(b0, mu[0] - 10 * sx), min(b1, mu[0] + 10 * sx)
    if lo >= hi:
        return 0.0
    # break where the conditional mean crosses the pixel's persistence edges (the integrand has its kinks there)
    pts = [mu[0]]
    if beta != 0.0:
        pts += [mu[0] + (p0 - mu[1]) / beta, mu[0] + (p1 - mu[1]) / beta]
    pts = sorted(t for t in pts if lo < t < hi)
    v, _ = quad(f, lo, hi, points=pts or None, epsabs=1e-13, epsrel=1e-12, limit=400)
    return v


def mass_dblquad(k, mu, b0, b1, p0, p1):
    """2-D numerical integration of the kernel DENSITY over the pixel (clipped to mu +- 9 sd, where the rest is < 1e-17)"""
    from scipy.integrate import dblquad
    if k["kind"] == "uniform":
        return mass_closed(k, mu, b0, b1, p0, p1)
    if k["kind"] == "user_logistic":
        s = k["scale"]

        def pdf(y, x):
            ex, ey = math.exp(-abs(x - mu[0]) / s), math.exp(-abs(y - mu[1]) / s)
            return ex / (s * (1 + ex) ** 2) * ey / (s * (1 + ey) ** 2)
        lo, hi, lo2, hi2 = max(b0, mu[0] - 40 * s), min(b1, mu[0] + 40 * s), max(p0, mu[1] - 40 * s), min(p1, mu[1] + 40 * s)
    else:
        S = sigma_matrix(k)
        det = S[0][0] * S[1][1] - S[0][1] ** 2
        inv = [[S[1][1] / det, -S[0][1] / det], [-S[0][1] / det, S[0][0] / det]]
        nrm = 1.0 / (2 * math.pi * math.sqrt(det))

        def pdf(y, x):
            dx, dy = x - mu[0], y - mu[1]
            return nrm * math.exp(-0.5 * (inv[0][0] * dx * dx + 2 * inv[0][1] * dx * dy + inv[1][1] * dy * dy))
        sx, sy = math.sqrt(S[0][0]), math.sqrt(S[1][1])
        lo, hi, lo2, hi2 = max(b0, mu[0] - 9 * sx), min(b1, mu[0] + 9 * sx), max(p0, mu[1] - 9 * sy), min(p1, mu[1] + 9 * sy)
    if lo >= hi or lo2 >= hi2:
        return 0.0
    v, _ = dblquad(pdf, lo, hi, lo2, hi2, epsabs=1e-11, epsrel=1e-10)
    return v


def corr_of(k):
    if k["kind"] not in ("gaussian", "user_gauss_wrap"):
        return 0.0
    S = sigma_matrix(k)
    return S[0][1] / math.sqrt(S[0][0] * S[1][1])


def spec_pixel(case, bpn, ppn, i, j, how="best"):
    """sum_k w_k * mass_k(pixel i,j) with i indexing BIRTH and j PERSISTENCE — written from the statement, not from the code"""
    bp = to_bp(case)
    wts = weights_independent(case, bp)
    tot = 0.0
    for mu, w in zip(bp, wts):
        if w == 0.0:
            continue
        if how == "dblquad":
            m = mass_dblquad(case["kernel"], mu, bpn[i], bpn[i + 1], ppn[j], ppn[j + 1])
        else:
            m = mass_closed(case["kernel"], mu, bpn[i], bpn[i + 1], ppn[j], ppn[j + 1])
            if m is None:
                m = mass_quad1d(case["kernel"], mu, bpn[i], bpn[i + 1], ppn[j], ppn[j + 1])
        tot += w * m
    return tot


def wscale(case):
    """the scale every tolerance of this file is RELATIVE to: the total absolute weight of the diagram (every pixel is a sum of
    w_k * mass_k with 0 <= mass_k <= 1).  No floor at 1: with tiny weights (scale 2^-10, persistence**3 ~ 1e-9) an absolute
    1e-6 would accept any image.  The 1e-300 floor only keeps an all-zero-weight diagram comparable (its image must be 0)."""
    ws = [abs(x) for x in weights_independent(case, to_bp(case)) if math.isfinite(x)]
    return max(1e-300, sum(ws))


def sc0(case):
    return sum(abs(x) for x in weights_independent(case, to_bp(case)) if math.isfinite(x))


def within(x, y, tol, sc):
    """|x - y| <= tol * sc (sc = wscale, not floored at 1); NaN matches NaN, an infinity only itself"""
    x, y = float(x), float(y)
    if math.isnan(x) or math.isnan(y):
        return math.isnan(x) and math.isnan(y)
    if math.isinf(x) or math.isinf(y):
        return x == y
    return abs(x - y) <= tol * sc


# ----------------------------------------------------------------------------- the property's quantifier

def outside_quantifier(case):
    """None when the case lies inside the quantifier of C04 (a DIAGRAM: every point has persistence >= 0; a COVARIANCE matrix:
    symmetric), else what puts it outside.  Such cases are still generated and compared with the model (correspondence), but
    what the code does with them is not fixed by the property: a disagreement there is never judged by the mass oracle and never
    claimed as a failing input; the nearest case inside the quantifier (`project_inside`) is judged instead."""
    why = []
    if any(q[1] < 0 for q in to_bp(case)):
        why.append("point below the diagonal")
    k = case["kernel"]
    if "S" in k and k["S"][0][1] != k["S"][1][0]:
        why.append("asymmetric sigma")
    return " + ".join(why) or None


def project_inside(case):
    """the same configuration restricted to the quantifier: points below the diagonal dropped, sigma[1][0] := sigma[0][1]"""
    c = dict(case)
    keep = [q[1] >= 0 for q in to_bp(case)]
    c["dgm"] = [list(row) for row, kp in zip(case["dgm"], keep) if kp]
    k = dict(case["kernel"])
    if "S" in k:
        S = [list(r) for r in k["S"]]
        S[1][0] = S[0][1]
        k["S"] = S
    c["kernel"] = k
    c["projected_from_outside_quantifier"] = outside_quantifier(case)
    return c


# ----------------------------------------------------------------------------- generators

def dy(r, lo, hi, den=8):
    return r.randint(int(lo * den), int(hi * den)) / float(den)


def gen_kernel(r, kind, ps, scale, dyadic):
    if kind == "scalar":
        # `sigma` is a VARIANCE; sizes relative to the pixel: sd from 0.45 to 2.8 pixels
        rep = r.choice(["float", "float", "npfloat", "int"])
        if rep == "int" and 0.3 <= ps <= 3.0:
            return {"kind": "gaussian", "s": int(r.choice([1, 2, 4])), "repr": rep, "as": r.choice(["str", "callable"])}
        rep = "float" if rep == "int" else rep
        v = r.choice([0.05, 0.25, 1.0, r.uniform(0.02, 2.0)]) * (2 * ps) ** 2
        return {"kind": "gaussian", "s": v, "repr": rep, "as": r.choice(["str", "callable"])}
    if kind in ("diag_eq", "diag_ne", "corr", "corr_eq"):
        base = (ps ** 2) * 4
        a = r.choice([0.05, 0.3, 1.0, r.uniform(0.03, 2.0)]) * base
        d = a if kind in ("diag_eq", "corr_eq") else a * r.choice([0.25, 0.5, 2.0, 3.7, r.uniform(0.2, 5.0)])
        if kind in ("corr", "corr_eq"):
            rho = r.choice([0.1, -0.3, 0.5, -0.7, 0.8, 0.9, -0.93, 0.95, 0.99, -0.99, 0.999, -0.997, r.uniform(-0.99, 0.99)])
            c = rho * math.sqrt(a * d)
        else:
            c = 0.0
        rep = r.choice(["list", "array", "tuple"])
        S = [[a, c], [c, d]]
        if kind == "diag_eq" and r.random() < 0.15:
            # NOT a covariance matrix (outside the quantifier, see outside_quantifier): kept as a correspondence-only probe of
            # which entries the code reads; never judged by the mass oracle
            S[1][0] = 0.37 * a
            rep = "list"
        return {"kind": "gaussian", "S": S, "repr": rep, "as": r.choice(["str", "callable"])}
    if kind == "uniform":
        if dyadic:
            return {"kind": "uniform", "width": r.choice([0.25, 0.5, 1.0, 2.0]) * scale, "height": r.choice([0.25, 0.5, 1.0, 2.0]) * scale,
                    "as": r.choice(["str", "callable"])}
        return {"kind": "uniform", "width": r.uniform(0.3, 4.0) * ps, "height": r.uniform(0.3, 4.0) * ps, "as": r.choice(["str", "callable"])}
    if kind == "user_logistic":
        return {"kind": "user_logistic", "scale": r.uniform(0.2, 1.5) * ps}
    if kind == "user_gauss_wrap":
        a = r.uniform(0.1, 2.0) * ps * ps * 4
        return {"kind": "user_gauss_wrap", "S": [[a, 0.0], [0.0, a]], "repr": "array"}
    raise common.HarnessError(kind)


def gen_weight(r, pr, scale, dyadic):
    kind = r.choice(["persistence", "persistence", "linear_ramp", "linear_ramp", "user", "user_alias"]) if not dyadic \
        else r.choice(["persistence", "linear_ramp"])
    if kind == "user_alias":
        # the weight function returns one of the arrays it was called with (itself / a view / a copy as control)
        return {"kind": "user_alias", "ret": r.choice(["p", "p", "b", "p[:]", "b[:]", "asarray(p)", "p[::-1][::-1]", "p.copy()"])}
    if kind == "persistence":
        n = float(r.choice([1, 2, 3])) if dyadic else r.choice([1.0, 2.0, 0.5, 3.0, r.uniform(0.3, 3.0)])
        return {"kind": "persistence", "n": n, "as": r.choice(["str", "callable"])}
    if kind == "linear_ramp":
        h = pr[1] - pr[0]
        if dyadic:
            start = pr[0] + dy(r, 0, 1) * h / 1.0
            width = r.choice([0.25, 0.5, 1.0, 2.0]) * scale
            low, high = dy(r, 0, 2), dy(r, 0, 2)
            if r.random() < 0.2:            # weights may be negative (the property fixes sum_k w_k*mass_k for every weight function)
                low, high = r.choice([(-low, high), (low, -high), (-low, -high)])
            return {"kind": "linear_ramp", "low": low, "high": high, "start": start, "end": start + width, "as": r.choice(["str", "callable"])}
        start = pr[0] + r.uniform(-0.2, 0.8) * h
        end = start + r.uniform(0.05, 1.0) * h
        mag = r.choice([1.0, 1.0, 1.0, 1.0, 1e-9, 1e-12, 1e6])      # tiny / huge total weights: the tolerances are relative to sum|w|
        sl, sh = r.choice([(1, 1), (1, 1), (1, 1), (1, 1), (-1, 1), (1, -1), (-1, -1)])      # negative weights are weights too
        return {"kind": "linear_ramp", "low": sl * r.choice([0.0, r.uniform(0, 2), r.uniform(0, 2)]) * mag, "high": sh * r.uniform(0, 2) * mag,
                "start": start, "end": end, "as": r.choice(["str", "callable"])}
    mag = r.choice([1.0, 1.0, 1.0, 1.0, 1e-9, 1e-12, 1e6])
    sa, sc_ = r.choice([(1, 1), (1, 1), (1, 1), (1, 1), (-1, 1), (1, -1), (-1, -1)])
    return {"kind": "user", "a": sa * r.uniform(0, 2) * mag, "c": sc_ * r.uniform(0, 2) / (scale * scale) * mag}


def gen_points(r, br, pr, ps, rx, ry, dyadic, n, below=True):
    """n points in birth-persistence coordinates: inside / on mesh lines / outside / far / diagonal / duplicates /
    (1 in 22, `below`) BELOW the diagonal (negative persistence: a (b,d) row with d < b, or a negative second column with
    skew=False — persistence**n keeps the sign for odd n, is NaN for fractional n; linear_ramp gives `low`).  A case with a
    point below the diagonal is not a diagram: outside the quantifier, correspondence only (see outside_quantifier)."""
    bp = []
    gx = [br[0] + t * ps for t in range(rx + 1)]
    gy = [pr[0] + t * ps for t in range(ry + 1)]
    places = ["inside", "inside", "border", "outside", "far", "diag", "dup"]
    places = places * 3 + (["below"] if below else ["inside"])
    for _ in range(n):
        where = r.choice(places)
        if where == "dup" and bp:
            bp.append(list(r.choice(bp)))
            continue
        if where == "below":
            b = br[0] + dy(r, -1, rx + 1, 4) * ps if dyadic else r.uniform(br[0] - ps, br[1] + ps)
            p = -(dy(r, 0.25, ry + 1, 4) * ps if dyadic else r.choice([r.uniform(0.0, 1.0) * ps, r.uniform(0.0, ry + 1.0) * ps, 0.5 * ps]))
            bp.append([b, p])
            continue
        if dyadic:
            b = br[0] + dy(r, -1, rx + 1, 4) * ps
            p = max(0.0, pr[0] + dy(r, -1, ry + 1, 4) * ps)
        elif where == "border":
            b, p = r.choice(gx), r.choice(gy)
            if r.random() < 0.4:
                b = r.uniform(br[0], br[1])
        elif where == "outside":
            b = r.choice([br[0] - r.uniform(0, 2) * ps, br[1] + r.uniform(0, 2) * ps, r.uniform(br[0], br[1])])
            p = r.choice([pr[1] + r.uniform(0, 2) * ps, max(0.0, pr[0] - r.uniform(0, 2) * ps)])
        elif where == "far":
            b, p = br[1] + 100 * ps * r.uniform(1, 3), pr[1] + 100 * ps * r.uniform(1, 3)
        elif where == "diag":
            b, p = r.uniform(br[0], br[1]), 0.0
        else:
            b, p = r.uniform(br[0], br[1]), r.uniform(pr[0], pr[1])
        bp.append([b, max(0.0, p)])
    return bp


def more_dgm(ctx, case, n=None):
    """another diagram for the configuration of `case`, in the same call convention (skew flag) as `case`"""
    r = ctx.rng
    n = r.choice([0, 1, 2, 3, 5]) if n is None else n
    bp = gen_points(r, case["birth_range"], case["pers_range"], case["pixel_size"], case["rx_hint"], case["ry_hint"],
                    case.get("dyadic", False), n)
    return [[b, b + p] for b, p in bp] if case["skew"] else bp


KINDS = ["scalar", "diag_eq", "diag_ne", "corr", "corr_eq", "uniform", "user_logistic", "user_gauss_wrap"]


LARGE_GRIDS = [(40, 3), (3, 40), (64, 64), (64, 5), (33, 17), (1, 100), (128, 2)]
LARGE_KINDS = ["uniform", "uniform", "diag_ne", "diag_ne", "diag_eq", "scalar"]      # kernels with a closed-form mass: every pixel is checked


def gen_case(ctx, kind=None, dyadic=False, large=False):
    """large=True: a grid of 100..4096 pixels (LARGE_GRIDS) with a uniform / zero-covariance Gaussian kernel whose size is 1x, 4x or
    12x the usual one and 4..24 points spread over the grid, so that many pixels far apart carry mass (blocked / vectorised rewrites
    that only go wrong above some pixel count)"""
    r = ctx.rng
    kind = kind or r.choice(LARGE_KINDS if large else KINDS)
    scale = 1.0 if dyadic else r.choice([2.0 ** -10, 1.0, 1.0, 1.0, 1.0, 2.0 ** 10])
    rx = r.randint(1, 7)
    ry = r.randint(1, 7)
    if rx == ry and r.random() < 0.85:
        ry = rx % 7 + 1
    if large:
        rx, ry = r.choice(LARGE_GRIDS)
    if dyadic:
        ps = r.choice([0.25, 0.5, 1.0])
        b0, p0 = dy(r, -2, 2, 4), dy(r, 0, 2, 4)
        br, pr = (b0, b0 + rx * ps), (p0, p0 + ry * ps)
    else:
        ps = r.choice([0.25, 0.5, 0.1, 0.3, 0.2, r.uniform(0.05, 1.0)]) * scale
        b0, p0 = r.uniform(-2, 2) * scale, r.uniform(0, 1) * scale
        fx = r.choice([1.0, 1.0, r.uniform(0.55, 0.999)])       # ranges that are not multiples of the pixel size get padded
        fy = r.choice([1.0, 1.0, r.uniform(0.55, 0.999)])
        br, pr = (b0, b0 + (rx - 1 + fx) * ps), (p0, p0 + (ry - 1 + fy) * ps)
    case = {"birth_range": list(br), "pers_range": list(pr), "pixel_size": ps, "rx_hint": rx, "ry_hint": ry,
            "kernel": gen_kernel(r, kind, ps, scale, dyadic), "kind": kind}
    case["weight"] = gen_weight(r, pr, scale, dyadic)
    n = r.choice([0, 1, 1, 2, 3, 4, 6])
    if r.random() < 0.012:
        n = r.randint(257, 600)            # diagrams beyond a few hundred points (blocked / vectorised rewrites)
    if large:
        case["large_grid"] = True
        f = r.choice([1.0, 4.0, 12.0])     # kernel size in units of the usual one (sd / box side)
        k = case["kernel"]
        if "s" in k:
            k["s"] = k["s"] * (int(f * f) if k["repr"] == "int" else f * f)
        elif "S" in k:
            k["S"] = [[x * f * f for x in row] for row in k["S"]]
        else:
            k["width"], k["height"] = k["width"] * f, k["height"] * f
        n = r.randint(4, 24)
    bp = gen_points(r, br, pr, ps, rx, ry, dyadic, n, below=not large)
    case["skew"] = r.random() < 0.6
    case["decoy"] = r.random() < 0.3       # see run_real: a call on a look-alike imager right before the real one
    # the joblib route of `transform` (n_jobs=1 runs it in-process): the options must reach the worker call too
    case["n_jobs"] = 1 if r.random() < 0.12 else None
    # the caller's diagram: (b, d) when skew, else the already converted (b, p)
    case["dgm"] = [[b, b + p] for b, p in bp] if case["skew"] else bp
    case["dyadic"] = dyadic
    return case


# ----------------------------------------------------------------------------- running one case on the real code

def run_real(case):
    """-> (status, image or error kind, path taken ('fast'/'general'/None), bpnts, ppnts, resolution)"""
    cnt = Counters()
    if case.get("decoy"):
        # a call on ANOTHER imager right before the real one, with the same lower-left corner, resolution, kernel and
        # weight but twice the pixel size: state carried from one call to the next (caches keyed too coarsely) shows up
        # as a wrong image of the real call
        dc = dict(case)
        ps = case["pixel_size"] * 2
        b0, p0 = case["birth_range"][0], case["pers_range"][0]
        nb = max(1, int(math.ceil((case["birth_range"][1] - b0) / case["pixel_size"] - 1e-9)))
        npx = max(1, int(math.ceil((case["pers_range"][1] - p0) / case["pixel_size"] - 1e-9)))
        dc.update(pixel_size=ps, birth_range=[b0, b0 + nb * ps], pers_range=[p0, p0 + npx * ps], decoy=False)
        try:
            with np.errstate(all="ignore"):
                build_imager(dc, Counters()).transform(np.array(case["dgm"], dtype=np.float64).reshape(-1, 2), skew=case["skew"])
        except Exception:                          # the decoy is only there to leave state behind
            pass
    with Patched(cnt):
        pim = build_imager(case, cnt)
        bpn, ppn, res = [float(x) for x in pim._bpnts], [float(x) for x in pim._ppnts], tuple(int(x) for x in pim.resolution)
        d = np.array(case["dgm"], dtype=np.float64).reshape(-1, 2)
        with np.errstate(all="ignore"):
            if case.get("via") == "fit_transform":
                # the other public route to an image: the ranges are first fitted to the diagram, so the mesh is read afterwards
                st, v, _ = call(pim.fit_transform, d, skew=case["skew"])
                if st == "ok":
                    bpn, ppn, res = [float(x) for x in pim._bpnts], [float(x) for x in pim._ppnts], tuple(int(x) for x in pim.resolution)
            else:
                kw = {"n_jobs": case["n_jobs"]} if case.get("n_jobs") is not None else {}
                st, v, _ = call(pim.transform, d, skew=case["skew"], **kw)
    n = len(case["dgm"])
    path = None
    if n > 0 and st == "ok":
        if cnt.direct_norm == 2 * n and cnt.kernel == 0:
            path = "fast"
        elif cnt.direct_norm == 0 and (cnt.kernel == n or case["kernel"]["kind"] == "user_gauss_wrap"):
            path = "general"
        else:
            path = "mixed(direct_norm=%d,kernel=%d,n=%d)" % (cnt.direct_norm, cnt.kernel, n)
    return st, v, path, bpn, ppn, res


def expected_path(k):
    """from the statement of the dispatch: fast iff the kernel is images_kernels.gaussian and sigma is scalar or isotropic"""
    if k["kind"] != "gaussian":
        return "general"
    if "s" in k:
        return "fast"
    S = k["S"]
    return "fast" if (S[0][0] == S[1][1] and S[0][1] == 0.0) else "general"


def nontrivial(case, bpn, ppn):
    bp = to_bp(case)
    wts = weights_independent(case, bp)
    for mu, w in zip(bp, wts):
        if w != 0.0 and math.isfinite(w):
            m = mass_closed(case["kernel"], mu, bpn[0], bpn[-1], ppn[0], ppn[-1])
            if m is None or m > 1e-6:
                return True
    return False


def img_close(a, b, tol, scale):
    if isinstance(b, str) or isinstance(a, str):
        return a == b
    try:
        return len(a) == len(b) and all(len(ra) == len(rb) and all(within(x, y, tol, scale) for x, y in zip(ra, rb))
                                        for ra, rb in zip(a, b))
    except TypeError:
        return False


def maxdiff_pixel(a, b):
    best, at = -1.0, (0, 0)
    try:
        for i, (ra, rb) in enumerate(zip(a, b)):
            for j, (x, y) in enumerate(zip(ra, rb)):
                d = abs(float(x) - float(y))
                if not (d <= best):
                    best, at = d, (i, j)
    except TypeError:
        pass
    return at


def property_fails(case, code_img, bpn, ppn, res, focus=None, budget=40):
    """search for a pixel where the PROPERTY fails on the real code: |pixel - sum w*mass| > 1e-6*scale, or wrong axes.
       returns a description or None"""
    if isinstance(code_img, str):
        # every generated case is a valid call (the model produces an image for it): no image at all is a failure
        return "transform raised %s on a valid diagram / configuration" % code_img[4:]
    a = np.asarray(code_img)
    if a.shape != (len(bpn) - 1, len(ppn) - 1) or a.shape != tuple(res):
        return "image shape %s is not (birth pixels, persistence pixels) = %s" % (a.shape, (len(bpn) - 1, len(ppn) - 1))
    sc = wscale(case)
    cells = [(i, j) for i in range(a.shape[0]) for j in range(a.shape[1])]
    if focus is not None and focus in cells:
        cells.remove(focus); cells.insert(0, focus)
    slow = mass_closed(case["kernel"], [0.0, 0.0], 0.0, 1.0, 0.0, 1.0) is None
    if slow:
        cells = cells[:budget]
    for (i, j) in cells:
        s = spec_pixel(case, bpn, ppn, i, j)
        if not within(a[i, j], s, TOL_MASS, sc):
            return "pixel [birth %d][persistence %d] = %r but sum_k w_k*mass_k = %r" % (i, j, float(a[i, j]), s)
    return None


def judge_inside(case, budget=40):
    """the property on the real code for a case INSIDE the quantifier, by the independent mass oracle; a description or None"""
    st, v, path, bpn, ppn, res = run_real(case)
    return property_fails(case, ("err:" + v) if st == "err" else common.tolist(v), bpn, ppn, res, budget=budget)


def pre_build(ctx):
    """source translator (DESIGN.md 3.2): regenerate Generated/SrcWeights.lean and Generated/SrcImage.lean (the image assembly:
    `_transform`, `transform`, `fit_transform`) from PERSIM_ROOT's source"""
    py2lean.pre_build(ctx, ("weights", "image"))


def run(ctx):
    py2lean.report_broken(ctx, PROP_FILES)
    r = ctx.rng
    ctx.extra["core_theorems"] = CORE_THEOREMS
    n = ctx.n(3000, 30000)
    corpus = corpus_cases()
    cases = corpus + [gen_case(ctx, kind=KINDS[i % len(KINDS)] if i < 3 * len(KINDS) else None) for i in range(n)] \
        + [gen_case(ctx, kind="uniform", dyadic=True) for _ in range(ctx.n(800, 6000))] \
        + [gen_case(ctx, large=True) for _ in range(ctx.n(24, 150))]
    cov = common.LineCov(["persim/images.py", "persim/images_weights.py"])
    reals = []
    for idx, case in enumerate(cases):
        if idx < 60:
            with cov:
                reals.append(run_real(case))
        else:
            reals.append(run_real(case))
    ctx.extra["branch_hits"] = anchored_only(cov)
    ctx.extra["anchored_digest"] = {"images._transform/transform/_ensure_iterable": common.source_digest(
        "persim/images.py", ["_transform", "transform", "_ensure_iterable"]),
        "images_weights": common.source_digest("persim/images_weights.py")}
    # phase 1: the model's flat corner mesh
    mesh = ask(["img.mesh %s %s" % (enc(bpn), enc(ppn)) for (_, _, _, bpn, ppn, _) in reals])
    # phase 2: assemble from the real kernel's values on that mesh + the model's own paths
    lines, plan = [], []
    for case, (st, v, path, bpn, ppn, res), m in zip(cases, reals, mesh):
        bb, pp = [float(x) for x in m[0]], [float(x) for x in m[1]]
        bp = to_bp(case)
        head = "%d %d %s %s %s %s" % (res[0], res[1], enc(bpn), enc(ppn), enc(case["dgm"]), enc(case["skew"]))
        ws = weight_spec(case["weight"])
        if ws is None:
            with np.errstate(all="ignore"):
                fn, fkw = user_fn_params(case["weight"])
                raw = fn(np.array([p[0] for p in bp], dtype=np.float64), np.array([p[1] for p in bp], dtype=np.float64), **fkw)
            wtok = enc(["raw", [float(x) for x in raw]])
        else:
            wtok = enc(ws)
        with np.errstate(all="ignore"):
            tables = [[float(x) for x in np.asarray(real_kernel_values(case, bb, pp, mu)).ravel()] for mu in bp]
        plan.append(("assemble", len(lines))); lines.append("img.assemble %s %s %s" % (head, wtok, enc(tables)))
        ks = kernel_spec(case["kernel"])
        plan.append(("dispatch", len(lines))); lines.append("img.dispatch %s" % enc(ks))
        if ws is not None and ks[0] == "gaussian" and sigma_matrix(case["kernel"])[0][1] == 0.0:
            plan.append(("one", len(lines))); lines.append("img.one %s %s %s" % (head, wtok, enc(ks)))
            if expected_path(case["kernel"]) == "fast":
                plan.append(("fast", len(lines))); lines.append("img.fast %s %s %s" % (head, wtok, enc(sigma_matrix(case["kernel"])[0][0])))
        if ws is not None and ks[0] == "uniform":
            plan.append(("one", len(lines))); lines.append("img.one %s %s %s" % (head, wtok, enc(ks)))
            if case.get("dyadic"):
                plan.append(("uniform", len(lines)))
                lines.append("img.uniform %s %s %s %s" % (head, enc(["pers", int(ws[1])] if ws[0] == "pers" else ws), enc(ks[1]), enc(ks[2])))
        plan.append(("end", len(lines)))
    answers = ask(lines)
    # compare
    pi = 0
    pix_budget = ctx.n(750, 7500)
    deferred, slow_search_budget = [], 60
    projection_budget = {"fast": 80, "slow": 12}       # out-of-quantifier disagreements re-judged on their projection
    for ci, (case, (st, v, path, bpn, ppn, res)) in enumerate(zip(cases, reals)):
        code = ("err:" + v) if st == "err" else common.tolist(v)
        nt = st == "ok" and nontrivial(case, bpn, ppn)
        ctx.case({"op": "transform", **case}, nt, sample_every=53)
        ctx.count("kernel:" + case["kind"]); ctx.count("weight:" + case["weight"]["kind"]); ctx.count("points:%d" % len(case["dgm"]))
        ctx.count("skew:%s" % case["skew"]); ctx.count("res:%dx%d" % res if max(res) <= 3 else "res:larger")
        _bp = to_bp(case)
        oq = outside_quantifier(case)
        if oq is not None:
            ctx.count("outside_quantifier(correspondence only):" + oq)
        if case.get("large_grid"):
            ctx.count("large_grid:%dx%d" % res)
        if any(x < 0 for x in weights_independent(case, _bp)) and oq is None:
            ctx.count("has_negative_weight(inside quantifier)")
        if any(q[1] < 0 for q in _bp):
            ctx.count("has_point_below_diagonal")
            if any(math.isnan(x) for x in weights_independent(case, _bp)):
                ctx.count("below_diagonal_fractional_exponent_NaN_image")
        ctx.count("total_weight:%s" % ("0" if sc0(case) == 0 else "<1e-6" if sc0(case) < 1e-6 else "<1" if sc0(case) < 1 else ">=1"))
        if st == "err":
            ctx.count("code_error:" + v)
        sc = wscale(case)
        bad = []
        while plan[pi][0] != "end":
            op, li = plan[pi]; pi += 1
            ans = answers[li]
            if ans == "bad-op":
                raise common.HarnessError("driver rejected: %s" % lines[li][:300])
            if op == "dispatch":
                model_path = "fast" if isinstance(ans, list) else str(ans)
                ctx.count("path:" + model_path)
                if path is not None and path != model_path:
                    bad.append(("dispatch", "code took the %s path, model says %s" % (path, model_path), li))
                if model_path != expected_path(case["kernel"]):
                    raise common.HarnessError("model dispatch %s differs from the statement %s" % (model_path, expected_path(case["kernel"])))
            elif op == "uniform":
                ok = (not isinstance(code, str)) and (not isinstance(ans, str)) and len(code) == len(ans) and all(
                    len(rc) == len(ra) and all(Fraction(x) == y for x, y in zip(rc, ra)) for rc, ra in zip(code, ans))
                ctx.count("exact_uniform_cases")
                if not ok:
                    bad.append((op, "uniform image differs from the exact rational model", li))
            else:
                tol = TOL_ASM if op == "assemble" else TOL_FAST
                if not img_close(code, ans, tol, sc):
                    bad.append((op, "image differs from the model (%s, tol %g*%g)" % (op, tol, sc), li))
        pi += 1
        # [T] the property itself on the real code, by masses computed independently of persim — only for cases INSIDE the
        # quantifier (a diagram, a covariance matrix); the others are compared with the model above and nothing more
        if st == "ok" and len(case["dgm"]) > 0 and oq is None:
            a = np.asarray(v)
            okshape = a.shape == (len(bpn) - 1, len(ppn) - 1) == tuple(res)
            ctx.test("axes_birth_x_persistence", okshape)
            fail = None if okshape else "shape %s" % (a.shape,)
            if okshape and mass_closed(case["kernel"], [0.0, 0.0], 0.0, 1.0, 0.0, 1.0) is not None:
                fail = property_fails(case, v, bpn, ppn, res)
                ctx.test("mass_closed_form_all_pixels", fail is None)
            elif okshape and pix_budget > 0:
                # correlated Gaussian: 1-D quadrature of the marginalised density on a few pixels: two random ones and the
                # pixel nearest to a random point of the diagram (where the mass is)
                mu = r.choice(_bp)
                near = (min(range(res[0]), key=lambda t: abs(0.5 * (bpn[t] + bpn[t + 1]) - mu[0])),
                        min(range(res[1]), key=lambda t: abs(0.5 * (ppn[t] + ppn[t + 1]) - mu[1])))
                for (i, j) in [(r.randrange(res[0]), r.randrange(res[1])), (r.randrange(res[0]), r.randrange(res[1])), near]:
                    s = spec_pixel(case, bpn, ppn, i, j)
                    ok = within(a[i, j], s, TOL_MASS, sc)
                    ctx.test("mass_quad1d_correlated", ok)
                    pix_budget -= 1
                    if not ok:
                        fail = "pixel [birth %d][persistence %d] = %r but sum_k w_k*mass_k = %r (|r|=%.3f)" % (i, j, float(a[i, j]), s, abs(corr_of(case["kernel"])))
            if fail is not None:
                ctx.violation("pixel is not the weighted kernel mass: " + fail, {"op": "transform", **case}, found_input=True, law="mass")
                bad = []
        # a broken correspondence is not by itself a violation: look for a pixel where the PROPERTY fails on this input; if
        # there is none, keep the disagreement and go on searching on the remaining cases (reported at the end, at most 2)
        for (op, what, li) in bad:
            if oq is not None:
                # the disagreeing input is OUTSIDE the quantifier: what the code does with it is not fixed by the property, so
                # it is never judged by the mass oracle.  Judge the same configuration restricted to the quantifier instead.
                pc = project_inside(case)
                slow = mass_closed(case["kernel"], [0.0, 0.0], 0.0, 1.0, 0.0, 1.0) is None
                key = "slow" if slow else "fast"
                fail = None
                if projection_budget[key] > 0:
                    projection_budget[key] -= 1
                    ctx.count("outside_quantifier_disagreement_rejudged_on_projection")
                    fail = judge_inside(pc)
                if fail is not None:
                    ctx.violation("%s on an input outside the quantifier (%s); on the same case restricted to the quantifier: %s"
                                  % (what, oq, fail), {"op": "transform", **pc}, found_input=True, correspondence="img." + op, law="mass")
                else:
                    ctx.count("correspondence_disagreements_outside_quantifier")
                    if len([d for d in deferred if d[3]]) < 2:
                        deferred.append((what + "; the input is outside the property's quantifier (%s) and the property holds on the same case "
                                         "restricted to the quantifier" % oq,
                                         {"correspondence": "img." + op, "line": lines[li][:1500], "code": code, "model": answers[li],
                                          "outside_quantifier": oq, **case}, op, True))
                break
            focus = maxdiff_pixel(code, answers[li]) if op != "dispatch" and not isinstance(code, str) else None
            slow = mass_closed(case["kernel"], [0.0, 0.0], 0.0, 1.0, 0.0, 1.0) is None
            if slow and slow_search_budget <= 0 and not isinstance(code, str):
                fail = None
            else:
                slow_search_budget -= 1 if slow else 0
                fail = property_fails(case, code, bpn, ppn, res, focus=focus)
            if fail is not None:
                ctx.violation("%s; %s" % (what, fail), {"op": "transform", **case}, found_input=True, correspondence="img." + op)
            else:
                ctx.count("correspondence_disagreements_without_failing_pixel")
                if len([d for d in deferred if not d[3]]) < 2:
                    deferred.append((what + "; the independent mass oracle agrees with the code on this input",
                                     {"correspondence": "img." + op, "line": lines[li][:1500], "code": code, "model": answers[li], **case}, op, False))
            break
        if len(ctx.violations) > 5:
            return
    density_stream(ctx)
    fit_transform_stream(ctx)
    for what, rec, op, _ in deferred:
        ctx.violation(what, rec, found_input=False, correspondence="img." + op)


def anchored_only(cov):
    """line coverage of the anchored functions only (statements hit / missed while `cov` was active)"""
    import ast, os
    out = {}
    for rel, names in (("persim/images.py", {"_transform", "transform", "_ensure_iterable"}),
                       ("persim/images_weights.py", {"linear_ramp", "persistence"})):
        path = os.path.join(common.REPO, rel)
        tree = ast.parse(open(path).read())
        body = set()
        for top in tree.body:
            if isinstance(top, ast.ClassDef) and top.name == "PersImage":
                continue
            for node in ast.walk(top):
                if isinstance(node, ast.FunctionDef) and node.name in names:
                    for st in ast.walk(node):
                        if isinstance(st, ast.stmt) and st is not node and not (isinstance(st, ast.Expr) and isinstance(st.value, ast.Constant)):
                            body.add(st.lineno)
        hit = cov.hit.get(path, set()) & body
        out[rel] = {"statements": len(body), "hit": len(hit), "missed_lines": sorted(body - hit)}
    return out


def density_stream(ctx):
    """[T] integrate the kernel DENSITY numerically over random pixels (scipy dblquad) and compare with the pixel (1e-6)"""
    r = ctx.rng
    target = ctx.n(30, 120)
    done = 0
    guard = 0
    while done < target and guard < 40 * target:
        guard += 1
        kind = r.choice(["scalar", "diag_ne", "corr", "corr", "corr_eq", "user_logistic", "uniform"])
        case = gen_case(ctx, kind=kind)
        if not case["dgm"] or abs(corr_of(case["kernel"])) > 0.9:
            continue
        case["dgm"] = case["dgm"][:3]
        if outside_quantifier(case) is not None:       # not a diagram / not a covariance matrix: nothing to integrate against
            continue
        st, v, path, bpn, ppn, res = run_real(case)
        if st != "ok":
            continue
        a = np.asarray(v)
        i, j = r.randrange(res[0]), r.randrange(res[1])
        sc = wscale(case)
        s2 = spec_pixel(case, bpn, ppn, i, j, how="dblquad")
        s1 = spec_pixel(case, bpn, ppn, i, j)
        ok2 = within(a[i, j], s2, TOL_MASS, sc)
        ok1 = within(a[i, j], s1, TOL_MASS, sc)
        done += 1
        ctx.count("density_pixels:" + kind)
        if not ok2 and ok1:
            ctx.count("dblquad_inaccurate_but_1d_oracle_agrees")      # quadrature trouble, not the code
            continue
        ctx.test("density_dblquad", ok2)
        if not ok2:
            ctx.violation("pixel [birth %d][persistence %d] = %r but the integral of the kernel density over it, weighted, is %r (dblquad) / %r (1-D)"
                          % (i, j, float(a[i, j]), s2, s1), {"op": "transform", **case}, found_input=True, law="density")
            if len(ctx.violations) > 5:
                return


def fit_transform_stream(ctx):
    """[T] the property when the image comes from `fit_transform(diagram, skew=...)` (ranges fitted to the diagram, then the same
    transform): every pixel of the fitted grid against the closed-form mass, (b,d) and (b,p) call styles.  What `fit` chooses as
    ranges is C12/C18's; here the mesh is read from the imager after the call, and a call that raises is only counted."""
    r = ctx.rng
    target, done, guard = ctx.n(60, 400), 0, 0
    while done < target and guard < 20 * target:
        guard += 1
        case = gen_case(ctx, kind=r.choice(["scalar", "diag_ne", "diag_eq", "uniform", "user_logistic"]))
        if len(case["dgm"]) < 2 or outside_quantifier(case) is not None:
            continue
        bp = to_bp(case)
        ext = [(max(q[t] for q in bp) - min(q[t] for q in bp)) / case["pixel_size"] + 1 for t in (0, 1)]
        if ext[0] * ext[1] > 2500:                  # a far point makes the fitted grid huge: keep the closed-form sweep affordable
            case["dgm"] = [row for row, q in zip(case["dgm"], bp) if abs(q[0] - bp[0][0]) < 20 * case["pixel_size"]
                           and abs(q[1] - bp[0][1]) < 20 * case["pixel_size"]]
            if len(case["dgm"]) < 2:
                continue
        case["via"], case["decoy"] = "fit_transform", False
        st, v, path, bpn, ppn, res = run_real(case)
        if st != "ok":
            ctx.count("fit_transform_raised:" + str(v))
            continue
        if len(bpn) < 2 or len(ppn) < 2 or not all(math.isfinite(x) for x in bpn + ppn):
            ctx.count("fit_transform_degenerate_grid")
            continue
        done += 1
        ctx.count("fit_transform_cases:skew=%s" % case["skew"])
        fail = property_fails(case, common.tolist(v), bpn, ppn, res)
        ctx.test("mass_closed_form_via_fit_transform", fail is None)
        if fail is not None:
            ctx.violation("fit_transform(diagram, skew=%s): pixel is not the weighted kernel mass: %s" % (case["skew"], fail),
                          {"op": "fit_transform", **case}, found_input=True, law="mass")
            return


def corpus_cases():
    base = {"birth_range": [0.0, 1.0], "pers_range": [0.0, 0.5], "pixel_size": 0.25, "rx_hint": 4, "ry_hint": 2, "skew": True,
            "dyadic": False}
    W1 = {"kind": "persistence", "n": 1.0, "as": "str"}
    out = []
    # default sigma of the constructor (list of lists, identity) -> fast path
    out.append({**base, "kind": "diag_eq", "kernel": {"kind": "gaussian", "S": [[1.0, 0.0], [0.0, 1.0]], "repr": "list", "as": "str"},
                "weight": W1, "dgm": [[0.25, 0.5], [0.5, 1.0]]})
    # equal variances, non-zero covariance: must NOT take the fast path
    out.append({**base, "kind": "corr_eq", "kernel": {"kind": "gaussian", "S": [[0.04, 0.03], [0.03, 0.04]], "repr": "array", "as": "str"},
                "weight": W1, "dgm": [[0.25, 0.5], [0.5, 1.0]]})
    # a point exactly on a mesh corner, a far point, a diagonal point
    out.append({**base, "kind": "scalar", "kernel": {"kind": "gaussian", "s": 0.01, "repr": "float", "as": "callable"},
                "weight": {"kind": "linear_ramp", "low": 0.0, "high": 1.0, "start": 0.0, "end": 0.25, "as": "str"},
                "dgm": [[0.25, 0.5], [40.0, 90.0], [0.3, 0.3]]})
    # empty diagram
    out.append({**base, "kind": "uniform", "kernel": {"kind": "uniform", "width": 0.5, "height": 0.25, "as": "str"}, "weight": W1, "dgm": []})
    # unequal variances, sigma as tuple
    out.append({**base, "kind": "diag_ne", "kernel": {"kind": "gaussian", "S": [[0.04, 0.0], [0.0, 0.01]], "repr": "tuple", "as": "str"},
                "weight": {"kind": "persistence", "n": 2.0, "as": "callable"}, "dgm": [[0.1, 0.45], [0.9, 1.0]], "skew": True})
    return out


def replay(ctx, rep):
    c = rep["case"]
    if "dgm" not in c or "kernel" not in c:
        print("correspondence replay: re-run `./check.py C04` with VERIF_SEED=%s" % rep.get("seed"))
        return True
    oq = outside_quantifier(c)
    if oq is not None:
        print("the recorded input is outside the property's quantifier (%s): the property says nothing about it; evaluating the same "
              "configuration restricted to the quantifier" % oq)
        c = project_inside(c)
    st, v, path, bpn, ppn, res = run_real(c)
    print("code:", st, (np.asarray(v).tolist() if st == "ok" else v), "path:", path)
    fail = property_fails(c, ("err:" + v) if st != "ok" else v, bpn, ppn, res, budget=200)
    print("independent oracle:", fail or "every checked pixel equals sum_k w_k * mass_k within 1e-6 * sum_k |w_k|")
    return fail is None


MANIFEST = {
    "text": "Proof (20 theorems, of which 11 core), for the correlated Gaussian modulo bvn_cdf being the bivariate normal CDF (C13's partial "
            "part): Lean theorems about the model of _transform over any ordered field / the reals, for every mesh, diagram, weight function "
            "and kernel function: pixel[i][j] (i = birth, j = persistence) = sum_k w_k*(F_k(b_i+1,p_j+1) - F_k(b_i,p_j+1) - F_k(b_i+1,p_j) + "
            "F_k(b_i,p_j)); for a finite measure with CDF F that corner combination is the mass of the half-open pixel rectangle (Mathlib "
            "measure theory), so a pixel is sum_k w_k mu_k(pixel). Composed with C13 for the built-in kernels that C13 proves to be CDFs, with "
            "NO kernel hypothesis left: Gaussian with zero covariance, on the isotropic fast path and on the general path, pixel = sum_k w_k * "
            "(N(b_k,v_b) x N(p_k,v_p))(pixel); uniform kernel, pixel = sum_k w_k * area(pixel & box_k)/(W*H). The isotropic fast path equals "
            "the general path for the product-of-normals kernel standardised by the square root of the variance; the fast path is taken iff "
            "the kernel is the Gaussian with scalar or isotropic sigma; (b,d) -> (b,d-b); weights persistence p^n and the three branches of "
            "linear_ramp (middle branch under start != end). The model is tied to the code on every run: full image matrices on non-square "
            "grids against the model fed with the real kernel's corner values (1e-12 x total weight), the model's own fast / zero-covariance "
            "/ uniform paths at Float (1e-9 x total weight), exact rational equality for the uniform kernel on dyadic inputs, and the "
            "dispatch decision against call counters. Inputs outside the quantifier (points below the diagonal, asymmetric sigma) are "
            "compared with the model only: what the code does there is not fixed by the property, a disagreement is reported as a "
            "correspondence break and the same configuration restricted to the quantifier is judged by the mass oracle instead.",
    "note": "Trusted: Lean kernel + Mathlib (axioms propext/Classical.choice/Quot.sound); the correspondence harness; NumPy slicing/broadcast "
            "semantics as modelled; mesh and resolution taken from the imager (C12; composed in C12.reachable_image_shape). NOT proved: that "
            "bvn_cdf is the bivariate normal CDF (C13) - for the correlated Gaussian and for user kernels pixel_is_kernel_mass keeps the "
            "hypothesis hcdf; that scipy's erfc-based norm_cdf is the standard normal CDF (C13's contract). [T] streams compare pixels of "
            "the real code with masses computed independently of persim (closed forms on all pixels, 1-D quadrature of the marginalised "
            "density for correlated Gaussians (|r| up to 0.999) on 3 pixels - 2 random, 1 nearest a point - per image up to 750 / 7500 pixels, "
            "scipy dblquad of the density on 30 / 120 random pixels with |r| <= 0.9, 60 / 400 images obtained through fit_transform (closed forms, "
            "all pixels of the fitted grid), quick / thorough; grids up to 64x64 / 128x2 pixels with the "
            "closed-form kernels) to 1e-6 RELATIVE to the total absolute weight of the diagram (no floor at 1: tiny weights are not "
            "accepted vacuously). Float rounding is outside the theorems.",
    "technique": "Lean 4 theorems (incl. Mathlib measure theory) over a hand-written model + differential correspondence + numerical integration tests",
}
MANIFEST["note"] += " " + py2lean.manifest_note("weights") + " " + py2lean.manifest_note("image")
