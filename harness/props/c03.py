"""C03 — the exact landscape equals the k-th-largest-tent definition at every t and every depth.

Theorems: lean/PersimVerif/Props/C03.lean.  `certify_sound` says: if the executable checker
`certify bars cps` (lean/PersimVerif/Model/Landscape.lean) answers true then the piecewise-linear
functions given by `cps` equal the mathematical landscape of `bars` for ALL real t and ALL depths k.

Tie to the real code (translation validation): for every generated diagram the real
`PersLandscapeExact(dgms=…, hom_deg=…).critical_pairs` — the code's OWN output, as the exact rationals
of its floats — is sent to the compiled checker, so "equal for all t and k" is a theorem instance per
diagram; diagrams are sampled.  The same run compares the output with the line-by-line model of
`compute_landscape` (exactly on dyadic input).

Known finding: the repeated-bar shortcut (`duplicate` counting + `L.append(L[-1])`).  It is recognised BY CONTENT: a
wrong result is attributed to it (counted, one KNOWN-FINDING line) only when the code's functions are exactly what the Lean
model of the current sweep - shortcut included - returns on that diagram (and the model's shortcut fired; without a firing
the model is proved correct).  Any other wrong result is a VIOLATION with the diagram as failing input, whether or not the
guarded trace `_VERIF_TRACE` says the shortcut fired somewhere in the call; the trace count is only compared with the
model's as part of the correspondence.

Well-formedness is what the statement says: critical points ordered by abscissa, function zero outside them.  A repeated
point [x,y],[x,y] and a depth without points (the zero function) are allowed; before the output goes to the Lean checker
(whose `wellFormed` wants strictly increasing abscissae) this free part of the representation is removed (`normalise`).
"""
import contextlib
import io
import math
import signal
from fractions import Fraction

import numpy as np

from .. import common
from ..common import enc, ask, call
from .. import corethm
from ..translator import py2lean

# the pins of `PersLandscapeExact.__init__` (conversion of the selected diagram to float, signature, bindings) live in the
# generated file of the landscape arithmetic; building it under C03 makes C03 report an edit of that constructor
# Generated/SrcSweep.lean (with its bridge files) is `compute_landscape` itself, translated statement by statement and proved equal
# to the model `Landscape.sweep` that the theorems of Props/C03.lean are about (`src_compute_landscape_eq_model`)
PROP_FILES = ["PersimVerif/Props/C03.lean", py2lean.prop_file("plarith")] + py2lean.prop_files("sweep")


def pre_build(ctx):
    """source translator (DESIGN.md 3.2): regenerate Generated/SrcPLArith.lean (holds the constructor pins) and
    Generated/SrcSweep.lean (the sweep) from PERSIM_ROOT"""
    py2lean.pre_build(ctx, ("plarith", "sweep"))


LEVEL = "translation_validation"
RULE = ("diagrams from one PRNG: 0-9 bars (quick) / 0-40 (thorough), plus a stream of 60-300 bars (thorough: up to 600) on a "
        "half-integer lattice (half of them with pairwise distinct births), built by class "
        "(nested, touching, equal-birth, equal-death, duplicate, disjoint, mixed: each derived bar copies an end of "
        "an earlier bar), coordinates lattice/half/dyadic (scales 2^-20..2^20; float arithmetic exact, certified with "
        "eps=0) or decimal/uniform (certified with eps=1e-9*largest |coordinate|, no floor; 15% rescaled by 2^-20, 2^20, 1e-6, "
        "1e6, 3e-4 or 7e3), random input order, 1-3 diagrams with hom_deg "
        "selecting one, trailing infinite bar with prob 0.3; 15 of 18 landscapes computed on construction, the others built with "
        "compute=False and computed by compute_landscape() / compute_landscape(verbose=True) / after a compute_landscape_by_depth(k) "
        "query whose own outcome is not judged; non-trivial = at least 2 bars; distinct by digest of "
        "(hom_deg, diagrams)")
ASSUMPTIONS = [
    "np.interp of the critical pairs is the linear interpolation evalPL (base of the property's 'interpolated linearly')",
    "on lattice/half/dyadic input the code's (b+d)/2, (d-b)/2 are exact, so its output is certified with eps = 0; on "
    "decimal/uniform input the output is certified within eps = 1e-9*max|coordinate| (rounding of midpoints; relative to the "
    "diagram's own scale, no absolute floor)",
    "beyond 120 bars the Lean checker (cubic) is replaced by a numpy evaluation of the definition at every cut point and cell "
    "midpoint (exact on the half-integer lattice of that stream; cross-checked against the checker up to 120 bars and on every "
    "tenth small case)",
    "NaN coordinates and zero-length bars are outside the property's domain and are not generated",
    "an infinite death anywhere but in the last row is outside the property's domain ('finite diagrams'; only a trailing infinite "
    "bar is removed): the code then computes with inf and returns non-finite critical pairs, the model answers NonFinite; a "
    "separate stream generates such diagrams and checks that code and model agree that the input is outside (nothing else is claimed)",
    "integer-dtype diagrams (int64/int32/int16/int8/uint8 arrays, every coordinate representable in the dtype) are an ordinary "
    "part of the main stream and are compared exactly with the dtype-free model, including the range where b+d exceeds the dtype "
    "(there the midpoint (b+d)/2 wrapped around before /repo fix 56d4899: int8 [[100,120],[90,110]] gave the abscissa -28)",
]
TRUSTED = ["the guarded trace persim.landscapes.exact._VERIF_TRACE is compared with the model's firing count as correspondence only; it "
           "attributes nothing (the known finding is recognised by the output being the model's)",
           "the compiled driver executable is trusted as compiled by Lean's compiler, not checked by the kernel",
           py2lean.trusted_note("sweep")]
# theorems that carry a clause of the property (helper lemmas, concrete instances such as the shortcut counterexample, and
# model glue about rejected / out-of-domain inputs are excluded)
CORE_THEOREMS = ["certifyTol_sound", "certify_sound", "certify_beyond_last", "certify_ordered_vanishing", "hom_deg_selects",
                 "hom_deg_ignores_others", "trailing_inf_removed", "trailing_inf_same_landscape", "exact_never_fuel",
                 "sweepNoShortcut_correct", "sweep_correct_of_not_fired", "exact_correct_of_not_fired",
                 "sweep_fired_zero_of_distinct_births", "sweep_correct_of_distinct_births", "exact_correct_of_distinct_births",
                 "sweep_fired_zero_of_distinct_deaths", "sweep_correct_of_distinct_deaths", "exact_correct_of_distinct_deaths"]
# integer dtypes: (smallest, largest representable value, scale factors k applied to the lattice coordinates 0..6 — the larger
# ones make b+d exceed the dtype, where the midpoint wrapped around before /repo fix 56d4899)
INT_DTYPES = {"int64": (-2 ** 63, 2 ** 63 - 1, [1, 10, 2 ** 40, 2 ** 60]), "int32": (-2 ** 31, 2 ** 31 - 1, [1, 10, 2 ** 20, 2 ** 28]),
              "int16": (-2 ** 15, 2 ** 15 - 1, [1, 10, 1000, 5000]), "int8": (-128, 127, [1, 3, 10, 20]),
              "uint8": (0, 255, [1, 10, 20, 40])}
KNOWN_KEY = "repeated-bar-shortcut"
KNOWN_CASE = [[1.0, 5.0], [1.0, 5.0], [3.0, 6.0]]
EXACT_MODES = ("lattice", "half", "dyadic")
CLASSES = ("nested", "touching", "equal_birth", "equal_death", "duplicate", "disjoint", "mixed")


# ----------------------------------------------------------------------------- the definition (independent oracle)

def F(x):
    return Fraction(x)


def tent(b, d, t):
    return max(Fraction(0), min(t - b, d - t))


def lam(bars, k, t):
    """k-th largest tent value (k = 0 outermost), exact"""
    vs = sorted((tent(F(b), F(d), t) for b, d in bars), reverse=True)
    return vs[k] if k < len(vs) else Fraction(0)


def eval_pl(c, t):
    """linear interpolation of exact critical points, 0 outside"""
    if len(c) < 2 or t < c[0][0] or t > c[-1][0]:
        return Fraction(0)
    for (x0, y0), (x1, y1) in zip(c, c[1:]):
        if x0 <= t <= x1:
            return y0 + (y1 - y0) * (t - x0) / (x1 - x0) if x1 != x0 else y1
    return Fraction(0)


def malformed(c):
    """what the statement demands of one returned depth: critical points ORDERED BY ABSCISSA and a function that VANISHES
    OUTSIDE them.  A repeated point [x,y],[x,y] is ordered; a depth without points (or the single point [x,0]) is the zero
    function.  Two different ordinates at one abscissa are not a function, and a non-zero end value does not vanish outside
    (the landscape is continuous).  -> None or the reason"""
    if len(c) == 0 or (len(c) == 1 and c[0][1] == 0):
        return None
    if len(c) == 1:
        return "a single point with a non-zero ordinate"
    if c[0][1] != 0 or c[-1][1] != 0:
        return "non-zero end value: the function does not vanish outside its critical points"
    for p, q in zip(c, c[1:]):
        if p[0] > q[0]:
            return "abscissae not ordered"
        if p[0] == q[0] and p[1] != q[1]:
            return "two ordinates at one abscissa"
    return None


def normalise(cps, bars):
    """the same functions in the form the Lean checker's `wellFormed` wants (>= 2 points, strictly increasing abscissae):
    repeated points dropped, trailing zero depths dropped, a zero depth elsewhere written as two zero points.  Only
    representation the statement leaves free is removed; -> (cps', changed)"""
    out, changed = [], False
    for depth in cps:
        d = []
        for p in depth:
            if d and d[-1][0] == p[0] and d[-1][1] == p[1]:
                changed = True
                continue
            d.append([p[0], p[1]])
        if len(d) == 0 or (len(d) == 1 and d[0][1] == 0):
            changed = True
            d = None
        out.append(d)
    while out and out[-1] is None:
        out.pop()
    xs = [x for b in bars for x in b] + [p[0] for d in out if d for p in d]
    lo, hi = (min(xs), max(xs)) if xs else (0.0, 1.0)
    if not lo < hi:
        hi = lo + 1.0
    return [d if d is not None else [[lo, 0.0], [hi, 0.0]] for d in out], changed


def np_check(bars, cps, tol):
    """the statement for one diagram in float arithmetic (numpy), for sizes the Fraction oracle cannot reach: both sides are
    piecewise linear with breakpoints among the cut points (all b, d, (b_i+d_j)/2 and the code's abscissae), so comparing at
    every cut point, every cell midpoint and one point on either side decides equality everywhere, here up to `tol` (float).
    Independent of the checker and of the model.  -> None or a description"""
    for k, c in enumerate(cps):
        why = malformed([(float(x), float(y)) for x, y in c])
        if why:
            return "depth index %d is not well formed (%s): %s" % (k, why, [list(map(float, p)) for p in c][:12])
    B = np.array(bars, dtype=float).reshape(-1, 2)
    ev = [B[:, 0], B[:, 1], ((B[:, 0][:, None] + B[:, 1][None, :]) / 2).ravel()] + [np.array([p[0] for p in c], dtype=float) for c in cps]
    ev = np.unique(np.concatenate(ev)) if ev else np.zeros(0)
    if ev.size == 0:
        return None
    span = max(float(ev[-1] - ev[0]), abs(float(ev[0])), abs(float(ev[-1]))) or 1.0
    pts = np.unique(np.concatenate([[ev[0] - span], ev, (ev[:-1] + ev[1:]) / 2, [ev[-1] + span]]))
    K = max(len(B), len(cps)) + 1
    for a in range(0, len(pts), 2048):
        t = pts[a:a + 2048]
        T = np.maximum(0.0, np.minimum(t[None, :] - B[:, 0:1], B[:, 1:2] - t[None, :])) if len(B) else np.zeros((0, len(t)))
        T = -np.sort(-T, axis=0)
        T = np.vstack([T, np.zeros((K - len(T), len(t)))])
        C = np.zeros((K, len(t)))
        for k, c in enumerate(cps):
            if len(c) >= 2:
                C[k] = np.interp(t, [p[0] for p in c], [p[1] for p in c], left=0.0, right=0.0)
        bad = np.argwhere(~(np.abs(C - T) <= tol))
        if len(bad):
            k, j = bad[0]
            return "depth index %d at t=%r: code %r, definition %r" % (k, float(t[j]), float(C[k, j]), float(T[k, j]))
    return None


def py_check(bars, cps, tol):
    """independent Python check of the whole statement for one diagram: both sides are piecewise linear with
    breakpoints among the cut points, so comparing at every cut point, every cell midpoint and one point on either
    side decides equality everywhere.  Returns None or (k, t, code, definition) / a string for a malformed depth."""
    fb = [(F(b), F(d)) for b, d in bars]
    fc = [[(F(x), F(y)) for x, y in c] for c in cps]
    for k, c in enumerate(fc):
        why = malformed(c)
        if why:
            return ("depth index %d is not well formed (%s): %s" % (k, why, [[float(x), float(y)] for x, y in c][:12]))
    ev = set()
    for b, d in fb:
        ev.update((b, d, (b + d) / 2))
        for _, d2 in fb:
            ev.add((b + d2) / 2)
    for c in fc:
        ev.update(p[0] for p in c)
    ev = sorted(ev)
    if not ev:
        return None
    pts = [ev[0] - 1] + ev + [(a + b) / 2 for a, b in zip(ev, ev[1:])] + [ev[-1] + 1]
    K = max(len(fb), len(fc)) + 1
    for t in sorted(pts):
        vs = sorted((tent(b, d, t) for b, d in fb), reverse=True)
        for k in range(K):
            want = vs[k] if k < len(vs) else Fraction(0)
            got = eval_pl(fc[k], t) if k < len(fc) else Fraction(0)
            if abs(want - got) > tol:
                return (k, t, got, want)
    return None


# ----------------------------------------------------------------------------- generators

def _coord_above(g, mode, lo, tries=12):
    for _ in range(tries):
        x = g.coord(mode)
        if x > lo:
            return x
    return lo + (1.0 if mode in EXACT_MODES else 0.7)


def _coord_below(g, mode, hi, tries=12):
    for _ in range(tries):
        x = g.coord(mode)
        if x < hi:
            return x
    return hi - (1.0 if mode in EXACT_MODES else 0.7)


def gen_bars(ctx, n, mode, cls):
    g, r = ctx.gen, ctx.rng
    bars = []
    for _ in range(n):
        kind = cls if cls != "mixed" else r.choice(CLASSES[:-1])
        if bars and r.random() < 0.65:
            b, d = r.choice(bars)
            if kind == "nested":
                nb = _coord_above(g, mode, b)
                nd = _coord_below(g, mode, d)
                new = [nb, nd] if b < nb < nd < d else ([_coord_below(g, mode, b), _coord_above(g, mode, d)])
            elif kind == "touching":
                new = [d, _coord_above(g, mode, d)] if r.random() < 0.5 else [_coord_below(g, mode, b), b]
            elif kind == "equal_birth":
                new = [b, _coord_above(g, mode, b)]
            elif kind == "equal_death":
                new = [_coord_below(g, mode, d), d]
            elif kind == "duplicate":
                new = [b, d]
            else:  # disjoint: to the right of everything so far
                top = max(x[1] for x in bars)
                nb = _coord_above(g, mode, top) if r.random() < 0.7 else top + 1.0
                new = [nb, _coord_above(g, mode, nb)]
        else:
            new = g.bar(mode, allow_diag=False)
        if not (new[0] < new[1]) or not all(map(math.isfinite, new)):
            new = g.bar(mode, allow_diag=False)
        bars.append([float(new[0]), float(new[1])])
    r.shuffle(bars)
    return bars


def classify(bars):
    """which interaction classes a diagram contains"""
    out = set()
    n = len(bars)
    for i in range(n):
        bi, di = bars[i]
        for j in range(n):
            if i == j:
                continue
            bj, dj = bars[j]
            if bi < bj and dj < di:
                out.add("nested")
            if di == bj:
                out.add("touching")
            if bi == bj and di != dj:
                out.add("equal_birth")
            if di == dj and bi != bj:
                out.add("equal_death")
            if bi == bj and di == dj:
                out.add("duplicate")
            if di < bj:
                out.add("disjoint")
            if bi < bj < di < dj:
                out.add("overlapping")
    return out


def gen_case(ctx, nmax):
    g, r = ctx.gen, ctx.rng
    mode = r.choice(["lattice", "lattice", "half", "dyadic", "dyadic", "dec", "unif"])
    cls = r.choice(CLASSES)
    # sizes: every small size often, the large ones regularly
    n = r.randint(0, min(nmax, 9)) if r.random() < 0.7 else r.randint(0, nmax)
    bars = gen_bars(ctx, n, mode, cls)
    if r.random() < 0.15:
        # a common scale: 2^±20 (exact in floats) on the exact modes; on decimal/uniform coordinates also scales that are
        # not powers of two (new roundings).  Tolerances are relative to the coordinates, so small scales are not vacuous
        s = 2.0 ** r.choice([-20, 20]) if mode in EXACT_MODES else r.choice([2.0 ** -20, 2.0 ** 20, 1e-6, 1e6, 3e-4, 7e3])
        scaled = [[b * s, d * s] for b, d in bars]
        if all(b < d for b, d in scaled):
            bars = scaled
    ndg = r.randint(1, 3)
    h = r.randrange(ndg)
    dgms = []
    for i in range(ndg):
        if i == h:
            D = [list(x) for x in bars]
            if not D or r.random() < 0.3:
                D.append([g.coord(mode), math.inf])           # trailing infinite bar (ripser's H0 convention)
        else:
            D = gen_bars(ctx, r.randint(1, 4), mode, "mixed")
            if r.random() < 0.3:
                D.append([g.coord(mode), math.inf])
        dgms.append(D)
    c = {"dgms": dgms, "hom_deg": h, "mode": mode, "class": cls}
    if mode == "lattice" and r.random() < 0.5 and all(float(x).is_integer() for D in dgms for b in D for x in b if math.isfinite(x)):
        # an integer-dtype diagram: no infinite bar (not representable), coordinates k*(0..6)
        dt = r.choice(sorted(INT_DTYPES))
        lo_dt, hi_dt, ks = INT_DTYPES[dt]
        k = float(r.choice(ks + ks[2:] + ks[3:]))
        D2 = [[[b[0] * k, b[1] * k] for b in D if math.isfinite(b[1])] for D in dgms]
        vals = [x for D in D2 for b in D for x in b]
        if all(D2) and lo_dt <= min(vals) and max(vals) <= hi_dt:      # every coordinate is representable in the dtype
            c["dgms"], c["dtype"] = D2, dt
            c["wraps"] = any(b[0] + b[1] > hi_dt or b[0] + b[1] < lo_dt for b in D2[h])
    return c


def gen_inf_not_last(ctx):
    """a diagram with an infinite death in a row that is not the last one (possibly one in the last row too)"""
    g, r = ctx.gen, ctx.rng
    mode = r.choice(["lattice", "half", "dyadic", "dec"])
    D = gen_bars(ctx, r.randint(1, 6), mode, "mixed")
    for _ in range(r.randint(1, 2)):
        D.insert(r.randrange(len(D)), [g.coord(mode), math.inf])
    if r.random() < 0.3:
        D.append([g.coord(mode), math.inf])
    return {"dgms": [D], "hom_deg": 0, "mode": mode, "class": "inf_not_last"}


def selected_bars(case):
    """what the statement says: the diagram of the requested degree, without its trailing infinite bar"""
    D = case["dgms"][case["hom_deg"]]
    if D and D[-1][1] == math.inf:
        D = D[:-1]
    return [list(x) for x in D]


# ----------------------------------------------------------------------------- the real code

def arr(D, dtype=float):
    return np.array(D, dtype=float).astype(dtype).reshape(-1, 2)


class Hang(BaseException):
    """the constructor did not return within HANG_S seconds (not an Exception: `common.call` must not swallow it)"""


HANG_S = 5.0


def _alarm(signum, frame):
    raise Hang()


def route_of(idx):
    """how the landscape of the idx-th case of the main stream is obtained (a fixed schedule, no random draw): on construction
    (15 of 18), or from an object built with compute=False by one of the public calls that compute it -
    `compute_landscape()`, `compute_landscape(verbose=True)` (progress messages on stdout, discarded), or a query
    `compute_landscape_by_depth(k)` followed by `compute_landscape()`.  `critical_pairs` is read afterwards in every case: it is
    the same landscape whichever public call computed it, and whatever was asked of the object before.
    -> (route, k)"""
    return {4: ("lazy_verbose", 0), 10: ("lazy", 0), 7: ("lazy_by_depth", 0), 16: ("lazy_by_depth", 1)}.get(idx % 18, ("eager", 0))


def _build(mod, dgms, hom_deg, route, depth, trace):
    if route in (None, "eager"):
        return mod.PersLandscapeExact(dgms=dgms, hom_deg=hom_deg)
    P = mod.PersLandscapeExact(dgms=dgms, hom_deg=hom_deg, compute=False)
    with contextlib.redirect_stdout(io.StringIO()):
        if route == "lazy_verbose":
            P.compute_landscape(verbose=True)
            return P
        if route == "lazy_by_depth":
            # the answer of the query is NOT judged here (the present code computes the whole landscape and then raises
            # TypeError, because compute_landscape returns None; a depth beyond the last one has no function to return):
            # whether it answers or raises, the object must afterwards still represent the landscape of its diagram
            try:
                P.compute_landscape_by_depth(depth)
            except Exception:
                pass
            if not P.critical_pairs:
                del trace[:]                      # nothing stored: the next call runs the sweep (again); count that one
        P.compute_landscape()
    return P


def run_code(dgms, hom_deg, dtype=float, route="eager", depth=0):
    """-> (status, critical pairs as lists of [x,y] floats | error kind, number of shortcut firings);
    status 'hang' when the sweep does not terminate (a rewritten loop can spin forever while its list grows)"""
    mod = common.pm("landscapes.exact")
    trace = mod._VERIF_TRACE
    if trace is None:
        raise common.HarnessError("persim.landscapes.exact._VERIF_TRACE is None: the PERSIM_VERIF hook is off")
    del trace[:]
    old = signal.signal(signal.SIGALRM, _alarm)
    # the alarm REPEATS every quarter second after HANG_S: an exception raised by a signal handler is lost when it lands in a
    # place where Python ignores exceptions (the clean-up of the generator of `all(... for _ in A)`), and a one-shot alarm
    # lost there would let a non-terminating sweep grow its lists for ever
    signal.setitimer(signal.ITIMER_REAL, HANG_S, 0.25)
    hung = False
    try:
        try:
            try:
                with np.errstate(all="ignore"):
                    st, v, _ = call(_build, mod, [arr(D, dtype) for D in dgms], hom_deg, route, depth, trace)
            finally:
                signal.setitimer(signal.ITIMER_REAL, 0)
        except Hang:
            hung = True
    except Hang:                                  # a second alarm while the first was unwinding
        signal.setitimer(signal.ITIMER_REAL, 0)
        hung = True
    finally:
        signal.signal(signal.SIGALRM, old)
    if hung:
        del trace[:]
        return "hang", "no result within %.0f s" % HANG_S, 0
    fired = sum(1 for x in trace if x[0] == "repeated-bar-shortcut")
    del trace[:]
    if st == "err":
        return "err", v, fired
    cps = [[[float(p[0]), float(p[1])] for p in depth] for depth in v.critical_pairs]
    if not all(math.isfinite(x) for depth in cps for p in depth for x in p):
        return "nonfinite", "critical pairs contain inf/nan: %r" % (cps,), fired
    return "ok", cps, fired


def scale_of(bars):
    """the natural scale of a diagram: its largest |coordinate| (no floor: a diagram in units of 2^-20 is judged in those units)"""
    return max([0.0] + [abs(x) for b in bars for x in b if math.isfinite(x)])


def interp_code(cps, k, t):
    """the code's function of depth k at t, as the property reads it: np.interp of the critical pairs, 0 outside"""
    if k >= len(cps) or len(cps[k]) == 0:
        return 0.0
    xs = [p[0] for p in cps[k]]
    ys = [p[1] for p in cps[k]]
    return float(np.interp(float(t), xs, ys, left=0.0, right=0.0))


# ----------------------------------------------------------------------------- run

def confirm(bars, cps, wit, tol):
    """confirm a checker verdict `F` on the real code's output; -> description or None"""
    kind, k, t = int(wit[1]), int(wit[2]), Fraction(wit[3])
    if kind == 1:
        got = interp_code(cps, k, t)
        want = lam(bars, k, t)
        if abs(Fraction(got) - want) > tol:
            return "depth index %d at t=%s: np.interp of the code's critical pairs gives %r, the definition %s" % (k, t, got, want)
    res = py_check(bars, cps, tol)
    if res is None:
        return None
    if isinstance(res, str):
        return res
    return "depth index %d at t=%s: code %s, definition %s" % (res[0], res[1], res[2], res[3])


def run(ctx):
    py2lean.report_broken(ctx, PROP_FILES)
    r = ctx.rng
    kf = [t for kind, t in common.known_findings("C03") if kind == "known"]
    corethm.record(ctx, CORE_THEOREMS, ["PersimVerif/Props/C03.lean"])
    ctx.extra["source_digest"] = common.source_digest("persim/landscapes/exact.py", ["__init__", "compute_landscape"])

    # corpus first (accepted regressions and the documented examples)
    corpus = [
        {"dgms": [KNOWN_CASE], "hom_deg": 0, "mode": "lattice", "class": "corpus"},
        {"dgms": [[[0, 1], [3, 4], [1, 4], [0, 3], [2, 4], [2, 3]]], "hom_deg": 0, "mode": "lattice", "class": "corpus"},
        {"dgms": [[[1, 5], [2, 8], [3, 4], [5, 9], [6, 7]]], "hom_deg": 0, "mode": "lattice", "class": "corpus"},
        {"dgms": [[[0, 3], [1, 4]], [[1, 4]]], "hom_deg": 0, "mode": "lattice", "class": "corpus"},
        {"dgms": [[[0, 3], [1, 4]], [[1, 4]]], "hom_deg": 1, "mode": "lattice", "class": "corpus"},
        {"dgms": [[[0, math.inf]]], "hom_deg": 0, "mode": "lattice", "class": "corpus"},
        {"dgms": [[[1, 5], [1, 5], [1, 5], [1, 5]]], "hom_deg": 0, "mode": "lattice", "class": "corpus"},
        {"dgms": [[[0, 2], [2, 4], [4, 6]]], "hom_deg": 0, "mode": "lattice", "class": "corpus"},
        {"dgms": [[[0, 6], [0, 4], [2, 6], [1, 5]]], "hom_deg": 0, "mode": "lattice", "class": "corpus"},
        {"dgms": [[[0.5, 7], [3, 5], [4.1, 6.5]], [[1, 4]]], "hom_deg": 0, "mode": "dec", "class": "corpus"},
    ]
    for c in corpus:
        c["dgms"] = [[[float(x) for x in b] for b in D] for D in c["dgms"]]
    n = ctx.n(4000, 20000)
    nmax = ctx.n(9, 40)
    cases = corpus + [gen_case(ctx, nmax) for _ in range(n)]

    cov = common.LineCov(["persim/landscapes/exact.py"])
    rows, lines = [], []
    for i, c in enumerate(cases):
        c["route"], c["depth"] = route_of(i)
        ctx.count("route:" + c["route"])
        if i < 400:
            with cov:
                st, out, fired = run_code(c["dgms"], c["hom_deg"], c.get("dtype", float), c["route"], c["depth"])
        else:
            st, out, fired = run_code(c["dgms"], c["hom_deg"], c.get("dtype", float), c["route"], c["depth"])
        bars = selected_bars(c)
        exact_mode = c["mode"] in EXACT_MODES
        eps = 0.0 if exact_mode else 1e-9 * scale_of(bars)
        c["eps"] = eps
        rows.append((c, bars, st, out, fired, eps))
        # the checker sees the code's functions with the free part of the representation removed (repeated points, empty depths)
        norm, changed = normalise(out, bars) if st == "ok" else ([], False)
        if changed:
            ctx.count("output_with_repeated_points_or_empty_depths")
        lines.append("pl.exact %d %s" % (c["hom_deg"], enc(c["dgms"])))
        lines.append("pl.certify %s %s %s" % (enc(eps), enc(bars), enc(norm)))
        if st != "ok" and sum(1 for r_ in rows if r_[2] != "ok") >= 3:      # exceptions / hangs: three inputs are enough
            break
    answers = ask(lines)
    ctx.extra["anchored_line_coverage"] = cov.summary()

    # rounding edge: on non-dyadic input the code's rounded midpoints can coincide (abscissae equal in floats) or miss
    # eps; then the verdict is taken in two steps: the model's exact output is certified with eps = 0 and the code's
    # output must agree with the model's point by point within eps
    second = [i for i, (c, bars, st, out, fired, eps) in enumerate(rows)
              if eps > 0 and st == "ok" and isinstance(answers[2 * i + 1], list) and not answers[2 * i + 1][0]
              and isinstance(answers[2 * i], list) and same_cps(out, answers[2 * i][0], eps)]
    second_ans = dict(zip(second, ask(["pl.certify 0 %s %s" % (enc(rows[i][1]), enc(answers[2 * i][0])) for i in second])))

    programs = disagreements = fired_cases = fired_wrong = 0
    for i, (c, bars, st, out, fired, eps) in enumerate(rows):
        model, cert = answers[2 * i], answers[2 * i + 1]
        if i in second_ans and second_ans[i][0]:
            ctx.count("rounding_edge_certified_via_model")
            cert = [True]
        cls = classify(bars)
        rcase = {"dgms": c["dgms"], "hom_deg": c["hom_deg"], "dtype": c.get("dtype", "float64"), "eps": eps,
                 "route": c.get("route", "eager"), "depth": c.get("depth", 0)}
        ctx.case({"hom_deg": c["hom_deg"], "dgms": c["dgms"], "dtype": c.get("dtype", "float64")}, nontrivial=len(bars) >= 2, sample_every=401)
        ctx.count("dtype:" + c.get("dtype", "float64") + (":b+d_exceeds_dtype" if c.get("wraps") else ""))
        ctx.count("mode:" + c["mode"]); ctx.count("gen_class:" + c["class"]); ctx.count("bars:%d" % min(len(bars), 41))
        if scale_of(bars) > 0:
            ctx.count("scale:%s:2^%d" % ("exact" if eps == 0 else "decimal", 10 * round(math.log2(scale_of(bars)) / 10)))
        for k in cls:
            ctx.count("has:" + k)
        if len(c["dgms"]) > 1:
            ctx.count("several_diagrams")
        if c["dgms"][c["hom_deg"]][-1][1] == math.inf:
            ctx.count("trailing_inf")
        if st != "ok":
            # a well-formed diagram must yield a landscape: an exception or a non-terminating sweep fails the property
            ctx.count("no_result:" + st)
            ctx.violation("PersLandscapeExact gives no landscape for a well-formed diagram: %s %s" % (st, out), rcase, found_input=True)
            if len(ctx.violations) > 5:
                break
            continue
        programs += 1
        if fired:
            fired_cases += 1
        # (ii) the code's own output through the Lean-verified checker: for all t and all k
        if not (isinstance(cert, list) and cert and isinstance(cert[0], bool)):
            raise common.HarnessError("pl.certify answered %r" % (cert,))
        wrong = None
        if not cert[0]:
            disagreements += 1
            wrong = confirm(bars, out, cert, Fraction(eps))
            if wrong is None:
                raise common.HarnessError("checker said F %r but the Python oracle finds no difference: %r" % (cert, c))
        if i % 10 == 0 and cert[0] and eps == 0:
            # harness self-check of the float oracle used beyond 40 bars: it must not reject what the checker certified
            nw = np_check(bars, out, 1e-9 * scale_of(bars))
            if nw is not None:
                raise common.HarnessError("numpy oracle rejects an output the checker certified: %s on %r" % (nw, c))
        # (i) correspondence with the model of compute_landscape (shortcut included)
        # (the FUNCTIONS are compared for the attribution: repeated points / empty depths removed; the raw lists for the tie)
        # (on decimal input two exact abscissae of the model can round to ONE float: the code's list then carries a repeated
        # point which `normalise` removes on the code's side only, so the raw lists - equal point by point within eps - are
        # accepted as the same function too; a thorough run had reported that rounding edge as a broken correspondence)
        out_eq_model = isinstance(model, list) and len(model) == 2 and (
            same_cps(normalise(out, bars)[0], model[0], eps) or (eps > 0 and same_cps(out, model[0], eps)))
        model_fired = int(model[1]) if isinstance(model, list) and len(model) == 2 else 0
        mdl_ok = out_eq_model and same_cps(out, model[0], eps) and model_fired == fired
        if wrong is not None:
            # attribution BY CONTENT: the wrong output is the known finding only if it is exactly what the model of the current
            # code - the sweep WITH the repeated-bar shortcut - returns (then the model's shortcut fired: without a firing the
            # model is correct, `sweep_correct_of_not_fired`).  The trace alone attributes nothing: a wrong output that
            # differs from the model's is a different failure even when the shortcut fired somewhere in the call
            if out_eq_model and model_fired > 0:
                fired_wrong += 1
                ctx.count("wrong_and_equal_to_the_model_with_shortcut")
                ctx.known(KNOWN_KEY, known_text(kf))
            else:
                ctx.count("wrong_and_not_the_known_output")
                ctx.violation("exact landscape differs from the k-th-largest-tent definition and is NOT the output of the known "
                              "repeated-bar shortcut (trace: shortcut fired %d time(s); the model of the current code, shortcut "
                              "included, returns %s): %s" % (fired, "something else" if isinstance(model, list) else repr(model), wrong),
                              rcase, found_input=True, checker=repr(cert), code_output=out, model_output=repr(model)[:2000])
        if not mdl_ok:
            # correspondence broke (critical pairs, their representation, or the number of firings the trace reports).  The
            # property itself was judged above on this input
            if wrong is None:
                disagreements += 1
            ctx.count("model_mismatch")
            if ctx.counters["model_mismatch"] <= 1:
                ctx.extra["first_model_mismatch"] = {"case": c, "code": out, "code_fired": fired, "model": repr(model)[:2000]}
        if wrong is None and fired:
            ctx.count("shortcut_fired_but_correct")
        # [T] the statement sampled directly on the real code by np.interp (float side of the claim)
        if bars and i % 5 == 0 and wrong is None:
            lo = min(b[0] for b in bars); hi = max(b[1] for b in bars)
            ok = True
            for _ in range(3):
                t = Fraction(r.uniform(lo - 0.1 * (hi - lo), hi + 0.1 * (hi - lo)))
                k = r.randrange(len(bars) + 1)
                if abs(Fraction(interp_code(out, k, t)) - lam(bars, k, t)) > Fraction(max(eps, 1e-9 * scale_of(bars))):
                    ok = False
            ctx.test("pointwise_interp", ok)
            if not ok:
                # the output is certified equal to the definition for all t: this is the np.interp assumption, not the code
                ctx.violation("np.interp of the code's critical pairs differs from the definition at a sampled t although the "
                              "checker accepted the output (assumption 'np.interp is linear interpolation' does not hold)",
                              {"correspondence": "np.interp", "line": "pl.exact %d %s" % (c["hom_deg"], enc(c["dgms"])), "code": out,
                               "model": "certified"}, found_input=False)
        if len(ctx.violations) > 5:
            break

    ctx.extra["programs"] = programs
    ctx.extra["disagreements_checked"] = disagreements
    ctx.extra["shortcut_fired_cases"] = fired_cases
    ctx.extra["wrong_and_attributed_to_known_shortcut_by_content"] = fired_wrong
    if not any(f for _, f in ctx.violations):
        stream_large(ctx, kf)
    mm = ctx.counters.get("model_mismatch", 0)
    if mm and not any(f for _, f in ctx.violations):
        fm = ctx.extra.get("first_model_mismatch", {})
        ctx.violation("critical pairs (their representation, or the number of shortcut firings the trace reports) of the real code "
                      "differ from the model of compute_landscape on %d diagram(s); on each of them the code's output was still "
                      "certified equal to the definition, or was exactly the known shortcut output" % mm,
                      {"correspondence": "pl.exact", "line": "pl.exact %d %s" % (fm["case"]["hom_deg"], enc(fm["case"]["dgms"])),
                       "code": fm.get("code"), "code_fired": fm.get("code_fired"), "model": fm.get("model")}, found_input=False)
    class_share(ctx, programs)
    rejects(ctx)
    inf_not_last(ctx)
    known_replay(ctx, kf)


def same_cps(code, model, eps):
    if len(code) != len(model):
        return False
    for a, b in zip(code, model):
        if len(a) != len(b):
            return False
        for p, q in zip(a, b):
            for x, y in zip(p, q):
                if eps == 0:
                    if Fraction(x) != y:
                        return False
                elif abs(Fraction(x) - y) > Fraction(eps):
                    return False
    return True


def class_share(ctx, programs):
    """the generator promise: each interaction class in at least 10 % of the diagrams"""
    share = {k: ctx.counters.get("has:" + k, 0) / max(1, programs)
             for k in ("nested", "touching", "equal_birth", "equal_death", "duplicate", "disjoint", "overlapping")}
    ctx.extra["class_share"] = {k: round(v, 3) for k, v in share.items()}
    low = [k for k, v in share.items() if v < 0.10]
    if low:
        raise common.HarnessError("generator promise broken: classes below 10%%: %s" % low)


def inf_not_last(ctx):
    """outside the property's domain: an infinite death in a row that is not the last.  Only agreement of code and model that
    the input is outside is checked: the code returns non-finite critical pairs, the model answers NonFinite."""
    cases = [gen_inf_not_last(ctx) for _ in range(ctx.n(60, 600))]
    cases.append({"dgms": [[[1.0, 5.0], [0.0, math.inf], [3.0, 6.0]]], "hom_deg": 0})
    answers = ask(["pl.exact %d %s" % (c["hom_deg"], enc(c["dgms"])) for c in cases])
    bad = None
    for c, ans in zip(cases, answers):
        st, out, _ = run_code(c["dgms"], c["hom_deg"])
        ctx.count("inf_not_last:code_" + st)
        ok = st == "nonfinite" and ans == "err:NonFinite"
        ctx.test("inf_not_last_is_outside_for_code_and_model", ok)
        if not ok and bad is None:
            bad = (c, st, out, ans)
    if bad is not None:
        c, st, out, ans = bad
        ctx.violation("a diagram with an infinite death in a row that is not the last: the code answers %s %s, the model %r (the "
                      "model treats it as outside; the property says nothing about such diagrams)" % (st, str(out)[:200], ans),
                      {"correspondence": "pl.exact", "line": "pl.exact %d %s" % (c["hom_deg"], enc(c["dgms"])), "code": "%s %s" % (st, str(out)[:300]),
                       "model": repr(ans)}, found_input=False)


def rejects(ctx):
    """error paths of the constructor against the model's error enum"""
    cases = [([[]], 0), ([[[0.0, 1.0]]], 1), ([[[0.0, 1.0]]], -1), ([[[0.0, 1.0]], []], 1), ([[[0.0, 1.0]], [[1.0, 2.0]]], 5)]
    lines = ["pl.exact %d %s" % (h, enc(d)) for d, h in cases]
    for (d, h), ans in zip(cases, ask(lines)):
        st, out, _ = run_code(d, h)
        code = "err:" + out if st == "err" else "ok"
        ctx.count("reject:" + code)
        ok = code == ans
        ctx.test("error_kinds", ok)
        if not ok:
            ctx.violation("constructor error kind differs from the model: code %s, model %s" % (code, ans),
                          {"correspondence": "pl.exact", "line": "pl.exact %d %s" % (h, enc(d)), "code": code, "model": repr(ans)},
                          found_input=False)


def known_text(kf):
    return ("site=persim/landscapes/exact.py:repeated-bar-shortcut still fails: [(1,5),(1,5),(3,6)] depth 2 must be the tent "
            "(1,5) but is a copy of depth 1 (lambda_2(9/2) = 1/2, code 3/2); listed in known_findings.txt"
            + ("" if kf else " [NOT LISTED]"))


def known_replay(ctx, kf):
    """replay the listed finding on the real code; while it still fails IN THE LISTED WAY (the output is what the model of
    the sweep with the shortcut returns) print the KNOWN-FINDING line"""
    st, out, fired = run_code([KNOWN_CASE], 0)
    ans, model = ask(["pl.certify 0 %s %s" % (enc(KNOWN_CASE), enc(normalise(out, KNOWN_CASE)[0] if st == "ok" else [])),
                      "pl.exact 0 %s" % enc([KNOWN_CASE])])
    fails = st != "ok" or (not ans[0] and py_check(KNOWN_CASE, out, Fraction(0)) is not None)
    as_listed = st == "ok" and isinstance(model, list) and same_cps(normalise(out, KNOWN_CASE)[0], model[0], 0) and int(model[1]) > 0
    ctx.extra["known_finding_still_fails"] = bool(fails)
    ctx.extra["known_finding_shortcut_fired"] = fired
    ctx.extra["known_finding_output_is_the_listed_one"] = bool(as_listed)
    case = {"dgms": [KNOWN_CASE], "hom_deg": 0, "eps": 0.0}
    if fails and as_listed:
        if not kf:
            ctx.violation("the repeated-bar defect is present but not listed in known_findings.txt", case, found_input=True)
        else:
            ctx.known(KNOWN_KEY, known_text(kf))
    elif fails:
        ctx.violation("[(1,5),(1,5),(3,6)] is wrong in a way that is not the listed repeated-bar shortcut output (code: %s %r)"
                      % (st, out), case, found_input=True)
    else:
        print("note: the listed known finding of C03 no longer reproduces on this tree", flush=True)


def gen_large(ctx):
    """hundreds of bars on a half-integer lattice times a common power of two (float arithmetic exact).  Either all births
    are pairwise distinct (then, by `sweep_correct_of_distinct_births`, the model of the current code is correct: nothing can
    be attributed to the known finding) or births/deaths/bars repeat freely."""
    r = ctx.rng
    n = r.choice([60, 100, 150, 220, 300] if not ctx.thorough else [100, 200, 300, 400, 600])
    width = r.choice([n // 2, n, 3 * n])
    distinct = r.random() < 0.5
    s = 2.0 ** r.choice([-20, 0, 0, 0, 20])
    births = r.sample(range(0, max(2 * width, n) + 1), n) if distinct else [r.randint(0, 2 * width) for _ in range(n)]
    bars = []
    for b in births:
        if bars and not distinct and r.random() < 0.1:
            bars.append(list(r.choice(bars)))
            continue
        bars.append([b / 2.0 * s, (b + r.randint(1, max(2, width))) / 2.0 * s])
    r.shuffle(bars)
    return {"dgms": [bars], "hom_deg": 0, "mode": "half", "class": "large-distinct-births" if distinct else "large-with-ties", "eps": 0.0}


CERTIFY_MAX = 120     # the Lean checker is cubic in the number of bars: beyond this size the float oracle alone judges


def stream_large(ctx, kf):
    """[T] diagrams of 60-300 bars (thorough: up to 600): the definition is evaluated in numpy at every cut point and cell
    midpoint (exact on this lattice), the model of the sweep is run on the same input for the attribution by content, and up to
    CERTIFY_MAX bars the Lean checker is run as well"""
    cases = [gen_large(ctx) for _ in range(ctx.n(24, 120))]
    outs = [run_code(c["dgms"], 0) for c in cases]
    lines = []
    for c, (st, out, fired) in zip(cases, outs):
        bars = c["dgms"][0]
        lines.append("pl.exact 0 %s" % enc(c["dgms"]))
        lines.append("pl.certify 0 %s %s" % ((enc(bars), enc(normalise(out, bars)[0])) if st == "ok" and len(bars) <= CERTIFY_MAX else ("[]", "[]")))
    answers = ask(lines)
    for i, (c, (st, out, fired)) in enumerate(zip(cases, outs)):
        bars, model, cert = c["dgms"][0], answers[2 * i], answers[2 * i + 1]
        rcase = {"dgms": c["dgms"], "hom_deg": 0, "dtype": "float64", "eps": 0.0}
        ctx.case({"hom_deg": 0, "dgms": c["dgms"], "dtype": "float64"}, True, sample_every=0)
        ctx.count("large:%s" % c["class"]); ctx.count("large:bars>=%d" % (100 * (len(bars) // 100)))
        if st != "ok":
            ctx.test("large_diagrams", False)
            ctx.violation("PersLandscapeExact gives no landscape for a well-formed diagram of %d bars: %s %s" % (len(bars), st, out),
                          rcase, found_input=True)
            return
        wrong = np_check(bars, out, 1e-9 * scale_of(bars))
        if len(bars) <= CERTIFY_MAX and bool(cert[0]) != (wrong is None):
            raise common.HarnessError("checker %r and numpy oracle %r disagree on %r" % (cert, wrong, c))
        out_eq_model = isinstance(model, list) and len(model) == 2 and same_cps(normalise(out, bars)[0], model[0], 0)
        model_fired = int(model[1]) if isinstance(model, list) and len(model) == 2 else 0
        if wrong is not None and out_eq_model and model_fired > 0:
            ctx.count("large:wrong_and_equal_to_the_model_with_shortcut")
            ctx.known(KNOWN_KEY, known_text(kf))
            continue
        ctx.test("large_diagrams", wrong is None)
        if wrong is not None:
            ctx.violation("exact landscape of %d bars differs from the k-th-largest-tent definition and is NOT the output of the "
                          "known repeated-bar shortcut (trace: fired %d time(s)): %s" % (len(bars), fired, wrong), rcase,
                          found_input=True, code_output=out if len(repr(out)) < 20000 else "(long)")
            return
        if not (out_eq_model and same_cps(out, model[0], 0) and model_fired == fired):
            ctx.count("model_mismatch")
            if ctx.counters["model_mismatch"] <= 1:
                ctx.extra["first_model_mismatch"] = {"case": c, "code": out if len(repr(out)) < 20000 else "(long)", "code_fired": fired,
                                                     "model": repr(model)[:2000]}


def replay(ctx, rep):
    c = rep["case"]
    if "dgms" not in c:
        print("correspondence replay: send %r to the driver and compare with the code's critical_pairs" % c.get("line"))
        print("code:", c.get("code"), "\nmodel:", c.get("model"))
        return True
    dgms = [[[float(x) for x in b] for b in D] for D in c["dgms"]]
    h = c["hom_deg"]
    dtype = c.get("dtype", "float64")
    route, depth = c.get("route") or "eager", int(c.get("depth") or 0)
    st, out, fired = run_code(dgms, h, float if dtype == "float64" else dtype, route, depth)
    if route != "eager":
        print("route: built with compute=False, then %s, then .critical_pairs" % {
            "lazy": "compute_landscape()", "lazy_verbose": "compute_landscape(verbose=True)",
            "lazy_by_depth": "compute_landscape_by_depth(%d) [answer or exception ignored]; compute_landscape()" % depth}[route])
    print("PersLandscapeExact(dgms=%s (dtype %s), hom_deg=%d).critical_pairs ->" % (repr(dgms)[:3000], dtype, h))
    print("  ", repr(out)[:3000], " shortcut fired:", fired)
    if st != "ok":
        print("no landscape:", st, out)
        return False
    bars = selected_bars({"dgms": dgms, "hom_deg": h})
    if "eps" in c:
        eps = Fraction(float(c["eps"]))
    else:
        exact_in = all(float(x) == round(float(x) * 2 ** 30) / 2 ** 30 for b in bars for x in b)
        eps = Fraction(0) if exact_in else Fraction(1e-9 * scale_of(bars))
    if len(bars) > 40:
        res = np_check(bars, out, max(float(eps), 1e-9 * scale_of(bars)))
        print("definition vs code (numpy oracle at every cut point and cell midpoint):", "equal" if res is None else res)
        return res is None
    res = py_check(bars, out, eps)
    try:
        ans = ask(["pl.certify %s %s %s" % (enc(eps), enc(bars), enc(normalise(out, bars)[0])), "pl.exact %d %s" % (h, enc(dgms))])
        print("Lean checker on the code's output:", ans[0])
        if isinstance(ans[1], list):
            print("output equals the model of the current code (sweep with the repeated-bar shortcut; model fired %s): %s"
                  % (ans[1][1], same_cps(out, ans[1][0], float(eps))))
        if res is not None and eps > 0 and isinstance(ans[1], list) and same_cps(out, ans[1][0], float(eps)):
            # rounding edge (see run): verdict through the model's exact output
            res = py_check(bars, [[[x, y] for x, y in d] for d in ans[1][0]], Fraction(0))
            print("code output agrees with the model within eps; model output vs definition:", res)
    except Exception as e:  # the replay must work without the driver as well
        print("(driver not available: %s)" % e)
    print("definition vs code:", "equal for all t, k" if res is None else res)
    return res is None


MANIFEST = {
    "text": "28 Lean theorems in Props/C03.lean (plus the generated constructor pins of Generated/SrcPLArith.lean), of which 18 core (the rest: helper variants, the shortcut counterexample and other concrete "
            "instances, model glue for rejected inputs). "
            "Translation validation by a Lean-verified checker, plus a proof about the model of the algorithm. (1) `certify_sound` "
            "(Lean 4, any linear ordered field): whenever the executable checker accepts a diagram and a list of critical pairs, the "
            "piecewise-linear functions equal the k-th-largest-tent landscape at every real t and every depth k (with ordered abscissae, "
            "zero ends, zero beyond the last depth). On every run the real PersLandscapeExact is called on generated diagrams (all "
            "interaction classes, several diagrams + hom_deg, trailing infinite bar, float and integer dtypes incl. int8/uint8/int16/"
            "int32/int64 where b+d exceeds the dtype) and its OWN output is sent to the compiled checker, "
            "so for each explored diagram the for-all-t-and-k conclusion is a theorem instance; diagrams are sampled. (2) "
            "`sweepNoShortcut_correct` / `sweep_correct_of_not_fired`: for EVERY diagram with bars of positive length the line-by-line "
            "Lean model of compute_landscape terminates and, whenever its repeated-bar shortcut does not fire, returns well-formed "
            "critical pairs equal to the landscape for all t and k; the model is compared with the real code on every generated diagram "
            "(exactly on dyadic input). `sweep_correct_of_distinct_births` / `sweep_correct_of_distinct_deaths` (and the constructor-level "
            "`exact_correct_of_distinct_*`): a condition on the INPUT alone, not on the trace - for EVERY diagram with bars of positive "
            "length whose births are pairwise distinct, or whose deaths are pairwise distinct, the shortcut of the model of the current "
            "code never fires and its output is well formed and equals the landscape for all t and k; pairwise distinct BARS are not "
            "enough (`distinct_bars_not_enough`: [(0,4),(2,6),(2,4),(3,5)], a Case-III residual duplicates an original bar). "
            "The known repeated-bar-shortcut defect is a theorem about that model (`shortcut_counterexample`) "
            "and is reported as KNOWN-FINDING; a wrong result is attributed to it only when the code's functions EQUAL the output of that "
            "model (sweep with the shortcut) on the same diagram - a wrong result that differs from it is a VIOLATION with a failing "
            "input even if the trace fired. A stream of 60-300 bars (thorough 600) is judged by a numpy evaluation of the definition "
            "at every cut point (Lean checker up to 120 bars). Repeated points and empty depths in the output are accepted (the "
            "statement says 'ordered by abscissa').",
    "note": "Trusted: Lean kernel + Mathlib (axioms propext/Classical.choice/Quot.sound), the harness/protocol, the compiled driver "
            "executable (compiled by Lean's compiler, not checked by the kernel), np.interp as linear interpolation. A diagram with an "
            "infinite death in a row that is not the last is outside the property ('finite diagrams'): code (non-finite critical pairs) "
            "and model (NonFinite) are only checked to agree on that. Exact on lattice/half/dyadic input; on decimal input the code's rounded midpoints are certified within 1e-9*largest |coordinate| "
            "(`certifyTol_sound`). The level stays translation validation because the property as stated is false on the unchanged tree "
            "(known finding) and because what surrounds the sweep -- float rounding, the constructor's selection and conversion of the "
            "diagram, np.interp -- is tied to the model by the sampled correspondence only; the sweep itself (`compute_landscape`) is tied "
            "by translation (next paragraph).",
    "technique": "Lean-verified certificate checker applied to the real code's output + proved model of the sweep + differential correspondence",
}
MANIFEST["note"] += " " + py2lean.manifest_note("sweep")
