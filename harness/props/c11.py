"""C11 — persistence images are additive, order-free and call-style independent.

Theorems: lean/PersimVerif/Props/C11.lean (model lean/PersimVerif/Model/Image.lean: `transformOne`, `ensureIterable`, `transform`).
Tie: (1) `PersistenceImager.transform` on every call style (one array, list of lists, list / tuple / 3-D array of diagrams, empty
         diagram, empty collection, collection whose first or middle diagram is empty) against the model's `transform` executed
         exactly at Rat with the uniform kernel on dyadic inputs (structure of the answer and every pixel, exact equality);
         `_ensure_iterable` against `ensureIterable`;
     (2) the related-input laws of the statement evaluated on the real code for all kernel / weight kinds (generators of C04).
[T]: schedules — `transform(..., n_jobs=k)` compared bit-for-bit with the serial result.  Worker scheduling is runtime
     behaviour; the functional model is an ordered map (joblib's contract) and cannot exhibit it, so that quantifier is
     covered by this test only.
"""
import math
import numpy as np
from fractions import Fraction
from .. import common
from ..common import enc, ask, call
from . import c04

LEVEL = "proof"
RULE = ("configurations and diagrams from the C04 generators (non-square grids, all kernel and weight kinds, points inside / on mesh "
        "lines / outside / diagonal / duplicated, scale 2^-10..2^10); per configuration 2-4 diagrams of 0-6 points; every law is "
        "evaluated on each; call styles: ndarray, list of lists, list/tuple/3-D array of diagrams, empty (0,2) array, [], collections "
        "with an empty first or middle diagram; n_jobs in {None,1,2,4} (+3,8,16 thorough). non-trivial = at least two diagrams with a "
        "point of non-zero weight and kernel mass inside the grid; distinct by digest of (configuration, diagrams)")
ASSUMPTIONS = [
    "joblib.Parallel(n_jobs)(delayed(f)(x) for x in xs) returns [f(x) for x in xs] in order (its contract; exercised bit-for-bit by the [T] schedule stream, not provable about the runtime)",
    "the caller passes one (n,2) diagram or an iterable of (n,2) diagrams (what the docstring allows); other nestings are outside the model",
    "weights and kernel act elementwise; float rounding is outside the theorems (additivity/permutation compared to 1e-12*total weight, the call-style laws bit-for-bit)",
]
TRUSTED = ["joblib/loky process pool as an ordered map"]
TOL = 1e-12
# theorems that carry a clause of the property (of 24 in Props/C11.lean); not listed: `rfl` restatements and modelled contracts
# (skew_consistency, n_jobs_irrelevant, transform_empty), helpers (pixel_matZip_add, ensureIterable_dgm/_coll, effKernel_of_zeroCov,
# uniform_rect_le_one, prod_rect_le_one)
CORE_THEOREMS = ["PersimVerif.C11." + n for n in (
    "image_append", "image_perm", "zero_weight_drops", "zero_weight_filter", "empty_is_zero", "transform_dgm", "transform_coll",
    "single_vs_collection", "collection_of_singles", "nonneg", "total_le_weight", "nonneg_uniform", "nonneg_zero_cov",
    "total_le_weight_uniform", "total_le_weight_zero_cov")]


def imager(case):
    return c04.build_imager(case, c04.Counters())


def arr(d):
    return np.array(d, dtype=np.float64).reshape(-1, 2)


def T(pim, d, skew, **k):
    with np.errstate(all="ignore"):
        return pim.transform(d, skew=skew, **k)


def aeq(a, b):
    """bit-for-bit equality of two images / arrays; a NaN pixel (weight NaN: fractional power of a negative persistence) equals a NaN pixel"""
    a, b = np.asarray(a), np.asarray(b)
    return a.shape == b.shape and bool(np.array_equal(a, b, equal_nan=True))


def aclose(a, b, atol):
    a, b = np.asarray(a), np.asarray(b)
    return a.shape == b.shape and bool(np.allclose(a, b, rtol=0, atol=atol, equal_nan=True))


def rel_scale(ws):
    """total absolute weight (finite ones), NOT floored at 1: with tiny weights an absolute tolerance accepts anything"""
    return max(1e-300, sum(abs(x) for x in ws if math.isfinite(x)))


def total_weight(case, dgm):
    c = dict(case); c["dgm"] = dgm
    ws = c04.weights_independent(c, c04.to_bp(c))
    return ws


# ----------------------------------------------------------------------------- (1) call styles vs the model, exact

def styles_exact(ctx):
    r = ctx.rng
    ensure = common.pm("images").PersistenceImager._ensure_iterable
    items, lines = [], []
    for it in range(ctx.n(400, 5000)):
        case = c04.gen_case(ctx, kind="uniform", dyadic=True)
        pim = imager(case)
        bpn, ppn, res = [float(x) for x in pim._bpnts], [float(x) for x in pim._ppnts], tuple(int(x) for x in pim.resolution)
        STYLES = ["array", "lol", "list_of_arrays", "list_of_lol", "tuple_of_arrays", "array3d", "empty_array", "empty_list",
                  "first_empty", "middle_empty", "all_empty", "single_in_list"]
        style = STYLES[it % len(STYLES)] if it < 2 * len(STYLES) else r.choice(STYLES)     # every style first, then random
        k = r.randint(1, 4)
        dgms = [c04.more_dgm(ctx, case) for _ in range(k)]
        if style in ("array", "lol"):
            d = case["dgm"] or c04.more_dgm(ctx, case, n=2)
            arg = arr(d) if style == "array" else [list(p) for p in d]
            inp = ["dgm", d]
        elif style == "empty_array":
            arg, inp = np.zeros((0, 2)), ["dgm", []]
        elif style == "empty_list":
            arg, inp = [], ["coll", []]
        elif style == "array3d":
            n = r.randint(1, 3)
            dgms = [c04.more_dgm(ctx, case, n=n) for _ in range(k)]
            arg, inp = np.array(dgms, dtype=np.float64).reshape(k, n, 2), ["coll", dgms]
        else:
            if style == "first_empty":
                dgms[0] = []
            elif style == "middle_empty":
                dgms = dgms + [[]] + [c04.more_dgm(ctx, case, n=2)]
            elif style == "all_empty":
                dgms = [[] for _ in dgms]
            elif style == "single_in_list":
                dgms = [dgms[0] or c04.more_dgm(ctx, case, n=1)]
            if style == "list_of_lol" and all(len(d) > 0 for d in dgms):
                arg = [[list(p) for p in d] for d in dgms]
            elif style == "tuple_of_arrays":
                arg = tuple(arr(d) for d in dgms)
            else:
                arg = [arr(d) for d in dgms]
            inp = ["coll", dgms]
        nj = r.choice([None, None, 1])
        ws = c04.weight_spec(case["weight"])
        ws = ["pers", int(ws[1])] if ws[0] == "pers" else ws
        kk = case["kernel"]
        lines.append("img.coll %d %d %s %s %s %s %s %s %s %s" % (res[0], res[1], enc(bpn), enc(ppn), enc(inp), enc(case["skew"]),
                                                               enc(ws), enc(kk["width"]), enc(kk["height"]), enc(nj)))
        lines.append("img.ensure %s" % enc(inp))
        with np.errstate(all="ignore"):
            st, v, _ = call(pim.transform, arg, skew=case["skew"], n_jobs=nj)
        est, ev, _ = call(ensure, pim, arg)
        items.append((case, style, inp, nj, st, v, est, ev, res))
    answers = ask(lines)
    for idx, (case, style, inp, nj, st, v, est, ev, res) in enumerate(items):
        ans, eans = answers[2 * idx], answers[2 * idx + 1]
        if ans == "bad-op" or eans == "bad-op":
            raise common.HarnessError("driver rejected: %s" % lines[2 * idx][:300])
        ctx.case({"op": "styles", "style": style, "input": inp, "n_jobs": nj, **{k: case[k] for k in ("birth_range", "pers_range", "pixel_size", "kernel", "weight", "skew")}},
                 nontrivial=inp[0] == "coll" and len(inp[1]) >= 2, sample_every=41)
        ctx.count("style:" + style)
        # canonical form of the code's answer
        if st == "err":
            code = "err:" + v
        elif isinstance(v, np.ndarray):
            code = ["img", v.tolist()]
        elif isinstance(v, list) and all(isinstance(x, np.ndarray) for x in v):
            code = ["imgs", [x.tolist() for x in v]]
        else:
            code = ["other:%s" % type(v).__name__, common.tolist(v)]
        ok = same_exact(code, ans)
        # _ensure_iterable
        if est == "ok":
            ecode = [len(ev[0]), bool(ev[1])]
            eok = ecode == [int(eans[0]), bool(eans[1])]
        else:
            ecode, eok = "err:" + ev, False
        if ok and eok:
            continue
        # correspondence broke: does one of the property's laws fail on this very input?
        fail = style_laws(case, inp, code, res, nj)
        what = ("transform(%s) differs from the model's transform" % style) if not ok else \
            ("_ensure_iterable gives %r, model %r" % (ecode, eans))
        ctx.violation("%s; %s" % (what, fail or "no law of the statement fails on this input"),
                      {"op": "styles", "style": style, "input": inp, "n_jobs": nj, **case} if fail else
                      {"correspondence": "img.coll", "line": lines[2 * idx][:1500], "code": code, "model": ans, "style": style},
                      found_input=fail is not None, correspondence="img.coll")
        if len(ctx.violations) > 5:
            return


def same_exact(code, ans):
    if isinstance(code, str) or isinstance(ans, str):
        return code == ans
    if code[0] != ans[0]:
        return False

    def mat_eq(a, b):
        return len(a) == len(b) and all(len(x) == len(y) and all(Fraction(p) == q for p, q in zip(x, y)) for x, y in zip(a, b))
    if code[0] == "img":
        return mat_eq(code[1], ans[1])
    return len(code[1]) == len(ans[1]) and all(mat_eq(a, b) for a, b in zip(code[1], ans[1]))


def content_laws(case, pim, d, a):
    """additivity and the C04 mass oracle for the image `a` the code produced for diagram `d`"""
    sk = case["skew"]
    if len(d) >= 2:
        k = len(d) // 2
        parts = T(pim, arr(d[:k]), sk) + T(pim, arr(d[k:]), sk)
        sc = rel_scale(total_weight(case, d))
        if not aclose(a, parts, TOL * sc):
            return "image of a %d-point diagram is not the sum of the images of its two halves" % len(d)
    c = dict(case); c["dgm"] = d
    bpn, ppn = [float(x) for x in pim._bpnts], [float(x) for x in pim._ppnts]
    return c04.property_fails(c, a.tolist(), bpn, ppn, tuple(int(x) for x in pim.resolution))


def style_laws(case, inp, code, res, nj=None):
    """the statement's laws on the real code for this input (independent of the model)"""
    pim = imager(case)
    if isinstance(code, str):
        return "transform raised %s on a valid input" % code[4:]
    if inp[0] == "dgm" or (inp[0] == "coll" and len(inp[1]) == 0):
        if code[0] != "img":
            return "a single diagram did not give a single image (got %s)" % code[0]
        a = np.asarray(code[1])
        if a.shape != tuple(res):
            return "image shape %s is not the configured resolution %s" % (a.shape, tuple(res))
        d = inp[1]
        if len(d) == 0:
            return None if not a.any() else "empty diagram gives a non-zero image"
        inside = T(pim, [arr(d)], case["skew"])
        if not (isinstance(inside, list) and len(inside) == 1 and aeq(inside[0], a)):
            return "image of the diagram alone (n_jobs=%s) differs from its image inside a collection (serial)" % nj
        return content_laws(case, pim, d, a)
    if code[0] != "imgs" or len(code[1]) != len(inp[1]):
        return "a collection of %d diagrams did not give a list of %d images" % (len(inp[1]), len(inp[1]))
    for d, m in zip(inp[1], code[1]):
        a = np.asarray(m)
        if a.shape != tuple(res):
            return "image shape %s is not the configured resolution %s" % (a.shape, tuple(res))
        alone = T(pim, arr(d), case["skew"])
        if not aeq(alone, a):
            return "image inside the collection (n_jobs=%s) differs from the image of the diagram alone (serial)" % nj
        f = content_laws(case, pim, d, a)
        if f:
            return f
    return None


# ----------------------------------------------------------------------------- (2) laws on the real code

def laws(ctx):
    r = ctx.rng
    for it in range(ctx.n(500, 6000)):
        case = c04.gen_case(ctx, kind=c04.KINDS[it % len(c04.KINDS)] if it < 24 else None)
        pim = imager(case)
        res = tuple(int(x) for x in pim.resolution)
        sk = case["skew"]
        A = case["dgm"] or c04.more_dgm(ctx, case, n=2)
        B = c04.more_dgm(ctx, case)
        C = c04.more_dgm(ctx, case, n=r.choice([1, 3]))
        wsA, wsB = total_weight(case, A), total_weight(case, B)
        sc = rel_scale(wsA + wsB)
        IA, IB = T(pim, arr(A), sk), T(pim, arr(B), sk)
        bad = []

        def chk(name, ok):
            ctx.test(name, bool(ok))
            if not ok:
                bad.append(name)
        nt = sum(1 for ws in (wsA, wsB) if any(w != 0 for w in ws)) == 2 and float(np.abs(IA).sum()) > 0 and float(np.abs(IB).sum()) > 0
        ctx.case({"op": "laws", "A": A, "B": B, "C": C, **{k: case[k] for k in ("birth_range", "pers_range", "pixel_size", "kernel", "weight", "skew")}},
                 nontrivial=nt, sample_every=59)
        ctx.count("kernel:" + case["kind"]); ctx.count("weight:" + case["weight"]["kind"])
        # union = sum
        IU = T(pim, arr(A + B), sk)
        chk("union_is_sum", aclose(IU, IA + IB, TOL * sc))
        # permutation
        perm = list(A + B); r.shuffle(perm)
        chk("permutation", aclose(T(pim, arr(perm), sk), IU, TOL * sc))
        # zero-weight points contribute nothing
        zs = zero_weight_points(case, r)
        if zs:
            mixed = list(A)
            for z in zs:
                mixed.insert(r.randint(0, len(mixed)), z)
            chk("zero_weight_drops", aeq(T(pim, arr(mixed), sk), IA))
            ctx.count("zero_weight_cases")
        # empty diagram: zeros of the configured resolution — alone, as [], and inside a collection
        E0, E1 = T(pim, np.zeros((0, 2)), sk), T(pim, [], sk)
        EC = T(pim, [arr(A), np.zeros((0, 2))], sk)
        chk("empty_is_zero_of_resolution", isinstance(E0, np.ndarray) and E0.shape == res and not E0.any() and
            isinstance(E1, np.ndarray) and E1.shape == res and not E1.any() and EC[1].shape == res and not EC[1].any())
        # alone vs inside a collection (arrays and list-of-lists), order of the collection kept
        coll = T(pim, [arr(A), arr(B), arr(C)], sk)
        IC = T(pim, arr(C), sk)
        chk("alone_vs_collection", isinstance(coll, list) and len(coll) == 3 and aeq(coll[0], IA)
            and aeq(coll[1], IB) and aeq(coll[2], IC) and isinstance(IA, np.ndarray) and IA.shape == res)
        lol = T(pim, [list(map(list, A)), list(map(list, C))], sk)
        chk("list_of_lists_input", isinstance(lol, list) and len(lol) == 2 and aeq(lol[0], IA) and aeq(lol[1], IC)
            and aeq(T(pim, list(map(list, A)), sk), IA))
        # birth-death with skew=True  ==  pre-converted birth-persistence with skew=False
        bd = arr(A) if sk else np.column_stack([arr(A)[:, 0], arr(A)[:, 0] + arr(A)[:, 1]])
        pre = np.column_stack([bd[:, 0], bd[:, 1] - bd[:, 0]])
        chk("skew_consistency", aeq(T(pim, bd, True), T(pim, pre, False))
            and aeq(T(pim, [bd, bd], True)[1], T(pim, [pre], False)[0]))
        # the argument is not modified (the conversion happens on a private copy)
        keep = arr(A); keep0 = keep.copy()
        T(pim, keep, True); T(pim, [keep], True)
        chk("argument_untouched", aeq(keep, keep0))
        # non-negative weights: no negative pixel, total at most the total weight
        if all(w >= 0 for w in wsA):
            chk("nonneg", float(IA.min()) >= -TOL * sc)
            chk("total_le_weight", float(IA.sum()) <= sum(wsA) + 1e-9 * sc)
        # fit_transform = fit; transform   (and on a collection)
        if len(A) >= 1 and it % 3 == 0:
            p1, p2 = imager(case), imager(case)
            with np.errstate(all="ignore"):
                f1 = p1.fit_transform([arr(A), arr(C)], skew=sk)
                p2.fit([arr(A), arr(C)], skew=sk)
                f2 = p2.transform([arr(A), arr(C)], skew=sk)
            chk("fit_transform_is_fit_then_transform", len(f1) == len(f2) == 2 and all(aeq(x, y) for x, y in zip(f1, f2)))
        if bad:
            ctx.violation("image law fails on the real code: %s" % ", ".join(bad),
                          {"op": "laws", "A": A, "B": B, "C": C, "perm": perm, "zeros": zs, **case}, found_input=True, law=bad)
            if len(ctx.violations) > 5:
                return


def zero_weight_points(case, r):
    """points whose weight is exactly zero, in the call convention of the case"""
    w = case["weight"]
    br, pr = case["birth_range"], case["pers_range"]
    out = []
    if w["kind"] == "persistence":
        for _ in range(r.randint(1, 2)):
            b = r.uniform(br[0], br[1])
            out.append([b, b] if case["skew"] else [b, 0.0])           # persistence 0 -> 0**n = 0
    elif w["kind"] == "linear_ramp" and w["low"] == 0.0:
        for _ in range(r.randint(1, 2)):
            b = r.uniform(br[0], br[1])
            p = w["start"] - r.uniform(0.01, 1.0) * case["pixel_size"]   # below `start`: weight = low = 0
            out.append([b, b + p] if case["skew"] else [b, p])
    elif w["kind"] == "user":
        out.append([0.0, 0.0])                                           # a*|0| + c*0^2 = 0
    return out


# ----------------------------------------------------------------------------- [T] schedules

def schedules(ctx):
    r = ctx.rng
    jobs = [1, 2, 4] + ([3, 8, 16] if ctx.thorough else [])
    reps = ctx.n(6, 30)
    confs = []
    for i in range(reps):
        kind = ["corr", "scalar", "uniform", "user_logistic", "diag_ne", "corr_eq", "user_gauss_wrap"][i % 7]
        case = c04.gen_case(ctx, kind=kind)
        k = r.choice([1, 2, 3, 5, 8, 13]) if i else 17
        dgms = [arr(c04.more_dgm(ctx, case, n=r.choice([0, 1, 2, 4]))) for _ in range(k)]
        confs.append((case, dgms))
    import os
    os.environ.setdefault("PYTHONWARNINGS", "ignore")      # inherited by the worker processes (they re-import persim)
    try:
        for nj in jobs:
            for case, dgms in confs:
                pim = imager(case)
                serial = T(pim, dgms, case["skew"])
                with np.errstate(all="ignore"):
                    st, par, _ = call(pim.transform, dgms, skew=case["skew"], n_jobs=nj)
                ok = st == "ok" and isinstance(par, list) and len(par) == len(serial) and all(aeq(a, b) for a, b in zip(par, serial))
                # a single diagram through the pool
                one = T(pim, dgms[0], case["skew"])
                with np.errstate(all="ignore"):
                    st1, par1, _ = call(pim.transform, dgms[0], skew=case["skew"], n_jobs=nj)
                ok1 = st1 == "ok" and isinstance(par1, np.ndarray) and aeq(par1, one)
                ctx.test("n_jobs=%d_bitwise" % nj, ok and ok1)
                ctx.count("schedule_runs")
                if not (ok and ok1):
                    ctx.violation("transform(n_jobs=%d) differs from the serial result (%s)" % (nj, "collection" if not ok else "single diagram"),
                                  {"op": "schedule", "n_jobs": nj, "dgms": [d.tolist() for d in dgms], **case}, found_input=True, law="n_jobs")
                    return
    finally:
        try:
            from joblib.externals.loky import get_reusable_executor
            get_reusable_executor().shutdown(wait=True)
        except Exception:
            pass


def run(ctx):
    ctx.extra["core_theorems"] = CORE_THEOREMS
    ctx.extra["anchored_digest"] = {"images.transform/_ensure_iterable/_transform": common.source_digest(
        "persim/images.py", ["_transform", "transform", "_ensure_iterable", "fit_transform"])}
    cov = common.LineCov(["persim/images.py", "persim/images_weights.py"])
    with cov:
        styles_exact(ctx)
    ctx.extra["branch_hits"] = c04.anchored_only(cov)
    if len(ctx.violations) > 5:
        return
    laws(ctx)
    if len(ctx.violations) > 5:
        return
    schedules(ctx)
    ctx.extra["schedules_note"] = ("n_jobs streams are tests of runtime behaviour: the model is an ordered map (joblib's contract) "
                                   "and cannot exhibit worker scheduling; that quantifier is covered by [T] only")


def replay(ctx, rep):
    c = rep["case"]
    op = c.get("op")
    if op == "styles":
        pim = imager(c)
        res = tuple(int(x) for x in pim.resolution)
        inp = c["input"]
        arg = arr(inp[1]) if inp[0] == "dgm" else [arr(d) for d in inp[1]]
        st, v, _ = call(pim.transform, arg, skew=c["skew"], n_jobs=c.get("n_jobs"))
        code = ("err:" + v) if st == "err" else (["img", v.tolist()] if isinstance(v, np.ndarray) else
                                                 ["imgs", [np.asarray(x).tolist() for x in v]] if isinstance(v, list) else ["other", None])
        fail = style_laws(c, inp, code, res, c.get("n_jobs"))
        print("code:", code if isinstance(code, str) else code[0], "| law check:", fail or "holds")
        return fail is None
    if op == "schedule":
        pim = imager(c)
        dgms = [arr(d) for d in c["dgms"]]
        serial = T(pim, dgms, c["skew"])
        st, par, _ = call(pim.transform, dgms, skew=c["skew"], n_jobs=c["n_jobs"])
        ok = st == "ok" and len(par) == len(serial) and all(aeq(a, b) for a, b in zip(par, serial))
        print("n_jobs=%s vs serial: %s" % (c["n_jobs"], "equal" if ok else "DIFFERENT"))
        return ok
    if op == "laws":
        pim = imager(c)
        sk = c["skew"]
        A, B = c["A"], c["B"]
        sc = rel_scale(total_weight(c, A) + total_weight(c, B))
        IA, IB, IU = T(pim, arr(A), sk), T(pim, arr(B), sk), T(pim, arr(A + B), sk)
        coll = T(pim, [arr(A), arr(B)], sk)
        res = tuple(int(x) for x in pim.resolution)
        E = T(pim, np.zeros((0, 2)), sk)
        checks = {"union_is_sum": aclose(IU, IA + IB, TOL * sc),
                  "alone_vs_collection": isinstance(coll, list) and aeq(coll[0], IA) and aeq(coll[1], IB),
                  "empty_is_zero_of_resolution": isinstance(E, np.ndarray) and E.shape == res and not E.any(),
                  "permutation": aclose(T(pim, arr(c.get("perm", A + B)), sk), IU, TOL * sc)}
        if c.get("zeros"):
            checks["zero_weight_drops"] = aeq(T(pim, arr(list(A) + c["zeros"]), sk), IA)
        print("laws:", checks, "(other laws: re-run `./check.py C11` with VERIF_SEED=%s)" % rep.get("seed"))
        return all(checks.values())
    print("correspondence replay: re-run `./check.py C11` with VERIF_SEED=%s" % rep.get("seed"))
    return True


MANIFEST = {
    "text": "Proof (24 theorems, of which 15 core), for the correlated Gaussian and user kernels modulo the kernel being a CDF (C13's partial "
            "part; there the CDF facts are explicit hypotheses): Lean theorems about the model of _transform / _ensure_iterable / transform for "
            "diagrams and collections of every size: image(A ++ B) = image(A) + image(B) pixelwise, invariance under permutation, zero-weight "
            "points drop out, the empty diagram gives zeros of the configured resolution (also via the len==0 early return), a diagram alone "
            "gives the same image as inside a collection at any position (both branches of _ensure_iterable and the IndexError case), "
            "skew=True on (b,d) equals skew=False on (b,d-b) (by construction of the model), non-negative weights and rectangle masses give "
            "non-negative pixels, and the pixels telescope to the kernel's mass of the whole imaged rectangle so the total is at most the total "
            "weight. For the uniform kernel and for the Gaussian kernel with zero covariance (fast path and general path, every monotone Phi "
            "into [0,1]) the two CDF hypotheses are discharged by C13's theorems: nonneg_uniform, nonneg_zero_cov, total_le_weight_uniform, "
            "total_le_weight_zero_cov hold with no kernel hypothesis. Tied to the code on every run: the model's `transform` executed exactly "
            "at Rat against the real transform on every call style (exact equality), `_ensure_iterable` against `ensureIterable`, and each "
            "law evaluated on the real code for all kernel and weight kinds, including diagrams with points below the diagonal.",
    "note": "Trusted: Lean kernel + Mathlib (axioms propext/Classical.choice/Quot.sound); the correspondence harness; joblib.Parallel as an ordered "
            "map. 'Processed serially or by parallel workers, every n_jobs / worker scheduling' is runtime behaviour the functional model cannot "
            "exhibit: it is covered ONLY by the [T] schedule stream (n_jobs in {1,2,4}, thorough also {3,8,16}, collections of 1-17 diagrams, "
            "bit-for-bit against the serial result). Non-negativity and total <= total weight for the CORRELATED Gaussian (bvn_cdf) rest on "
            "the hypotheses of `nonneg` / `total_le_weight` and are covered by the [T] streams `nonneg` / `total_le_weight` only. Float "
            "rounding is outside the theorems (additivity / permutation compared to 1e-12 x total absolute weight, no floor at 1; NaN images "
            "from a fractional power of a negative persistence compared as NaN).",
    "technique": "Lean 4 theorems over a hand-written model + exact differential correspondence + metamorphic tests on the real code",
}
