"""C11 — persistence images are additive, order-free and call-style independent.

Theorems: lean/PersimVerif/Props/C11.lean (model lean/PersimVerif/Model/Image.lean: `transformOne`, `ensureIterable`, `transform`).
Tie: (1) `PersistenceImager.transform` on every call style (one array, list of lists, list / tuple / 3-D array of diagrams, empty
         diagram, empty collection, collection whose first or middle diagram is empty) against the model's `transform` executed
         exactly at Rat with the uniform kernel on dyadic inputs (structure of the answer and every pixel, exact equality);
         `_ensure_iterable` against `ensureIterable`;
     (2) the related-input laws of the statement evaluated on the real code for all kernel / weight kinds (generators of C04).
[T]: schedules — `transform(..., n_jobs=k)` (k in {1,2,4,-1}, thorough also {3,8,16,-2}; collections of 1-17 diagrams and
     collections of 200+ small diagrams of mixed sizes) compared with the serial result.  Worker scheduling is runtime
     behaviour; the functional model is an ordered map (joblib's contract) and cannot exhibit it, so that quantifier is
     covered by this test only.
Verdict vs correspondence: "the same image" is decided to rounding (1e-12 x the total absolute weight of the diagram, relative,
     no floor).  Agreement to rounding but not bit for bit between two calls of the real code (a batched / re-associated
     accumulation), `transform([])` returning an empty list instead of zeros, a tuple instead of a list, a renamed private
     helper or mesh attribute: correspondence breaks (`no-failing-input-found`), never a claimed failing input.
"""
import math
import numpy as np
from fractions import Fraction
from .. import common
from ..common import enc, ask, call
from ..translator import py2lean
from . import c04

LEVEL = "proof"
RULE = ("configurations and diagrams from the C04 generators (non-square grids, all kernel and weight kinds, points inside / on mesh "
        "lines / outside / diagonal / duplicated, scale 2^-10..2^10); per configuration 2-4 diagrams of 0-6 points; every law is "
        "evaluated on each; call styles: ndarray, list of lists, list/tuple/3-D array of diagrams, empty (0,2) array, [], collections "
        "with an empty first or middle diagram; n_jobs in {None,1,2,4,-1} (+3,8,16,-2 thorough) on collections of 1-17 diagrams and on "
        "collections of 200-260 (thorough 400-1200) diagrams of 0-9 points; the flags skew / n_jobs by keyword and by position (public "
        "signatures transform(pers_dgms, skew, n_jobs), fit(pers_dgms, skew), fit_transform(pers_dgms, skew)), birth-death and "
        "pre-converted form through transform, fit_transform and fit; transform. non-trivial = at least two diagrams with a "
        "point of non-zero weight and kernel mass inside the grid; each kernel kind once with a 257-600-point diagram; distinct by digest of (configuration, diagrams)")
ASSUMPTIONS = [
    "joblib.Parallel(n_jobs)(delayed(f)(x) for x in xs) returns [f(x) for x in xs] in order (its contract; exercised by the [T] schedule stream — verdict to rounding, bits as a correspondence signal — not provable about the runtime)",
    "the caller passes one (n,2) diagram or an iterable of (n,2) diagrams (what the docstring allows); other nestings are outside the model",
    "weights and kernel act elementwise; float rounding is outside the theorems: every law that compares two images is decided to 1e-12 x total absolute weight; a difference in the last bits only between two call styles / schedules is reported as a correspondence break without a failing input",
]
TRUSTED = ["joblib/loky process pool as an ordered map", py2lean.trusted_note("image")]
# source translator (DESIGN.md 3.2): `_transform`, `PersistenceImager.transform`, `fit_transform` are re-translated on every run
PROP_FILES = ["PersimVerif/Props/C11.lean"] + py2lean.prop_files("image")
TOL = 1e-12
# theorems that carry a clause of the property (of 24 in Props/C11.lean); not listed: `rfl` restatements and modelled contracts
# (skew_consistency, n_jobs_irrelevant, transform_empty), helpers (pixel_matZip_add, ensureIterable_dgm/_coll, effKernel_of_zeroCov,
# uniform_rect_le_one, prod_rect_le_one)
CORE_THEOREMS = ["PersimVerif.C11." + n for n in (
    "image_append", "image_perm", "zero_weight_drops", "zero_weight_filter", "empty_is_zero", "transform_dgm", "transform_coll",
    "single_vs_collection", "collection_of_singles", "nonneg", "total_le_weight", "nonneg_uniform", "nonneg_zero_cov",
    "total_le_weight_uniform", "total_le_weight_zero_cov")]


_CORR_SEEN = set()


def n_found(ctx):
    """violations with a failing input of the property (correspondence-only reports do not count towards the early stop:
       after a broken correspondence the search for a real failing input goes on)"""
    return sum(1 for _, f in ctx.violations if f)


def corr_once(ctx, key, what, case):
    """a correspondence break (code and model / the code's own other call differ where the statement does not decide):
       reported once per kind, never as a failing input"""
    if key in _CORR_SEEN:
        ctx.count("correspondence_only:" + key)
        return
    _CORR_SEEN.add(key)
    ctx.count("correspondence_only:" + key)
    ctx.violation(what, case, found_input=False, correspondence=key)


def mesh_of(pim):
    """pixel boundaries per axis: the imager's private mesh if it has one, else what the public attributes say"""
    res = tuple(int(x) for x in pim.resolution)
    bp, pp = getattr(pim, "_bpnts", None), getattr(pim, "_ppnts", None)
    if bp is None or pp is None:
        bp = np.linspace(pim.birth_range[0], pim.birth_range[1], res[0] + 1)
        pp = np.linspace(pim.pers_range[0], pim.pers_range[1], res[1] + 1)
    return [float(x) for x in bp], [float(x) for x in pp], res


def imager(case):
    return c04.build_imager(case, c04.Counters())


def arr(d):
    return np.array(d, dtype=np.float64).reshape(-1, 2)


def T(pim, d, skew, **k):
    with np.errstate(all="ignore"):
        return pim.transform(d, skew=skew, **k)


def aeq(a, b):
    """bit-for-bit equality of two images / arrays; a NaN pixel (weight NaN: fractional power of a negative persistence) equals a NaN pixel"""
    a, b = np.asarray(a), np.asarray(b)
    return a.shape == b.shape and bool(np.array_equal(a, b, equal_nan=True))


def aclose(a, b, atol):
    a, b = np.asarray(a), np.asarray(b)
    return a.shape == b.shape and bool(np.allclose(a, b, rtol=0, atol=atol, equal_nan=True))


def both(a, b, atol):
    """(agree to the rounding-level tolerance `atol` = the property's verdict, agree bit for bit = correspondence only)"""
    return aclose(a, b, atol), aeq(a, b)


def is_empty_result(v, res):
    """what `transform` may return for an EMPTY COLLECTION `[]`: the statement fixes only the image of an empty DIAGRAM, so
       an empty sequence of images is as good as the zero image of the configured resolution the present code returns"""
    if isinstance(v, np.ndarray) and v.shape == tuple(res):
        return not v.any()
    return isinstance(v, (list, tuple, np.ndarray)) and len(v) == 0


def rel_scale(ws):
    """total absolute weight (finite ones), NOT floored at 1: with tiny weights an absolute tolerance accepts anything"""
    return max(1e-300, sum(abs(x) for x in ws if math.isfinite(x)))


def total_weight(case, dgm):
    c = dict(case); c["dgm"] = dgm
    ws = c04.weights_independent(c, c04.to_bp(c))
    return ws


# ----------------------------------------------------------------------------- (1) call styles vs the model, exact

def styles_exact(ctx):
    r = ctx.rng
    ensure = getattr(common.pm("images").PersistenceImager, "_ensure_iterable", None)   # private helper: correspondence only
    items, lines = [], []
    for it in range(ctx.n(400, 5000)):
        case = c04.gen_case(ctx, kind="uniform", dyadic=True)
        pim = imager(case)
        bpn, ppn, res = mesh_of(pim)
        STYLES = ["array", "lol", "list_of_arrays", "list_of_lol", "tuple_of_arrays", "array3d", "empty_array", "empty_list",
                  "first_empty", "middle_empty", "all_empty", "single_in_list"]
        style = STYLES[it % len(STYLES)] if it < 2 * len(STYLES) else r.choice(STYLES)     # every style first, then random
        k = r.randint(1, 4)
        dgms = [c04.more_dgm(ctx, case) for _ in range(k)]
        if style in ("array", "lol"):
            inp = ["dgm", case["dgm"] or c04.more_dgm(ctx, case, n=2)]
        elif style == "empty_array":
            inp = ["dgm", []]
        elif style == "empty_list":
            inp = ["coll", []]
        elif style == "array3d":
            n = r.randint(1, 3)
            inp = ["coll", [c04.more_dgm(ctx, case, n=n) for _ in range(k)]]
        else:
            if style == "first_empty":
                dgms[0] = []
            elif style == "middle_empty":
                dgms = dgms + [[]] + [c04.more_dgm(ctx, case, n=2)]
            elif style == "all_empty":
                dgms = [[] for _ in dgms]
            elif style == "single_in_list":
                dgms = [dgms[0] or c04.more_dgm(ctx, case, n=1)]
            inp = ["coll", dgms]
        arg = make_arg(style, inp)
        nj = r.choice([None, None, 1])
        ws = c04.weight_spec(case["weight"])
        ws = ["pers", int(ws[1])] if ws[0] == "pers" else ws
        kk = case["kernel"]
        lines.append("img.coll %d %d %s %s %s %s %s %s %s %s" % (res[0], res[1], enc(bpn), enc(ppn), enc(inp), enc(case["skew"]),
                                                               enc(ws), enc(kk["width"]), enc(kk["height"]), enc(nj)))
        lines.append("img.ensure %s" % enc(inp))
        with np.errstate(all="ignore"):
            # every third call hands `skew` and `n_jobs` over by position (the public signature is
            # transform(pers_dgms, skew=True, n_jobs=None)); a fixed schedule, so the recorded case says which
            case = dict(case, positional=(it % 3 == 1))
            st, v, _ = call_transform(pim, arg, case["skew"], nj, case["positional"])
        est, ev, _ = call(ensure, pim, arg)
        ctx.count("flags_by_position" if case["positional"] else "flags_by_keyword")
        items.append((case, style, inp, nj, st, v, est, ev, res))
    answers = ask(lines)
    for idx, (case, style, inp, nj, st, v, est, ev, res) in enumerate(items):
        ans, eans = answers[2 * idx], answers[2 * idx + 1]
        if ans == "bad-op" or eans == "bad-op":
            raise common.HarnessError("driver rejected: %s" % lines[2 * idx][:300])
        ctx.case({"op": "styles", "style": style, "input": inp, "n_jobs": nj, **{k: case[k] for k in ("birth_range", "pers_range", "pixel_size", "kernel", "weight", "skew", "positional")}},
                 nontrivial=inp[0] == "coll" and len(inp[1]) >= 2, sample_every=41)
        ctx.count("style:" + style)
        code = canon(st, v)
        ok = same_exact(code, ans)
        # _ensure_iterable
        if est == "ok":
            ecode = [len(ev[0]), bool(ev[1])]
            eok = ecode == [int(eans[0]), bool(eans[1])]
        else:
            ecode, eok = "err:" + ev, False
        if ok and eok:
            continue
        # correspondence broke: does one of the property's laws fail on this very input?
        fail = style_laws(case, inp, code, res, nj)
        what = ("transform(%s) differs from the model's transform" % style) if not ok else \
            ("_ensure_iterable gives %r, model %r" % (ecode, eans))
        if fail:
            ctx.violation("%s; %s" % (what, fail), {"op": "styles", "style": style, "input": inp, "n_jobs": nj, **case},
                          found_input=True, correspondence="img.coll")
        else:
            corr_once(ctx, ("img.coll:" + style) if not ok else "img.ensure",
                      "%s; no law of the statement fails on this input" % what,
                      {"correspondence": "img.coll", "line": lines[2 * idx][:1500], "code": code, "model": ans, "style": style})
        if n_found(ctx) > 5:
            return


def call_transform(pim, arg, skew, nj, positional):
    if positional:
        return call(pim.transform, arg, skew, nj)
    return call(pim.transform, arg, skew=skew, n_jobs=nj)


def make_arg(style, inp):
    """the argument handed to `transform` for a call style and the diagrams `inp` (also used by `replay`, so that a recorded
       case is re-run in the call style it failed in)"""
    d = inp[1]
    if style == "array":
        return arr(d)
    if style == "lol":
        return [list(p) for p in d]
    if style == "empty_array":
        return np.zeros((0, 2))
    if style == "empty_list":
        return []
    if style == "array3d":
        return np.array(d, dtype=np.float64).reshape(len(d), len(d[0]), 2)
    if style == "list_of_lol" and all(len(x) > 0 for x in d):
        return [[list(p) for p in x] for x in d]
    if style == "tuple_of_arrays":
        return tuple(arr(x) for x in d)
    if style is None:                                   # replays written before the style was recorded
        return arr(d) if inp[0] == "dgm" else [arr(x) for x in d]
    return [arr(x) for x in d]


def canon(st, v):
    """canonical form of the code's answer.  A tuple (or other sequence) of images is tagged `imgs:<type>`: the statement does
       not fix the container type, so the laws accept it and only the comparison with the model (a list) notices"""
    if st == "err":
        return "err:" + v
    if isinstance(v, np.ndarray) and v.ndim == 2:
        return ["img", v.tolist()]
    if isinstance(v, (list, tuple)) and all(isinstance(x, np.ndarray) for x in v):
        return ["imgs" if isinstance(v, list) else "imgs:%s" % type(v).__name__, [x.tolist() for x in v]]
    return ["other:%s" % type(v).__name__, common.tolist(v)]


def same_exact(code, ans):
    if isinstance(code, str) or isinstance(ans, str):
        return code == ans
    if code[0] != ans[0]:
        return False

    def mat_eq(a, b):
        return len(a) == len(b) and all(len(x) == len(y) and all(Fraction(p) == q for p, q in zip(x, y)) for x, y in zip(a, b))
    if code[0] == "img":
        return mat_eq(code[1], ans[1])
    return len(code[1]) == len(ans[1]) and all(mat_eq(a, b) for a, b in zip(code[1], ans[1]))


def content_laws(case, pim, d, a):
    """additivity and the C04 mass oracle for the image `a` the code produced for diagram `d`"""
    sk = case["skew"]
    if len(d) >= 2:
        k = len(d) // 2
        parts = T(pim, arr(d[:k]), sk) + T(pim, arr(d[k:]), sk)
        sc = rel_scale(total_weight(case, d))
        if not aclose(a, parts, TOL * sc):
            return "image of a %d-point diagram is not the sum of the images of its two halves" % len(d)
    c = dict(case); c["dgm"] = d
    bpn, ppn, res = mesh_of(pim)
    return c04.property_fails(c, a.tolist(), bpn, ppn, res)


def style_laws(case, inp, code, res, nj=None):
    """the statement's laws on the real code for this input (independent of the model).  Images are compared to rounding
       (1e-12 x total absolute weight): the statement's "the same image" is about values, a batched or re-associated
       accumulation that differs in the last bit is a correspondence matter (the exact comparison with the model reports it)"""
    pim = imager(case)
    if isinstance(code, str):
        return "transform raised %s on a valid input" % code[4:]
    if inp[0] == "coll" and len(inp[1]) == 0:
        # an empty COLLECTION: the statement fixes the image of an empty diagram only; [] or zeros are both fine
        v = np.asarray(code[1]) if code[0] == "img" else code[1]
        return None if is_empty_result(v, res) else "transform([]) gives neither an empty list nor an all-zero image of the configured resolution"
    if inp[0] == "dgm":
        if code[0] != "img":
            return "a single diagram did not give a single image (got %s)" % code[0]
        a = np.asarray(code[1])
        if a.shape != tuple(res):
            return "image shape %s is not the configured resolution %s" % (a.shape, tuple(res))
        d = inp[1]
        if len(d) == 0:
            return None if not a.any() else "empty diagram gives a non-zero image"
        sc = rel_scale(total_weight(case, d))
        inside = T(pim, [arr(d)], case["skew"])
        if not (isinstance(inside, (list, tuple)) and len(inside) == 1 and aclose(inside[0], a, TOL * sc)):
            return "image of the diagram alone (n_jobs=%s) differs from its image inside a collection (serial)" % nj
        return content_laws(case, pim, d, a)
    if not code[0].startswith("imgs") or len(code[1]) != len(inp[1]):
        return "a collection of %d diagrams did not give %d images" % (len(inp[1]), len(inp[1]))
    for d, m in zip(inp[1], code[1]):
        a = np.asarray(m)
        if a.shape != tuple(res):
            return "image shape %s is not the configured resolution %s" % (a.shape, tuple(res))
        alone = T(pim, arr(d), case["skew"])
        if not aclose(alone, a, TOL * rel_scale(total_weight(case, d))):
            return "image inside the collection (n_jobs=%s) differs from the image of the diagram alone (serial)" % nj
        f = content_laws(case, pim, d, a)
        if f:
            return f
    return None


# ----------------------------------------------------------------------------- (2) laws on the real code

def eval_laws(case, A, B, C, perm, mixed, with_fit):
    """every law of the statement on the real code for one configuration and the diagrams A, B, C; `perm` a reordering of A+B,
       `mixed` = A with zero-weight points inserted at recorded positions (or None).  Returns {law: (holds, bit_for_bit)}:
       `holds` is the verdict (images agree to 1e-12 x the total absolute weight of the diagrams involved — rounding level,
       relative, no floor); `bit_for_bit` False with `holds` True means the two calls agree to rounding only, which the
       statement allows (a batched / re-associated accumulation) and which is reported as a correspondence break.
       Used by `laws` and by `replay`, so a recorded failure of ANY law is re-evaluated."""
    pim = imager(case)
    res = tuple(int(x) for x in pim.resolution)
    sk = case["skew"]
    wsA, wsB, wsC = total_weight(case, A), total_weight(case, B), total_weight(case, C)
    scA, scB, scC, sc = rel_scale(wsA), rel_scale(wsB), rel_scale(wsC), rel_scale(wsA + wsB)
    IA, IB, IC = T(pim, arr(A), sk), T(pim, arr(B), sk), T(pim, arr(C), sk)
    out = {}

    def allb(*pairs):
        return all(p[0] for p in pairs), all(p[1] for p in pairs)
    # union = sum; permutation  (tolerance only: the statement is about real-number sums)
    IU = T(pim, arr(A + B), sk)
    out["union_is_sum"] = (aclose(IU, IA + IB, TOL * sc), True)
    out["permutation"] = (aclose(T(pim, arr(perm), sk), IU, TOL * sc), True)
    # zero-weight points contribute nothing
    if mixed is not None:
        out["zero_weight_drops"] = both(T(pim, arr(mixed), sk), IA, TOL * scA)
    # empty diagram: zeros of the configured resolution — alone and inside a collection; `[]` (an empty COLLECTION, about
    # which the statement says nothing) may give zeros or an empty list
    E0, E1 = T(pim, np.zeros((0, 2)), sk), T(pim, [], sk)
    EC = T(pim, [arr(A), np.zeros((0, 2))], sk)
    out["empty_is_zero_of_resolution"] = (
        isinstance(E0, np.ndarray) and E0.shape == res and not E0.any() and is_empty_result(E1, res)
        and len(EC) == 2 and np.shape(EC[1]) == res and not np.any(EC[1]),
        isinstance(E1, np.ndarray))
    # alone vs inside a collection (arrays and list-of-lists), order of the collection kept
    coll = T(pim, [arr(A), arr(B), arr(C)], sk)
    if isinstance(coll, (list, tuple)) and len(coll) == 3 and isinstance(IA, np.ndarray) and IA.shape == res:
        out["alone_vs_collection"] = allb(both(coll[0], IA, TOL * scA), both(coll[1], IB, TOL * scB), both(coll[2], IC, TOL * scC))
    else:
        out["alone_vs_collection"] = (False, False)
    lol = T(pim, [list(map(list, A)), list(map(list, C))], sk)
    if isinstance(lol, (list, tuple)) and len(lol) == 2:
        out["list_of_lists_input"] = allb(both(lol[0], IA, TOL * scA), both(lol[1], IC, TOL * scC),
                                          both(T(pim, list(map(list, A)), sk), IA, TOL * scA))
    else:
        out["list_of_lists_input"] = (False, False)
    # birth-death with skew=True  ==  pre-converted birth-persistence with skew=False
    bd = arr(A) if sk else np.column_stack([arr(A)[:, 0], arr(A)[:, 0] + arr(A)[:, 1]])
    pre = np.column_stack([bd[:, 0], bd[:, 1] - bd[:, 0]])
    out["skew_consistency"] = allb(both(T(pim, bd, True), T(pim, pre, False), TOL * scA),
                                   both(T(pim, [bd, bd], True)[1], T(pim, [pre], False)[0], TOL * scA))
    # ... whichever way the flag is handed over: `skew` is the second parameter of the public signatures
    # transform(pers_dgms, skew=True, n_jobs=None), fit(pers_dgms, skew=True), fit_transform(pers_dgms, skew=True), so
    # transform(d, False) IS the call "d is given in birth-persistence form"
    with np.errstate(all="ignore"):
        out["skew_positional"] = allb(both(pim.transform(bd, True), pim.transform(pre, False), TOL * scA),
                                      both(pim.transform([bd], True, None)[0], pim.transform(pre, False, None), TOL * scA))
    # the argument is not modified (the conversion happens on a private copy): bytes of the caller's array, exact
    keep = arr(A); keep0 = keep.copy()
    T(pim, keep, True); T(pim, [keep], True)
    out["argument_untouched"] = (aeq(keep, keep0), True)
    # non-negative weights: no negative pixel, total at most the total weight
    if all(w >= 0 for w in wsA):
        out["nonneg"] = (float(IA.min()) >= -TOL * scA, True)
        out["total_le_weight"] = (float(IA.sum()) <= sum(wsA) + 1e-9 * scA, True)
    # fit_transform = fit; transform   (and on a collection)
    if with_fit:
        p1, p2 = imager(case), imager(case)
        with np.errstate(all="ignore"):
            f1 = p1.fit_transform([arr(A), arr(C)], skew=sk)
            p2.fit([arr(A), arr(C)], skew=sk)
            f2 = p2.transform([arr(A), arr(C)], skew=sk)
        out["fit_transform_is_fit_then_transform"] = allb(both(f1[0], f2[0], TOL * scA), both(f1[1], f2[1], TOL * scC)) \
            if len(f1) == len(f2) == 2 else (False, False)
        # the same diagram in birth-death form and pre-converted (`pre` is exactly what the conversion of `bd` gives, so the
        # fitted ranges coincide), the flag by keyword and by position, through fit_transform and through fit; transform
        p3, p4, p5, p6 = imager(case), imager(case), imager(case), imager(case)
        with np.errstate(all="ignore"):
            g_kw = p3.fit_transform(bd, skew=True)
            g_bd = p4.fit_transform(bd, True)
            g_pre = p5.fit_transform(pre, False)
            p6.fit(pre, False)
            g_fit = p6.transform(pre, False)
        same_geom = all(tuple(q.birth_range) == tuple(p3.birth_range) and tuple(q.pers_range) == tuple(p3.pers_range)
                        and tuple(q.resolution) == tuple(p3.resolution) for q in (p4, p5, p6))
        shapes = all(isinstance(g, np.ndarray) and g.shape == np.shape(g_kw) for g in (g_bd, g_pre, g_fit))
        out["fitted_image_skew_forms"] = allb(both(g_bd, g_kw, TOL * scA), both(g_pre, g_kw, TOL * scA), both(g_fit, g_kw, TOL * scA)) \
            if shapes else (False, False)
        if shapes and out["fitted_image_skew_forms"][0] and not same_geom:
            out["fitted_image_skew_forms"] = (True, False)          # same images, different reported geometry: correspondence only
    nt = sum(1 for ws in (wsA, wsB) if any(w != 0 for w in ws)) == 2 and float(np.abs(IA).sum()) > 0 and float(np.abs(IB).sum()) > 0
    return out, nt


def laws(ctx):
    r = ctx.rng
    for it in range(ctx.n(500, 6000)):
        case = c04.gen_case(ctx, kind=c04.KINDS[it % len(c04.KINDS)] if it < 24 else None)
        A = case["dgm"] or c04.more_dgm(ctx, case, n=2)
        heavy = case["kind"] in ("corr", "corr_eq")         # ~4 ms per point and transform (bvn_cdf): a 300-point case costs ~25 s
        if len(A) >= 257 and heavy and ctx.tier == "quick":
            A = A[:40]                                      # quick tier: the several-hundred-point class runs on the cheap kernels only
        if 8 <= it < 16 and len(A) < 257 and not (heavy and ctx.tier == "quick"):
            # every kernel kind once with a diagram of a few hundred points (blocked / vectorised accumulations change behaviour
            # beyond a block size; C04's generator draws this class only with probability 0.012)
            A = c04.more_dgm(ctx, case, n=r.randint(257, 300) if ctx.tier == "quick" else r.randint(257, 600))
        if len(A) >= 257:
            ctx.count("laws_diagrams_above_256_points")
        B = c04.more_dgm(ctx, case)
        C = c04.more_dgm(ctx, case, n=r.choice([1, 3]))
        perm = list(A + B); r.shuffle(perm)
        zs = zero_weight_points(case, r)
        mixed = None
        if zs:
            mixed = list(A)
            for z in zs:
                mixed.insert(r.randint(0, len(mixed)), z)
            ctx.count("zero_weight_cases")
        with_fit = len(A) >= 1 and it % 3 == 0
        out, nt = eval_laws(case, A, B, C, perm, mixed, with_fit)
        ctx.case({"op": "laws", "A": A, "B": B, "C": C, **{k: case[k] for k in ("birth_range", "pers_range", "pixel_size", "kernel", "weight", "skew")}},
                 nontrivial=nt, sample_every=59)
        ctx.count("kernel:" + case["kind"]); ctx.count("weight:" + case["weight"]["kind"])
        for name, (ok, _) in out.items():
            ctx.test(name, bool(ok))
        bad = [n for n, (ok, _) in out.items() if not ok]
        rounding_only = [n for n, (ok, bit) in out.items() if ok and not bit]
        rec = {"op": "laws", "A": A, "B": B, "C": C, "perm": perm, "mixed": mixed, "zeros": zs, "with_fit": with_fit, **case}
        if bad:
            ctx.violation("image law fails on the real code: %s" % ", ".join(bad), rec, found_input=True, law=bad)
            if n_found(ctx) > 5:
                return
        for n in rounding_only:
            if n == "empty_is_zero_of_resolution":
                corr_once(ctx, "empty_collection", "transform([]) gives an empty sequence where the model gives the zero image; the "
                          "statement fixes the image of an empty DIAGRAM only — correspondence only", {"correspondence": "empty_collection", **rec})
                continue
            corr_once(ctx, "bitwise:" + n,
                      "%s: the two calls agree to rounding (1e-12 x total weight) but not bit for bit; the model is one function of "
                      "the diagram, the statement's 'same image' holds — correspondence only" % n,
                      {"correspondence": "bitwise:" + n, **rec})


def zero_weight_points(case, r):
    """points whose weight is exactly zero, in the call convention of the case"""
    w = case["weight"]
    br, pr = case["birth_range"], case["pers_range"]
    out = []
    if w["kind"] == "persistence":
        for _ in range(r.randint(1, 2)):
            b = r.uniform(br[0], br[1])
            out.append([b, b] if case["skew"] else [b, 0.0])           # persistence 0 -> 0**n = 0
    elif w["kind"] == "linear_ramp" and w["low"] == 0.0:
        for _ in range(r.randint(1, 2)):
            b = r.uniform(br[0], br[1])
            p = w["start"] - r.uniform(0.01, 1.0) * case["pixel_size"]   # below `start`: weight = low = 0
            out.append([b, b + p] if case["skew"] else [b, p])
    elif w["kind"] == "user":
        out.append([0.0, 0.0])                                           # a*|0| + c*0^2 = 0
    elif w["kind"] == "user_alias":
        if c04.user_value(w, 0.0, 1.0) == 0.0:                           # weight = birth: a point born at 0
            x = r.uniform(pr[0], pr[1])
            out.append([0.0, x])
        else:                                                            # weight = persistence: a diagonal point
            b = r.uniform(br[0], br[1])
            out.append([b, b] if case["skew"] else [b, 0.0])
    return out


# ----------------------------------------------------------------------------- [T] schedules

def schedule_eval(case, dgms, nj):
    """`transform(..., n_jobs=nj)` against the serial call, for the collection and for its first diagram alone.
       -> (holds, bit_for_bit, which): verdict to rounding (1e-12 x the diagram's total absolute weight), bits as correspondence"""
    pim = imager(case)
    sk = case["skew"]
    serial = T(pim, dgms, sk)
    scs = [rel_scale(total_weight(case, d.tolist())) for d in dgms]
    with np.errstate(all="ignore"):
        st, par, _ = call(pim.transform, dgms, skew=sk, n_jobs=nj)
    if st == "ok" and isinstance(par, (list, tuple)) and len(par) == len(serial):
        prs = [both(a, b, TOL * sc) for a, b, sc in zip(par, serial, scs)]
        ok, bit = all(p[0] for p in prs), all(p[1] for p in prs)
    else:
        ok, bit = False, False
    one = T(pim, dgms[0], sk)
    with np.errstate(all="ignore"):
        st1, par1, _ = call(pim.transform, dgms[0], skew=sk, n_jobs=nj)
    ok1, bit1 = both(par1, one, TOL * scs[0]) if (st1 == "ok" and isinstance(par1, np.ndarray)) else (False, False)
    which = "collection" if not ok else ("single diagram" if not ok1 else None)
    return ok and ok1, bit and bit1, which


def schedules(ctx):
    r = ctx.rng
    # -1 / -2: joblib's "all cores" / "all but one" — the negative values the docstring's n_jobs admits
    jobs = [1, 2, 4, -1] + ([3, 8, 16, -2] if ctx.thorough else [])
    reps = ctx.n(6, 30)
    confs = []
    for i in range(reps):
        kind = ["corr", "scalar", "uniform", "user_logistic", "diag_ne", "corr_eq", "user_gauss_wrap"][i % 7]
        case = c04.gen_case(ctx, kind=kind)
        k = r.choice([1, 2, 3, 5, 8, 13]) if i else 17
        dgms = [arr(c04.more_dgm(ctx, case, n=r.choice([0, 1, 2, 4]))) for _ in range(k)]
        confs.append((case, dgms))
    # collections with far more diagrams than workers x joblib's batch size (auto-batching groups fast tasks), sizes mixed so
    # that any cost-based ordering of the tasks is a non-trivial permutation
    for kind in ["scalar", "uniform"] + (["diag_ne", "user_logistic"] if ctx.thorough else []):
        case = c04.gen_case(ctx, kind=kind)
        k = r.randint(200, 260) if not ctx.thorough else r.randint(400, 1200)
        dgms = [arr(c04.more_dgm(ctx, case, n=r.choice([0, 1, 1, 2, 3, 5, 9]))) for _ in range(k)]
        confs.append((case, dgms))
        ctx.count("schedule_large_collections")
    import os
    os.environ.setdefault("PYTHONWARNINGS", "ignore")      # inherited by the worker processes (they re-import persim)
    try:
        for nj in jobs:
            for case, dgms in confs:
                ok, bit, which = schedule_eval(case, dgms, nj)
                ctx.test("n_jobs=%d" % nj, ok)
                ctx.count("schedule_runs")
                ctx.count("schedule_diagrams", len(dgms))
                rec = {"op": "schedule", "n_jobs": nj, "dgms": [d.tolist() for d in dgms], **case}
                if not ok:
                    ctx.violation("transform(n_jobs=%d) differs from the serial result (%s, %d diagrams)" % (nj, which, len(dgms)),
                                  rec, found_input=True, law="n_jobs")
                    return
                if not bit:
                    corr_once(ctx, "bitwise:n_jobs", "transform(n_jobs=%d) agrees with the serial result to rounding but not bit for "
                              "bit (joblib as an ordered map of one function gives equal bits) — correspondence only" % nj,
                              {"correspondence": "bitwise:n_jobs", **rec})
    finally:
        try:
            from joblib.externals.loky import get_reusable_executor
            get_reusable_executor().shutdown(wait=True)
        except Exception:
            pass


def pre_build(ctx):
    """source translator: regenerate Generated/SrcImage.lean from PERSIM_ROOT's source"""
    py2lean.pre_build(ctx, ("image",))


def run(ctx):
    py2lean.report_broken(ctx, PROP_FILES)
    ctx.extra["core_theorems"] = CORE_THEOREMS
    ctx.extra["anchored_digest"] = {"images.transform/_ensure_iterable/_transform": common.source_digest(
        "persim/images.py", ["_transform", "transform", "_ensure_iterable", "fit_transform"])}
    cov = common.LineCov(["persim/images.py", "persim/images_weights.py"])
    with cov:
        styles_exact(ctx)
    ctx.extra["branch_hits"] = c04.anchored_only(cov)
    if n_found(ctx) > 5:
        return
    laws(ctx)
    if n_found(ctx) > 5:
        return
    schedules(ctx)
    ctx.extra["schedules_note"] = ("n_jobs streams are tests of runtime behaviour: the model is an ordered map (joblib's contract) "
                                   "and cannot exhibit worker scheduling; that quantifier is covered by [T] only")


def replay(ctx, rep):
    c = rep["case"]
    op = c.get("op")
    if op == "styles":
        pim = imager(c)
        res = tuple(int(x) for x in pim.resolution)
        inp = c["input"]
        arg = make_arg(c.get("style"), inp)                 # the recorded call style (tuple / list of lists / 3-D array ...)
        with np.errstate(all="ignore"):
            st, v, _ = call_transform(pim, arg, c["skew"], c.get("n_jobs"), bool(c.get("positional")))
        code = canon(st, v)
        fail = style_laws(c, inp, code, res, c.get("n_jobs"))
        print("style:", c.get("style"), "| code:", code if isinstance(code, str) else code[0], "| law check:", fail or "holds")
        return fail is None
    if op == "schedule":
        dgms = [arr(d) for d in c["dgms"]]
        try:
            ok, bit, which = schedule_eval(c, dgms, c["n_jobs"])
        finally:
            try:
                from joblib.externals.loky import get_reusable_executor
                get_reusable_executor().shutdown(wait=True)
            except Exception:
                pass
        print("n_jobs=%s vs serial: %s" % (c["n_jobs"], ("equal" if bit else "equal to rounding") if ok else "DIFFERENT (%s)" % which))
        return ok
    if op == "laws":
        A, B, C = c["A"], c["B"], c.get("C") or c["A"]
        mixed = c.get("mixed")
        if mixed is None and c.get("zeros"):               # replays written before the positions were recorded
            mixed = list(A) + c["zeros"]
        out, _ = eval_laws(c, A, B, C, c.get("perm", A + B), mixed, c.get("with_fit", len(A) >= 1))
        print("laws (holds, bit for bit):", out)
        return all(ok for ok, _ in out.values())
    print("correspondence replay: re-run `./check.py C11` with VERIF_SEED=%s" % rep.get("seed"))
    return True


MANIFEST = {
    "text": "Proof (24 theorems, of which 15 core), for the correlated Gaussian and user kernels modulo the kernel being a CDF (C13's partial "
            "part; there the CDF facts are explicit hypotheses): Lean theorems about the model of _transform / _ensure_iterable / transform for "
            "diagrams and collections of every size: image(A ++ B) = image(A) + image(B) pixelwise, invariance under permutation, zero-weight "
            "points drop out, the empty diagram gives zeros of the configured resolution (also via the len==0 early return), a diagram alone "
            "gives the same image as inside a collection at any position (both branches of _ensure_iterable and the IndexError case), "
            "skew=True on (b,d) equals skew=False on (b,d-b) (by construction of the model), non-negative weights and rectangle masses give "
            "non-negative pixels, and the pixels telescope to the kernel's mass of the whole imaged rectangle so the total is at most the total "
            "weight. For the uniform kernel and for the Gaussian kernel with zero covariance (fast path and general path, every monotone Phi "
            "into [0,1]) the two CDF hypotheses are discharged by C13's theorems: nonneg_uniform, nonneg_zero_cov, total_le_weight_uniform, "
            "total_le_weight_zero_cov hold with no kernel hypothesis. Tied to the code on every run: the model's `transform` executed exactly "
            "at Rat against the real transform on every call style (exact equality), `_ensure_iterable` against `ensureIterable`, and each "
            "law evaluated on the real code for all kernel and weight kinds, including diagrams with points below the diagonal.",
    "note": "Trusted: Lean kernel + Mathlib (axioms propext/Classical.choice/Quot.sound); the correspondence harness; joblib.Parallel as an ordered "
            "map. 'Processed serially or by parallel workers, every n_jobs / worker scheduling' is runtime behaviour the functional model cannot "
            "exhibit: it is covered ONLY by the [T] schedule stream (n_jobs in {1,2,4,-1}, thorough also {3,8,16,-2}, collections of 1-17 diagrams "
            "and of 200+ small diagrams, against the serial result; verdict to rounding, a bit-level difference is a correspondence break). Non-negativity and total <= total weight for the CORRELATED Gaussian (bvn_cdf) rest on "
            "the hypotheses of `nonneg` / `total_le_weight` and are covered by the [T] streams `nonneg` / `total_le_weight` only. Float "
            "rounding is outside the theorems (all image comparisons decided to 1e-12 x total absolute weight, no floor at 1; NaN images "
            "from a fractional power of a negative persistence compared as NaN). What the statement leaves open is never a failing input: "
            "`transform([])` (an empty COLLECTION) may give zeros or an empty list, the container may be a list or a tuple, private "
            "helpers / mesh attributes are read for the correspondence only.",
    "technique": "Lean 4 theorems over a hand-written model + exact differential correspondence + metamorphic tests on the real code",
}
MANIFEST["note"] += " " + py2lean.manifest_note("image")
