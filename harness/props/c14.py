"""C14 — the heat-kernel distance is a real pseudo-metric, stable w.r.t. Wasserstein.

Theorems: lean/PersimVerif/Props/C14.lean (model lean/PersimVerif/Model/Heat.lean at the reals with Real.exp).
Tie: `heat` (and, as long as it exists with this signature, the private helper `persim.heat.evalHeatKernel`) vs the same model
     executed at Float (driver op `heat`): the clamped root, and the three kernel values / the radicand
     k(F,F)+k(G,G)-2k(F,G) of the helper.  The helper is correspondence-only: a renamed helper, or a normalisation moved from
     the helper into `heat`, is reported as `no-failing-input-found`.
[T]: the laws of the statement evaluated on the real code through `heat(...)` alone (rounding is outside every theorem), with
     tolerances relative to the kernel values of the independently written DEFINITION — finite, >= 0, never NaN (the pre-fix
     failure on reordered equal diagrams), `heat**2` = the definition's radicand, zero for reorderings, symmetry, diagonal
     points, diagonal translation, triangle inequality and `<= W1/(4 sigma sqrt(pi))` (reference: persim's wasserstein, see
     `w1`); a larger-size class (60-120 points, thorough 60-200; the definition as a numpy double sum over coordinate
     differences); a representation stream (integer dtypes of every width, nested lists, tuples) with the finite / never-NaN /
     definition checks on the same numbers (the pre-fix wrap-around on unsigned diagrams), equality with the float64 call to
     the radicand's rounding tolerance (bit-level equality is a correspondence signal); arrays with a third column are outside
     "finite diagrams" and are correspondence-only.
"""
import math
import numpy as np
from .. import common
from ..translator import py2lean
from ..common import enc, ask, call

LEVEL = "proof"
TRUSTED = [py2lean.trusted_note("heat")]
PROP_FILES = ["PersimVerif/Props/C14.lean", py2lean.prop_file("heat"), "PersimVerif/Props/C15C14Model.lean"]
RULE = ("pairs/triples of diagrams from one PRNG: sizes 0-8 (thorough 0-14), coordinates from lattice/half/dyadic/decimal/"
        "uniform modes (scales 2^-20..2^20), duplicates and diagonal points; kinds random / reordered-equal / nearly-equal "
        "(relative perturbation 1e-3..1e-15) / one or both empty; sigma = 10^U(-3,3), with prob 0.7 multiplied by the squared "
        "coordinate scale so that the kernel is neither all-zero nor flat; non-trivial = both diagrams have an off-diagonal "
        "point and k(F,G) is above the rounding floor; distinct by digest of (F, G, sigma); a representation stream stores "
        "small-integer diagrams as uint8/int8/uint16/int32/int64/float32 arrays, nested lists, tuples of tuples (and, correspondence "
        "only, arrays with a third column) and compares with the float64 call and the definition; a larger-size class of 8 (thorough "
        "40) pairs of 60-120 (60-200) points, kinds random / reordered-equal / nearly-equal / large offset with small spread")
ASSUMPTIONS = [
    "inputs are finite (n,2) arrays or empty lists and sigma > 0 is a finite float (the code has no guard on sigma; the property quantifies over sigma > 0)",
    "np.exp/np.sqrt agree with the model's Float.exp/Float.sqrt up to rounding: kernel values compared to 1e-9 relative plus a "
    "rounding floor of 1e-14 per summand of the double loop (each summand is a difference of two numbers in [0,1])",
    "theorems are exact-arithmetic over the reals; rounding (what made the pre-fix radicand negative) is covered only by the [T] streams",
    "the verdict of every law is taken from heat(...) and the independently written definition only; persim.heat.evalHeatKernel (private) "
    "is compared with the model as a correspondence signal and may be renamed / re-normalised without a claimed failing input",
]
RTOL = 1e-9
FLOOR = 1e-14      # absolute rounding floor per summand exp(..)-exp(..) of the double loop
STATS = {"w1_reference_persim": 0, "w1_reference_own_persim_within_rotation_rounding": 0, "w1_reference_own": 0}
# theorems that carry a clause of the statement (helper lemmas, concrete instances and rfl restatements such as
# heat_eq_closed_form / kSum_eq_sum are not in this list)
CORE_THEOREMS = ["heat_eq_sqrt_d2", "kernel_psd", "heat_self_perm", "heat_symm", "heat_ignores_diagonal", "heat_translate",
                 "heat_triangle", "w1_stability_bound", "w1_stability",
                 # composed with the C02 model (Props/C15C14Model.lean)
                 "wsReturns_isW1", "model_heat_le_model_wasserstein"]


def H():
    return common.pm("heat")


def W():
    return common.pm("wasserstein")


def arr(d):
    return np.array(d, dtype=float).reshape(-1, 2)


def code_k(F, G, sigma):
    """the PRIVATE helper `evalHeatKernel` in the harness's own call convention: correspondence only (compared with the model's
       kernel values).  None if the helper is gone, takes other arguments or does not return a number — the verdict never
       depends on it (see `eval_case`: `heat(...)**2` against the definition)"""
    f = getattr(H(), "evalHeatKernel", None)
    if f is None:
        return None
    with np.errstate(all="ignore"):
        try:
            return float(f(arr(F), arr(G), sigma))
        except Exception:
            return None


def code_heat(F, G, sigma):
    with np.errstate(all="ignore"):
        st, v, _ = call(H().heat, arr(F), arr(G), sigma)
    if st == "err":
        return "err:" + v
    try:
        return float(v)
    except (TypeError, ValueError):
        return "err:not-a-number(%s)" % type(v).__name__


def spec_k(F, G, sigma):
    """the multi-scale kernel of Reininghaus et al., written independently: math.exp / fsum for small diagrams, the same
       double sum over numpy arrays of coordinate DIFFERENCES (fsum of the summands) above 400 pairs"""
    if len(F) * len(G) > 400:
        A, B = arr(F), arr(G)
        d00 = A[:, None, 0] - B[None, :, 0]; d11 = A[:, None, 1] - B[None, :, 1]
        d01 = A[:, None, 0] - B[None, :, 1]; d10 = A[:, None, 1] - B[None, :, 0]
        with np.errstate(all="ignore"):
            t = np.exp(-(d00 * d00 + d11 * d11) / (8 * sigma)) - np.exp(-(d01 * d01 + d10 * d10) / (8 * sigma))
        return math.fsum(t.ravel().tolist()) / (8 * math.pi * sigma)
    t = []
    for (a, b) in F:
        for (c, d) in G:
            t.append(math.exp(-((a - c) ** 2 + (b - d) ** 2) / (8 * sigma)))
            t.append(-math.exp(-((a - d) ** 2 + (b - c) ** 2) / (8 * sigma)))
    return math.fsum(t) / (8 * math.pi * sigma)


def spec_ks(F, G, sigma):
    """[k(F,F), k(G,G), k(F,G)] of the definition: what every tolerance is relative to"""
    return [spec_k(F, F, sigma), spec_k(G, G, sigma), spec_k(F, G, sigma)]


def spec_d2(F, G, sigma):
    return spec_k(F, F, sigma) + spec_k(G, G, sigma) - 2 * spec_k(F, G, sigma)


def floor_k(n1, n2, sigma):
    """rounding floor of one kernel value"""
    return FLOOR * n1 * n2 / (8 * math.pi * sigma)


def d2_tol(F, G, sigma, ks, rtol=RTOL):
    """tolerance for the radicand: rtol relative to the kernel values involved + the rounding floor of its summands"""
    n1, n2 = len(F), len(G)
    return rtol * (abs(ks[0]) + abs(ks[1]) + 2 * abs(ks[2])) + floor_k(n1, n1, sigma) + floor_k(n2, n2, sigma) + 2 * floor_k(n1, n2, sigma) + 1e-300


def w1_persim(A, B):
    import warnings
    with warnings.catch_warnings():
        warnings.simplefilter("ignore")
        return float(W().wasserstein(arr(A), arr(B)))


def w1_own(A, B):
    """1-Wasserstein distance (Euclidean ground metric, Euclidean distance to the diagonal) from differences of coordinates,
    written independently of persim"""
    from scipy.optimize import linear_sum_assignment
    n, m = len(A), len(B)
    if n + m == 0:
        return 0.0
    D = np.zeros((n + m, n + m))
    for i in range(n):
        for j in range(m):
            D[i, j] = math.hypot(A[i][0] - B[j][0], A[i][1] - B[j][1])
        D[i, m:] = abs(A[i][1] - A[i][0]) / math.sqrt(2.0)
    for j in range(m):
        D[n:, j] = abs(B[j][1] - B[j][0]) / math.sqrt(2.0)
    r, c = linear_sum_assignment(D)
    return float(D[r, c].sum())


def w1(A, B):
    """reference W1; returns (value, which).  `persim.wasserstein` is difference-based since /repo 6c9bac1 (it no longer
    goes through sklearn's expanded |x|^2+|y|^2-2xy), so it is the reference at every scale; what is left is the rounding
    of its 45-degree rotation onto the diagonal ((d*cos - b*sin) with cos(pi/4) != sin(pi/4) in the last bit), an absolute
    error of <= 4.5e-16 * sum|coordinates| (measured over 12000 generated pairs) that is visible only when W1 itself is
    that small (diagonal points, nearly equal diagrams at 2^20).  There the difference-based value is used and the
    agreement up to that rounding is counted; a disagreement beyond it would make `own` the reference and is counted
    separately (0 on the current tree)."""
    own, per = w1_own(A, B), w1_persim(A, B)
    if abs(own - per) <= 1e-9 * abs(own) + 1e-300:
        STATS["w1_reference_persim"] += 1
        return per, "persim"
    if abs(own - per) <= 2e-15 * math.fsum(abs(x) for d in (A, B) for p in d for x in p[:2]):
        STATS["w1_reference_own_persim_within_rotation_rounding"] += 1
        return own, "own (persim agrees up to the rounding of its rotation)"
    STATS["w1_reference_own"] += 1
    return own, "own"


def span_of(*dgms):
    return max([0.0] + [abs(x) for d in dgms for p in d for x in p])


def root_err(tau, h):
    """how much sqrt(max(d2,0)) can move when d2 moves by tau"""
    return min(math.sqrt(tau), tau / (2 * h)) if h > 0 else math.sqrt(tau)


# ----------------------------------------------------------------------------- generators

def gen_sigma(ctx, dgms):
    r = ctx.rng
    s = 10.0 ** r.uniform(-3, 3)
    if r.random() < 0.15:
        s = r.choice([1e-3, 0.4, 1.0, 1e3])
    sp = span_of(*dgms)
    if sp > 0 and r.random() < 0.7:
        # a typical squared distance between points, so that exponents are O(1)/sigma_rel
        s *= sp * sp
    return min(max(s, 1e-290), 1e290)


def gen_pair(ctx, nmax):
    g, r = ctx.gen, ctx.rng
    kind = r.choice(["random"] * 4 + ["perm", "perm", "near", "near", "empty1", "empty2"])
    F = g.diagram(nmax, allow_diag=True, allow_empty=(kind not in ("perm", "near")), dup=0.2)
    if kind == "perm":
        G = [list(p) for p in F]
        r.shuffle(G)
    elif kind == "near":
        eta = r.choice([1e-3, 1e-6, 1e-9, 1e-12, 1e-15])
        G = [sorted([p[0] * (1 + eta * r.uniform(-1, 1)), p[1] * (1 + eta * r.uniform(-1, 1))]) for p in F]   # keeps birth <= death
        if r.random() < 0.5:
            r.shuffle(G)
    elif kind == "empty1":
        F, G = [], g.diagram(nmax)
    elif kind == "empty2":
        F, G = [], []
    else:
        G = g.diagram(nmax, allow_diag=True, dup=0.2)
    if r.random() < 0.5:
        F, G = G, F
    return F, G, kind


# ----------------------------------------------------------------------------- the property on the real code

def kvals(F, G, sigma):
    """the private helper's three kernel values, or None (correspondence only)"""
    v = [code_k(F, F, sigma), code_k(G, G, sigma), code_k(F, G, sigma)]
    return None if any(x is None for x in v) else v


def eval_case(c, hf=None):
    """evaluate one recorded check on the real code THROUGH `heat` ONLY; returns (ok, info).  Tolerances are relative to the
       kernel values of the definition (`spec_ks`), never to what a private helper returns.  `hf` = a memoising stand-in for
       `code_heat` (the large-size stream evaluates several laws on the same pair)"""
    hf = hf or code_heat
    k = c["kind"]
    F, G, sigma = c["F"], c["G"], c["sigma"]
    h = hf(F, G, sigma)
    if k == "finite":
        return (not isinstance(h, str)) and math.isfinite(h) and h >= 0.0, {"heat": h}
    if isinstance(h, str) or not math.isfinite(h):
        return False, {"heat": h}
    if k == "representation":
        return rep_eval(F, G, sigma, c["repF"], c["repG"])
    ks = spec_ks(F, G, sigma)
    tau = d2_tol(F, G, sigma, ks)
    if k == "spec":
        # the value is the clamped root of k(F,F)+k(G,G)-2k(F,G) for the multi-scale kernel (compared as squares)
        d2 = ks[0] + ks[1] - 2 * ks[2]
        okh = abs(h * h - max(d2, 0.0)) <= tau
        return okh, {"heat^2": h * h, "definition dist^2": d2, "definition k(F,F),k(G,G),k(F,G)": ks, "tol": tau}
    if k == "perm":
        # a diagram and any reordering of itself: distance (numerically) zero
        Fp = c["Fp"]
        z = hf(F, Fp, sigma)
        kff = abs(ks[0])
        tol = math.sqrt(d2_tol(F, F, sigma, [kff, kff, kff], rtol=1e-12))
        return (not isinstance(z, str)) and math.isfinite(z) and 0.0 <= z <= tol, {"heat(F, perm F)": z, "tol": tol, "k(F,F)": ks[0]}
    if k == "symm":
        w = hf(G, F, sigma)
        return (not isinstance(w, str)) and math.isfinite(w) and abs(h * h - w * w) <= tau, {"heat(F,G)": h, "heat(G,F)": w, "tol(dist^2)": tau}
    if k == "diag":
        F2, G2 = c["F2"], c["G2"]
        w = hf(F2, G2, sigma)
        tau2 = d2_tol(F2, G2, sigma, ks)
        return (not isinstance(w, str)) and math.isfinite(w) and abs(h * h - w * w) <= tau2, {"heat": h, "with diagonal points": w, "tol(dist^2)": tau2}
    if k == "translate":
        t = c["t"]
        F2 = [[p[0] + t, p[1] + t] for p in F]
        G2 = [[p[0] + t, p[1] + t] for p in G]
        # rounding of (p+t)-(q+t): each coordinate difference moves by <= delta; exp(-d^2/(8 sigma)) then moves by
        # <= sup_d exp(-d^2/8s) * 2 d delta/(8s) <= 0.31 delta/sqrt(s) per coordinate
        delta = 4 * 2.3e-16 * (abs(t) + span_of(F, G))
        per = 8 * 0.31 * delta / math.sqrt(sigma)
        n1, n2 = len(F), len(G)
        tau2 = tau + per * (n1 * n1 + n2 * n2 + 2 * n1 * n2) / (8 * math.pi * sigma)
        w = hf(F2, G2, sigma)
        return (not isinstance(w, str)) and math.isfinite(w) and abs(h * h - w * w) <= tau2, {"heat": h, "translated": w, "tol(dist^2)": tau2}
    if k == "triangle":
        C = c["C"]
        x, y = hf(F, C, sigma), hf(C, G, sigma)
        if isinstance(x, str) or isinstance(y, str) or not (math.isfinite(x) and math.isfinite(y)):
            return False, {"heat(F,C)": x, "heat(C,G)": y}
        slack = root_err(tau, h) + root_err(d2_tol(F, C, sigma, spec_ks(F, C, sigma)), x) + root_err(d2_tol(C, G, sigma, spec_ks(C, G, sigma)), y)
        return h <= x + y + slack, {"heat(F,G)": h, "heat(F,C)": x, "heat(C,G)": y, "slack": slack}
    if k == "w1":
        w, which = w1(F, G)
        bound = w / (4 * sigma * math.sqrt(math.pi))
        slack = root_err(d2_tol(F, G, sigma, ks, rtol=1e-12), h) + 1e-9 * bound
        return h <= bound + slack, {"heat": h, "W1/(4 sigma sqrt pi)": bound, "W1": w, "W1 reference": which, "slack": slack}
    raise common.HarnessError("unknown case kind %r" % k)


def laws_for(ctx, F, G, C, sigma):
    r = ctx.rng
    base = {"F": F, "G": G, "sigma": sigma}
    out = [dict(base, kind="finite")]
    Fp = [list(p) for p in F]
    r.shuffle(Fp)
    out.append(dict(base, kind="perm", Fp=Fp))
    out.append(dict(base, kind="symm"))
    sp = max(span_of(F, G), 2.0 ** -20)

    def with_diag(D):
        D2 = [list(p) for p in D]
        for _ in range(r.randint(1, 3)):
            a = r.choice([0.0, sp, -sp, 0.5 * sp, float(r.randint(-6, 6)), r.uniform(-sp, sp)])
            if D and r.random() < 0.5:           # on the diagonal right below/above an existing point
                a = r.choice(D)[r.randint(0, 1)]
            D2.insert(r.randint(0, len(D2)), [a, a])
        return D2
    out.append(dict(base, kind="diag", F2=with_diag(F), G2=with_diag(G) if r.random() < 0.7 else [list(p) for p in G]))
    out.append(dict(base, kind="translate", t=r.choice([sp, -sp, 0.5 * sp, -3.0 * sp, 100.0 * sp, -1000.0 * sp, 1.0, -7.0, r.uniform(-sp, sp)])))
    out.append(dict(base, kind="triangle", C=C))
    out.append(dict(base, kind="w1"))
    return out


def fail(ctx, what, case, info, **more):
    ctx.violation("%s: %s" % (what, info), case, found_input=True, **more)


def n_found(ctx):
    """violations that carry a failing input; correspondence-only reports do not stop the search"""
    return sum(1 for _, f in ctx.violations if f)


_CORR = {}


def corr_limited(ctx, key, what, case, limit=1):
    """correspondence-only report (`no-failing-input-found`), at most `limit` per kind; further ones are counted"""
    _CORR[key] = _CORR.get(key, 0) + 1
    ctx.count("correspondence_only:" + key)
    if _CORR[key] <= limit:
        ctx.violation(what, case, found_input=False, correspondence=key)


def search_failing_input(ctx, F, G, sigma, line, code, model):
    spec_case = {"kind": "spec", "F": F, "G": G, "sigma": sigma}
    todo = [dict(spec_case, kind="finite"), spec_case] + laws_for(ctx, F, G, ctx.gen.diagram(6), sigma)[1:]
    for lc in todo:
        ok, info = eval_case(lc)
        if not ok:
            what = {"finite": "heat is not a finite non-negative number",
                    "spec": "heat differs from sqrt(k(F,F)+k(G,G)-2k(F,G)) for the multi-scale kernel"}.get(
                        lc["kind"], "heat-kernel law `%s` fails on the real code" % lc["kind"])
            fail(ctx, what, lc, info, correspondence="heat", model=model)
            return True
    corr_limited(ctx, "heat", "code and model of heat differ but the definition and all laws hold on this input: code=%r model=%r" % (code, model),
                 {"correspondence": "heat", "line": line[:2000], "code": code, "model": model, "F": F, "G": G, "sigma": sigma}, limit=3)
    return False


# ----------------------------------------------------------------------------- run

def pre_build(ctx):
    """source translator (DESIGN.md 3.2): regenerate Generated/SrcHeat.lean from PERSIM_ROOT's source"""
    py2lean.pre_build(ctx, ("heat",))


def run(ctx):
    py2lean.report_broken(ctx, PROP_FILES)
    ctx.extra["source_digest"] = {"persim/heat.py": common.source_digest("persim/heat.py", ["heat", "evalHeatKernel"])}
    nmax = 14 if ctx.thorough else 8
    corpus = [
        ([], [], 0.4), ([[0.5, 1.0]], [[0.5, 1.1]], 0.4), ([[0.5, 1.0]], [[0.5, 1.5]], 0.4),
        ([[0.11371516, 4.45734882]], [[0.11371516, 4.45734882]], 0.4),
        ([[0.0, 1.0], [2.0, 5.0]], [], 1.0), ([[2.0, 2.0]], [[0.0, 1.0]], 1.0),
        # reordered equal diagrams (the pre-fix NaN family)
        ([[0.1, 0.7], [0.2, 0.9], [0.3, 1.3]], [[0.3, 1.3], [0.1, 0.7], [0.2, 0.9]], 0.4),
        ([[0.31, 1.17], [0.05, 0.93], [0.47, 0.61], [0.2, 0.9]], [[0.2, 0.9], [0.47, 0.61], [0.31, 1.17], [0.05, 0.93]], 0.137),
        ([[0.1, 1.8], [0.1, 1.5]], [[0.1, 1.5], [0.1, 1.8]], 0.5),       # the input of Props/C14.old_heat_counterexample
    ]
    cases, lines = [], []
    n = ctx.n(2000, 24000)
    for i in range(n + len(corpus)):
        if i < len(corpus):
            (F, G, sigma), kind = corpus[i], "corpus"
        else:
            F, G, kind = gen_pair(ctx, nmax)
            sigma = gen_sigma(ctx, [F, G])
        cases.append((F, G, sigma, kind))
        lines.append("heat %s %s %s" % (enc(F), enc(G), enc(sigma)))
    answers = ask(lines)
    worst = 0.0
    cov = common.LineCov(["persim/heat.py"])
    for j, ((F, G, sigma, kind), ans, line) in enumerate(zip(cases, answers, lines)):
        if j < 40:
            with cov:
                h = code_heat(F, G, sigma)
        else:
            h = code_heat(F, G, sigma)
        ks = kvals(F, G, sigma)                       # private helper: None if it cannot be called as before
        if isinstance(ans, str) or len(ans) != 6:
            raise common.HarnessError("driver answered %r to %s" % (ans, line[:200]))
        mk = [float(x) for x in ans[:3]]
        md2, mh = float(ans[3]), float(ans[4])
        n1, n2 = len(F), len(G)
        offd = lambda D: any(p[0] != p[1] for p in D)
        nontriv = offd(F) and offd(G) and abs(mk[2]) > 100 * floor_k(n1, n2, sigma)
        ctx.case({"op": "heat", "F": F, "G": G, "sigma": sigma}, nontriv, sample_every=173)
        ctx.count("kind:" + kind)
        ctx.count("sigma:1e%+d" % (3 * math.floor(math.log10(sigma) / 3)) if 1e-9 < sigma < 1e15 else "sigma:extreme")
        ctx.count("sizes:%s" % ("0" if not F and not G else "one-empty" if not F or not G else "<=4" if n1 + n2 <= 4 else "<=10" if n1 + n2 <= 10 else ">10"))
        if ks is None:
            corr_limited(ctx, "helper:evalHeatKernel", "persim.heat.evalHeatKernel cannot be called as evalHeatKernel(dgm1, dgm2, sigma) any "
                         "more (private helper); only heat() itself is compared with the model from here on",
                         {"correspondence": "helper:evalHeatKernel"})
        # heat() itself against the model: tolerance relative to the MODEL's kernel values (all finite for these inputs)
        tau = d2_tol(F, G, sigma, mk)
        agree = not isinstance(h, str) and math.isfinite(h) and all(math.isfinite(x) for x in mk + [md2, mh])
        agree = agree and abs(h * h - max(md2, 0.0)) <= tau and abs(h * h - mh * mh) <= tau
        if agree and ks is not None:
            sizes = [(n1, n1), (n2, n2), (n1, n2)]
            agree = all(math.isfinite(x) for x in ks) and \
                all(abs(a - b) <= RTOL * max(abs(a), abs(b)) + floor_k(p, q, sigma) + 1e-300 for a, b, (p, q) in zip(ks, mk, sizes))
            cd2 = ks[0] + ks[1] - 2 * ks[2]
            agree = agree and abs(cd2 - md2) <= tau
            sc = abs(ks[0]) + abs(ks[1]) + 2 * abs(ks[2])
            if agree and sc > 0:
                worst = max(worst, abs(cd2 - md2) / sc)
        if md2 < 0:
            ctx.count("radicand_negative_before_clamp")
        if not agree:
            search_failing_input(ctx, F, G, sigma, line, {"k": ks, "heat": h}, {"k": mk, "dist2": md2, "heat": mh})
            if n_found(ctx) > 5:
                return
    ctx.extra["max_code_model_discrepancy_dist2_rel"] = worst
    ctx.extra["branch_hits"] = cov.summary()
    ctx.extra["core_theorems"] = CORE_THEOREMS
    representations(ctx)
    if n_found(ctx) > 5:
        return
    laws(ctx, nmax)
    if n_found(ctx) > 5:
        return
    large(ctx)


def laws(ctx, nmax):
    """[T] the laws of the statement (and the definition) on the real code"""
    r = ctx.rng
    for i in range(ctx.n(800, 9000)):
        F, G, kind = gen_pair(ctx, min(nmax, 10))
        C = ctx.gen.diagram(min(nmax, 10), allow_diag=True)
        if r.random() < 0.3 and F:                         # a third diagram close to the first: sharp triangle / stability cases
            eta = r.choice([1e-2, 1e-5, 1e-8])
            C = [sorted([p[0] * (1 + eta * r.uniform(-1, 1)), p[1] * (1 + eta * r.uniform(-1, 1))]) for p in F]
        sigma = gen_sigma(ctx, [F, G, C])
        todo = laws_for(ctx, F, G, C, sigma)
        if i % 3 == 0:
            todo.append({"kind": "spec", "F": F, "G": G, "sigma": sigma})
        for lc in todo:
            ok, info = eval_case(lc)
            ctx.test(lc["kind"] if lc["kind"] != "spec" else "definition", ok)
            if not ok:
                fail(ctx, "heat-kernel law `%s` fails on the real code" % lc["kind"], lc, info, law=True)
                if n_found(ctx) > 5:
                    return
    ctx.extra["w1_reference"] = dict(STATS)


def large(ctx):
    """[T] diagrams of 60-120 points (thorough 60-200): blocked / vectorised rewrites of the double loop behave differently
       only beyond small sizes.  finite, the definition (numpy double sum over coordinate differences, fsum), zero between
       reorderings, symmetry — each pair's heat values are computed once and shared by the laws"""
    r, g = ctx.rng, ctx.gen
    lo, hi = (60, 200) if ctx.thorough else (60, 120)
    for i in range(ctx.n(8, 40)):
        kind = ["random", "perm", "near", "offset"][i % 4]
        mode = r.choice(["lattice", "half", "dec", "unif", "dyadic"]) if kind != "offset" else "dec"
        n1 = r.randint(lo, hi)
        F = [g.bar(mode, allow_diag=True) for _ in range(n1)]
        if kind == "offset":                               # large offset, small spread (expanded |p|^2+|q|^2-2<p,q> cancels here)
            off = r.choice([1e4, 1e5, 1e6, 1e7])
            F = [[p[0] + off, p[1] + off] for p in F]
        if kind == "perm":
            G = [list(p) for p in F]; r.shuffle(G)
        elif kind in ("near", "offset"):
            eta = r.choice([1e-3, 1e-6, 1e-9, 1e-12])
            G = [sorted([p[0] * (1 + eta * r.uniform(-1, 1)), p[1] * (1 + eta * r.uniform(-1, 1))]) for p in F]
            r.shuffle(G)
            G = G[:r.randint(lo, len(G))] if len(G) > lo else G
        else:
            G = [g.bar(mode, allow_diag=True) for _ in range(r.randint(lo, hi))]
        sigma = gen_sigma(ctx, [F, G]) if kind != "offset" else 10.0 ** r.uniform(-1, 2)
        memo = {}

        def hf(A, B, s_):
            key = (id(A), id(B))
            if key not in memo:
                memo[key] = code_heat(A, B, s_)
            return memo[key]
        Fp = [list(p) for p in F]; r.shuffle(Fp)
        base = {"F": F, "G": G, "sigma": sigma}
        ctx.case({"op": "large", "n": [len(F), len(G)], "kind": kind, "sigma": sigma, "F0": F[:2]}, True)
        ctx.count("large:" + kind)
        for lc in (dict(base, kind="finite"), dict(base, kind="spec"), dict(base, kind="perm", Fp=Fp), dict(base, kind="symm")):
            ok, info = eval_case(lc, hf)
            ctx.test("large_" + (lc["kind"] if lc["kind"] != "spec" else "definition"), ok)
            if not ok:
                fail(ctx, "heat-kernel law `%s` fails on the real code for diagrams of %d and %d points" % (lc["kind"], len(F), len(G)),
                     lc, info, law=True)
                if n_found(ctx) > 5:
                    return
                break


REPS = ["uint8", "int8", "uint16", "int32", "int64", "float32", "lists", "tuples", "extra_column"]


def as_rep(D, rep):
    if rep == "lists":
        return [[int(p[0]), int(p[1])] for p in D]
    if rep == "tuples":
        return tuple((int(p[0]), int(p[1])) for p in D)
    if rep == "extra_column":
        return np.array([[p[0], p[1], 3] for p in D], dtype="int64").reshape(-1, 3)
    return np.array(D, dtype=rep).reshape(-1, 2)


def rep_eval(F, G, sigma, repF, repG):
    """heat on a stored representation of small-integer diagrams: finite, never NaN, the definition's value on the same numbers
       and the value of the float64 call (the conversion is exact) — both to the rounding tolerance of the radicand.  Bit-for-bit
       equality with the float64 call is reported in info["bitwise"] (correspondence only)."""
    with np.errstate(all="ignore"):
        st, v, _ = call(H().heat, as_rep(F, repF), as_rep(G, repG), sigma)
    try:
        h = ("err:" + v) if st == "err" else float(v)
    except (TypeError, ValueError):
        h = "err:not-a-number"
    Ff = [[float(p[0]), float(p[1])] for p in F]
    Gf = [[float(p[0]), float(p[1])] for p in G]
    ref = code_heat(Ff, Gf, sigma)
    info = {"heat(representation)": h, "heat(float64 arrays)": ref}
    if isinstance(h, str) or not math.isfinite(h) or h < 0:
        return False, info
    sk = spec_ks(Ff, Gf, sigma)
    d2 = sk[0] + sk[1] - 2 * sk[2]
    tau = d2_tol(Ff, Gf, sigma, sk)
    info["definition dist^2"] = d2
    okd = abs(h * h - max(d2, 0.0)) <= tau
    same = (not isinstance(ref, str)) and math.isfinite(ref) and abs(h * h - ref * ref) <= tau
    info["bitwise"] = (h == ref)
    return okd and same, info


def representations(ctx):
    """[T] fix 433e88f (`np.array(dgm, dtype=float)`): the value must not depend on how the numbers are stored.  Arrays with a
       third column are NOT diagrams in the statement's sense ("finite diagrams": (n,2)); the present code ignores further
       columns, so they are run too, but a different behaviour there (e.g. a shape validation that raises) is a correspondence
       break, not a failing input"""
    r = ctx.rng
    for i in range(ctx.n(270, 2700)):
        repF = REPS[i % len(REPS)]
        repG = repF if r.random() < 0.7 else r.choice(REPS)
        signed = all(x in ("int8", "int32", "int64", "lists", "tuples", "extra_column") for x in (repF, repG))
        lo = -40 if signed else 0

        def dgm(n0):
            out = []
            for _ in range(r.randint(n0, 5)):
                b = r.randint(lo, 90)
                out.append([b, b + r.randint(0, 30)])
            return out
        F, G = dgm(0), dgm(1)
        if r.random() < 0.25:
            G = [list(p) for p in F]
            r.shuffle(G)
        if r.random() < 0.5:
            F, G = G, F
        sigma = r.choice([0.4, 1.0, 5.0, 50.0, 400.0])
        ok, info = rep_eval(F, G, sigma, repF, repG)
        case = {"kind": "representation", "F": F, "G": G, "sigma": sigma, "repF": repF, "repG": repG}
        outside = "extra_column" in (repF, repG)
        ctx.case({"op": "representation", "F": F, "G": G, "sigma": sigma, "repF": repF, "repG": repG}, bool(F) and bool(G), sample_every=61)
        ctx.count("representation:" + repF)
        if outside:
            ctx.count("representation_outside_the_quantifier_(third_column)")
            if not ok:
                corr_limited(ctx, "extra_column", "heat on an array with a third column no longer gives the value of its first two columns "
                             "(%s); such arrays are outside the statement's 'finite diagrams' — correspondence only" % (info,),
                             dict(case, correspondence="extra_column"))
            continue
        ctx.test("representation", ok)
        if not ok:
            fail(ctx, "heat depends on the stored representation (%s, %s) of the same numbers / is not the definition's value" % (repF, repG),
                 case, info, law=True)
            if n_found(ctx) > 5:
                return
        elif not info.get("bitwise", True):
            corr_limited(ctx, "representation_bits", "heat on the (%s, %s) representation agrees with the float64 call to rounding but not bit "
                         "for bit (%s) — correspondence only" % (repF, repG, info), dict(case, correspondence="representation_bits"))


def replay(ctx, rep):
    c = rep["case"]
    if "kind" not in c or "correspondence" in c:
        print("correspondence-only replay (no failing input was found): code=%s model=%s" % (c.get("code"), c.get("model")))
        if "F" in c:
            ok, info = eval_case({"kind": "spec", "F": c["F"], "G": c["G"], "sigma": c["sigma"]})
            print("definition vs code:", info)
            return ok
        return True
    ok, info = eval_case(c)
    print("case kind=%s sigma=%r\n F=%s\n G=%s\n -> %s" % (c["kind"], c["sigma"], c["F"], c["G"], info))
    print("reproducer: from persim.heat import heat; import numpy as np; heat(np.array(%r).reshape(-1,2), np.array(%r).reshape(-1,2), %r)"
          % (c["F"], c["G"], c["sigma"]))
    return ok


MANIFEST = {
    "text": "Proof: 31 Lean theorems in Props/C14.lean plus Props/C15C14Model.lean (C14 composed with the C02 model: if the model of wasserstein(D1, D2) returns w then the model of heat(D1, D2, sigma) is at most w/(4 sigma sqrt pi), under birth <= death, which is necessary) (11 of them core, i.e. each a clause of the statement about the distance itself; the others are "
            "kernel-level steps, rfl restatements such as heat_eq_closed_form / kSum_eq_sum, by-construction facts and one concrete "
            "instance) about the model of evalHeatKernel/heat over the reals (Real.exp), for diagrams of every size and "
            "every sigma > 0: the value is sqrt(k(F,F)+k(G,G)-2k(F,G)) for the multi-scale kernel (heat_eq_sqrt_d2: the kernel is "
            "positive semi-definite - Gaussian kernel PSD via its power series - so over the reals the clamp of the fix is a no-op); "
            "it is 0 between reorderings, symmetric, ignores diagonal points, is unchanged when both diagrams are translated along "
            "the diagonal; the triangle inequality (Cauchy-Schwarz/Minkowski for the PSD form); and the stability bound "
            "heat <= W1/(4 sigma sqrt(pi)) against every partial matching (Euclidean ground metric). "
            "`heat_nonneg_finite` / `heat_radicand_nonneg` / `heat_real_nonneg` hold BY CONSTRUCTION over the reals (max(.,0) under "
            "the root; every real is finite) and say nothing about floating point: 'finite' and 'never NaN' are statements about "
            "floats and are [T] only - the streams on reordered-equal and nearly-equal diagrams and on integer/list/tuple "
            "representations of the same numbers (uint8/int8/uint16/int32/int64/float32), where the pre-fix code "
            "returned NaN. A kernel-evaluated IEEE-double witness shows the old radicand negative for a reordered diagram. "
            "The model is tied to the code on every run by executing it at Float "
            "against heat and the private helper evalHeatKernel (kernel values and radicand to 1e-9 plus a rounding floor; the helper is a "
            "correspondence signal only), and all laws including `heat**2 = the definition's radicand` are evaluated on the real code "
            "through heat() alone as tests, up to 200-point diagrams.",
    "note": "Trusted: Lean kernel + Mathlib, axioms propext/Classical.choice/Quot.sound; the correspondence harness; np.exp/np.sqrt "
            "as Real.exp/sqrt up to rounding; persim.wasserstein (difference-based since /repo 6c9bac1; confirmed against an "
            "independent difference-based W1 up to the 4.5e-16*sum|coordinates| rounding of its rotation, which replaces it where "
            "W1 is that small) as the reference of the stability test. Theorems are exact-arithmetic; the pre-fix NaNs were a "
            "rounding effect (negative radicand -1e-17) and an integer wrap-around (uint8 diagrams), both guarded only by [T] streams.",
    "technique": "Lean 4 theorems over a hand-written model + differential correspondence with the real code + metamorphic tests",
}
MANIFEST["note"] += " " + py2lean.manifest_note("heat")
