"""C14 — the heat-kernel distance is a real pseudo-metric, stable w.r.t. Wasserstein.

Theorems: lean/PersimVerif/Props/C14.lean (model lean/PersimVerif/Model/Heat.lean at the reals with Real.exp).
Tie: `persim.heat.evalHeatKernel` / `heat` vs the same model executed at Float (driver op `heat`): the three kernel
     values, the radicand k(F,F)+k(G,G)-2k(F,G) and the clamped root.
[T]: the laws of the statement evaluated directly on the real code (rounding is outside every theorem) — finite, >= 0,
     never NaN (the pre-fix failure on reordered equal diagrams), zero for reorderings, symmetry, diagonal points,
     diagonal translation, triangle inequality and `<= W1/(4 sigma sqrt(pi))` (reference: persim's wasserstein).
"""
import math
import numpy as np
from .. import common
from ..translator import py2lean
from ..common import enc, ask, call

LEVEL = "proof"
TRUSTED = [py2lean.trusted_note("heat")]
PROP_FILES = ["PersimVerif/Props/C14.lean", py2lean.prop_file("heat")]
RULE = ("pairs/triples of diagrams from one PRNG: sizes 0-8 (thorough 0-14), coordinates from lattice/half/dyadic/decimal/"
        "uniform modes (scales 2^-20..2^20), duplicates and diagonal points; kinds random / reordered-equal / nearly-equal "
        "(relative perturbation 1e-3..1e-15) / one or both empty; sigma = 10^U(-3,3), with prob 0.7 multiplied by the squared "
        "coordinate scale so that the kernel is neither all-zero nor flat; non-trivial = both diagrams have an off-diagonal "
        "point and k(F,G) is above the rounding floor; distinct by digest of (F, G, sigma)")
ASSUMPTIONS = [
    "inputs are finite (n,2) arrays or empty lists and sigma > 0 is a finite float (the code has no guard on sigma; the property quantifies over sigma > 0)",
    "np.exp/np.sqrt agree with the model's Float.exp/Float.sqrt up to rounding: kernel values compared to 1e-9 relative plus a "
    "rounding floor of 1e-14 per summand of the double loop (each summand is a difference of two numbers in [0,1])",
    "theorems are exact-arithmetic over the reals; rounding (what made the pre-fix radicand negative) is covered only by the [T] streams",
]
RTOL = 1e-9
FLOOR = 1e-14      # absolute rounding floor per summand exp(..)-exp(..) of the double loop
STATS = {"w1_reference_persim": 0, "w1_reference_own": 0}


def H():
    return common.pm("heat")


def W():
    return common.pm("wasserstein")


def arr(d):
    return np.array(d, dtype=float).reshape(-1, 2)


def code_k(F, G, sigma):
    with np.errstate(all="ignore"):
        return float(H().evalHeatKernel(arr(F), arr(G), sigma))


def code_heat(F, G, sigma):
    with np.errstate(all="ignore"):
        st, v, _ = call(H().heat, arr(F), arr(G), sigma)
    return ("err:" + v) if st == "err" else float(v)


def spec_k(F, G, sigma):
    """the multi-scale kernel of Reininghaus et al., written independently (math.exp / fsum)"""
    t = []
    for (a, b) in F:
        for (c, d) in G:
            t.append(math.exp(-((a - c) ** 2 + (b - d) ** 2) / (8 * sigma)))
            t.append(-math.exp(-((a - d) ** 2 + (b - c) ** 2) / (8 * sigma)))
    return math.fsum(t) / (8 * math.pi * sigma)


def spec_d2(F, G, sigma):
    return spec_k(F, F, sigma) + spec_k(G, G, sigma) - 2 * spec_k(F, G, sigma)


def floor_k(n1, n2, sigma):
    """rounding floor of one kernel value"""
    return FLOOR * n1 * n2 / (8 * math.pi * sigma)


def d2_tol(F, G, sigma, ks, rtol=RTOL):
    """tolerance for the radicand: rtol relative to the kernel values involved + the rounding floor of its summands"""
    n1, n2 = len(F), len(G)
    return rtol * (abs(ks[0]) + abs(ks[1]) + 2 * abs(ks[2])) + floor_k(n1, n1, sigma) + floor_k(n2, n2, sigma) + 2 * floor_k(n1, n2, sigma) + 1e-300


def w1_persim(A, B):
    import warnings
    with warnings.catch_warnings():
        warnings.simplefilter("ignore")
        return float(W().wasserstein(arr(A), arr(B)))


def w1_own(A, B):
    """1-Wasserstein distance (Euclidean ground metric, Euclidean distance to the diagonal) from differences of coordinates;
    persim's wasserstein goes through sklearn's expanded |x|^2+|y|^2-2xy and loses the small distances of nearly equal
    diagrams with large coordinates (seen: 5e-9 instead of 1.2e-5 at coordinates 6e6)"""
    from scipy.optimize import linear_sum_assignment
    n, m = len(A), len(B)
    if n + m == 0:
        return 0.0
    D = np.zeros((n + m, n + m))
    for i in range(n):
        for j in range(m):
            D[i, j] = math.hypot(A[i][0] - B[j][0], A[i][1] - B[j][1])
        D[i, m:] = abs(A[i][1] - A[i][0]) / math.sqrt(2.0)
    for j in range(m):
        D[n:, j] = abs(B[j][1] - B[j][0]) / math.sqrt(2.0)
    r, c = linear_sum_assignment(D)
    return float(D[r, c].sum())


def w1(A, B):
    """reference W1: persim's wasserstein where it is accurate, else the difference-based value; returns (value, which)"""
    own, per = w1_own(A, B), w1_persim(A, B)
    if abs(own - per) <= 1e-9 * abs(own) + 1e-300:
        STATS["w1_reference_persim"] += 1
        return per, "persim"
    STATS["w1_reference_own"] += 1
    return own, "own"


def span_of(*dgms):
    return max([0.0] + [abs(x) for d in dgms for p in d for x in p])


def root_err(tau, h):
    """how much sqrt(max(d2,0)) can move when d2 moves by tau"""
    return min(math.sqrt(tau), tau / (2 * h)) if h > 0 else math.sqrt(tau)


# ----------------------------------------------------------------------------- generators

def gen_sigma(ctx, dgms):
    r = ctx.rng
    s = 10.0 ** r.uniform(-3, 3)
    if r.random() < 0.15:
        s = r.choice([1e-3, 0.4, 1.0, 1e3])
    sp = span_of(*dgms)
    if sp > 0 and r.random() < 0.7:
        # a typical squared distance between points, so that exponents are O(1)/sigma_rel
        s *= sp * sp
    return min(max(s, 1e-290), 1e290)


def gen_pair(ctx, nmax):
    g, r = ctx.gen, ctx.rng
    kind = r.choice(["random"] * 4 + ["perm", "perm", "near", "near", "empty1", "empty2"])
    F = g.diagram(nmax, allow_diag=True, allow_empty=(kind not in ("perm", "near")), dup=0.2)
    if kind == "perm":
        G = [list(p) for p in F]
        r.shuffle(G)
    elif kind == "near":
        eta = r.choice([1e-3, 1e-6, 1e-9, 1e-12, 1e-15])
        G = [sorted([p[0] * (1 + eta * r.uniform(-1, 1)), p[1] * (1 + eta * r.uniform(-1, 1))]) for p in F]   # keeps birth <= death
        if r.random() < 0.5:
            r.shuffle(G)
    elif kind == "empty1":
        F, G = [], g.diagram(nmax)
    elif kind == "empty2":
        F, G = [], []
    else:
        G = g.diagram(nmax, allow_diag=True, dup=0.2)
    if r.random() < 0.5:
        F, G = G, F
    return F, G, kind


# ----------------------------------------------------------------------------- the property on the real code

def kvals(F, G, sigma):
    return [code_k(F, F, sigma), code_k(G, G, sigma), code_k(F, G, sigma)]


def eval_case(c):
    """evaluate one recorded check on the real code; returns (ok, info)"""
    k = c["kind"]
    F, G, sigma = c["F"], c["G"], c["sigma"]
    h = code_heat(F, G, sigma)
    if k == "finite":
        return (not isinstance(h, str)) and math.isfinite(h) and h >= 0.0, {"heat": h}
    if isinstance(h, str) or not math.isfinite(h):
        return False, {"heat": h}
    ks = kvals(F, G, sigma)
    tau = d2_tol(F, G, sigma, ks)
    if k == "spec":
        # the value is the clamped root of k(F,F)+k(G,G)-2k(F,G) for the multi-scale kernel (compared as squares)
        sk = [spec_k(F, F, sigma), spec_k(G, G, sigma), spec_k(F, G, sigma)]
        okk = all(abs(a - b) <= RTOL * abs(b) + floor_k(n1, n2, sigma) + 1e-300
                  for a, b, (n1, n2) in zip(ks, sk, [(len(F), len(F)), (len(G), len(G)), (len(F), len(G))]))
        d2 = sk[0] + sk[1] - 2 * sk[2]
        okh = abs(h * h - max(d2, 0.0)) <= d2_tol(F, G, sigma, sk)
        return okk and okh, {"code k(F,F),k(G,G),k(F,G)": ks, "definition": sk, "heat^2": h * h, "definition dist^2": d2, "tol": tau}
    if k == "perm":
        # a diagram and any reordering of itself: distance (numerically) zero
        Fp = c["Fp"]
        z = code_heat(F, Fp, sigma)
        kff = abs(ks[0])
        tol = math.sqrt(d2_tol(F, F, sigma, [kff, kff, kff], rtol=1e-12))
        return (not isinstance(z, str)) and math.isfinite(z) and 0.0 <= z <= tol, {"heat(F, perm F)": z, "tol": tol, "k(F,F)": ks[0]}
    if k == "symm":
        w = code_heat(G, F, sigma)
        return (not isinstance(w, str)) and math.isfinite(w) and abs(h * h - w * w) <= tau, {"heat(F,G)": h, "heat(G,F)": w, "tol(dist^2)": tau}
    if k == "diag":
        F2, G2 = c["F2"], c["G2"]
        w = code_heat(F2, G2, sigma)
        tau2 = d2_tol(F2, G2, sigma, ks)
        return (not isinstance(w, str)) and math.isfinite(w) and abs(h * h - w * w) <= tau2, {"heat": h, "with diagonal points": w, "tol(dist^2)": tau2}
    if k == "translate":
        t = c["t"]
        F2 = [[p[0] + t, p[1] + t] for p in F]
        G2 = [[p[0] + t, p[1] + t] for p in G]
        # rounding of (p+t)-(q+t): each coordinate difference moves by <= delta; exp(-d^2/(8 sigma)) then moves by
        # <= sup_d exp(-d^2/8s) * 2 d delta/(8s) <= 0.31 delta/sqrt(s) per coordinate
        delta = 4 * 2.3e-16 * (abs(t) + span_of(F, G))
        per = 8 * 0.31 * delta / math.sqrt(sigma)
        n1, n2 = len(F), len(G)
        tau2 = tau + per * (n1 * n1 + n2 * n2 + 2 * n1 * n2) / (8 * math.pi * sigma)
        w = code_heat(F2, G2, sigma)
        return (not isinstance(w, str)) and math.isfinite(w) and abs(h * h - w * w) <= tau2, {"heat": h, "translated": w, "tol(dist^2)": tau2}
    if k == "triangle":
        C = c["C"]
        x, y = code_heat(F, C, sigma), code_heat(C, G, sigma)
        if isinstance(x, str) or isinstance(y, str) or not (math.isfinite(x) and math.isfinite(y)):
            return False, {"heat(F,C)": x, "heat(C,G)": y}
        slack = root_err(tau, h) + root_err(d2_tol(F, C, sigma, kvals(F, C, sigma)), x) + root_err(d2_tol(C, G, sigma, kvals(C, G, sigma)), y)
        return h <= x + y + slack, {"heat(F,G)": h, "heat(F,C)": x, "heat(C,G)": y, "slack": slack}
    if k == "w1":
        w, which = w1(F, G)
        bound = w / (4 * sigma * math.sqrt(math.pi))
        slack = root_err(d2_tol(F, G, sigma, ks, rtol=1e-12), h) + 1e-9 * bound
        return h <= bound + slack, {"heat": h, "W1/(4 sigma sqrt pi)": bound, "W1": w, "W1 reference": which, "slack": slack}
    raise common.HarnessError("unknown case kind %r" % k)


def laws_for(ctx, F, G, C, sigma):
    r = ctx.rng
    base = {"F": F, "G": G, "sigma": sigma}
    out = [dict(base, kind="finite")]
    Fp = [list(p) for p in F]
    r.shuffle(Fp)
    out.append(dict(base, kind="perm", Fp=Fp))
    out.append(dict(base, kind="symm"))
    sp = max(span_of(F, G), 2.0 ** -20)

    def with_diag(D):
        D2 = [list(p) for p in D]
        for _ in range(r.randint(1, 3)):
            a = r.choice([0.0, sp, -sp, 0.5 * sp, float(r.randint(-6, 6)), r.uniform(-sp, sp)])
            if D and r.random() < 0.5:           # on the diagonal right below/above an existing point
                a = r.choice(D)[r.randint(0, 1)]
            D2.insert(r.randint(0, len(D2)), [a, a])
        return D2
    out.append(dict(base, kind="diag", F2=with_diag(F), G2=with_diag(G) if r.random() < 0.7 else [list(p) for p in G]))
    out.append(dict(base, kind="translate", t=r.choice([sp, -sp, 0.5 * sp, -3.0 * sp, 100.0 * sp, -1000.0 * sp, 1.0, -7.0, r.uniform(-sp, sp)])))
    out.append(dict(base, kind="triangle", C=C))
    out.append(dict(base, kind="w1"))
    return out


def fail(ctx, what, case, info, **more):
    ctx.violation("%s: %s" % (what, info), case, found_input=True, **more)


def search_failing_input(ctx, F, G, sigma, line, code, model):
    spec_case = {"kind": "spec", "F": F, "G": G, "sigma": sigma}
    todo = [dict(spec_case, kind="finite"), spec_case] + laws_for(ctx, F, G, ctx.gen.diagram(6), sigma)[1:]
    for lc in todo:
        ok, info = eval_case(lc)
        if not ok:
            what = {"finite": "heat is not a finite non-negative number",
                    "spec": "heat differs from sqrt(k(F,F)+k(G,G)-2k(F,G)) for the multi-scale kernel"}.get(
                        lc["kind"], "heat-kernel law `%s` fails on the real code" % lc["kind"])
            fail(ctx, what, lc, info, correspondence="heat", model=model)
            return True
    ctx.violation("code and model of heat differ but the definition and all laws hold on this input: code=%r model=%r" % (code, model),
                  {"correspondence": "heat", "line": line[:2000], "code": code, "model": model, "F": F, "G": G, "sigma": sigma},
                  found_input=False)
    return False


# ----------------------------------------------------------------------------- run

def pre_build(ctx):
    """source translator (DESIGN.md 3.2): regenerate Generated/SrcHeat.lean from PERSIM_ROOT's source"""
    py2lean.pre_build(ctx, ("heat",))


def run(ctx):
    py2lean.report_broken(ctx, PROP_FILES)
    ctx.extra["source_digest"] = {"persim/heat.py": common.source_digest("persim/heat.py", ["heat", "evalHeatKernel"])}
    nmax = 14 if ctx.thorough else 8
    corpus = [
        ([], [], 0.4), ([[0.5, 1.0]], [[0.5, 1.1]], 0.4), ([[0.5, 1.0]], [[0.5, 1.5]], 0.4),
        ([[0.11371516, 4.45734882]], [[0.11371516, 4.45734882]], 0.4),
        ([[0.0, 1.0], [2.0, 5.0]], [], 1.0), ([[2.0, 2.0]], [[0.0, 1.0]], 1.0),
        # reordered equal diagrams (the pre-fix NaN family)
        ([[0.1, 0.7], [0.2, 0.9], [0.3, 1.3]], [[0.3, 1.3], [0.1, 0.7], [0.2, 0.9]], 0.4),
        ([[0.31, 1.17], [0.05, 0.93], [0.47, 0.61], [0.2, 0.9]], [[0.2, 0.9], [0.47, 0.61], [0.31, 1.17], [0.05, 0.93]], 0.137),
        ([[0.1, 1.8], [0.1, 1.5]], [[0.1, 1.5], [0.1, 1.8]], 0.5),       # the input of Props/C14.old_heat_counterexample
    ]
    cases, lines = [], []
    n = ctx.n(2000, 24000)
    for i in range(n + len(corpus)):
        if i < len(corpus):
            (F, G, sigma), kind = corpus[i], "corpus"
        else:
            F, G, kind = gen_pair(ctx, nmax)
            sigma = gen_sigma(ctx, [F, G])
        cases.append((F, G, sigma, kind))
        lines.append("heat %s %s %s" % (enc(F), enc(G), enc(sigma)))
    answers = ask(lines)
    worst = 0.0
    cov = common.LineCov(["persim/heat.py"])
    for j, ((F, G, sigma, kind), ans, line) in enumerate(zip(cases, answers, lines)):
        if j < 40:
            with cov:
                h = code_heat(F, G, sigma)
        else:
            h = code_heat(F, G, sigma)
        ks = kvals(F, G, sigma)
        if isinstance(ans, str) or len(ans) != 6:
            raise common.HarnessError("driver answered %r to %s" % (ans, line[:200]))
        mk = [float(x) for x in ans[:3]]
        md2, mh = float(ans[3]), float(ans[4])
        n1, n2 = len(F), len(G)
        offd = lambda D: any(p[0] != p[1] for p in D)
        nontriv = offd(F) and offd(G) and abs(ks[2]) > 100 * floor_k(n1, n2, sigma)
        ctx.case({"op": "heat", "F": F, "G": G, "sigma": sigma}, nontriv, sample_every=173)
        ctx.count("kind:" + kind)
        ctx.count("sigma:1e%+d" % (3 * math.floor(math.log10(sigma) / 3)) if 1e-9 < sigma < 1e15 else "sigma:extreme")
        ctx.count("sizes:%s" % ("0" if not F and not G else "one-empty" if not F or not G else "<=4" if n1 + n2 <= 4 else "<=10" if n1 + n2 <= 10 else ">10"))
        agree = not isinstance(h, str) and all(math.isfinite(x) for x in ks + [h])
        if agree:
            sizes = [(n1, n1), (n2, n2), (n1, n2)]
            agree = all(abs(a - b) <= RTOL * max(abs(a), abs(b)) + floor_k(p, q, sigma) + 1e-300 for a, b, (p, q) in zip(ks, mk, sizes))
            tau = d2_tol(F, G, sigma, ks)
            cd2 = ks[0] + ks[1] - 2 * ks[2]
            agree = agree and abs(cd2 - md2) <= tau and abs(h * h - max(md2, 0.0)) <= tau and abs(h * h - mh * mh) <= tau
            if md2 < 0:
                ctx.count("radicand_negative_before_clamp")
            sc = abs(ks[0]) + abs(ks[1]) + 2 * abs(ks[2])
            if sc > 0:
                worst = max(worst, abs(cd2 - md2) / sc)
        if not agree:
            search_failing_input(ctx, F, G, sigma, line, {"k": ks, "heat": h}, {"k": mk, "dist2": md2, "heat": mh})
            if len(ctx.violations) > 5:
                return
    ctx.extra["max_code_model_discrepancy_dist2_rel"] = worst
    ctx.extra["branch_hits"] = cov.summary()
    laws(ctx, nmax)


def laws(ctx, nmax):
    """[T] the laws of the statement (and the definition) on the real code"""
    r = ctx.rng
    for i in range(ctx.n(800, 9000)):
        F, G, kind = gen_pair(ctx, min(nmax, 10))
        C = ctx.gen.diagram(min(nmax, 10), allow_diag=True)
        if r.random() < 0.3 and F:                         # a third diagram close to the first: sharp triangle / stability cases
            eta = r.choice([1e-2, 1e-5, 1e-8])
            C = [sorted([p[0] * (1 + eta * r.uniform(-1, 1)), p[1] * (1 + eta * r.uniform(-1, 1))]) for p in F]
        sigma = gen_sigma(ctx, [F, G, C])
        todo = laws_for(ctx, F, G, C, sigma)
        if i % 3 == 0:
            todo.append({"kind": "spec", "F": F, "G": G, "sigma": sigma})
        for lc in todo:
            ok, info = eval_case(lc)
            ctx.test(lc["kind"] if lc["kind"] != "spec" else "definition", ok)
            if not ok:
                fail(ctx, "heat-kernel law `%s` fails on the real code" % lc["kind"], lc, info, law=True)
                if len(ctx.violations) > 5:
                    return
    ctx.extra["w1_reference"] = dict(STATS)


def replay(ctx, rep):
    c = rep["case"]
    if "kind" not in c:
        print("correspondence-only replay (no failing input was found): code=%s model=%s" % (c.get("code"), c.get("model")))
        if "F" in c:
            ok, info = eval_case({"kind": "spec", "F": c["F"], "G": c["G"], "sigma": c["sigma"]})
            print("definition vs code:", info)
            return ok
        return True
    ok, info = eval_case(c)
    print("case kind=%s sigma=%r\n F=%s\n G=%s\n -> %s" % (c["kind"], c["sigma"], c["F"], c["G"], info))
    print("reproducer: from persim.heat import heat; import numpy as np; heat(np.array(%r).reshape(-1,2), np.array(%r).reshape(-1,2), %r)"
          % (c["F"], c["G"], c["sigma"]))
    return ok


MANIFEST = {
    "text": "Proof: Lean theorems about the model of evalHeatKernel/heat over the reals (Real.exp), for diagrams of every size and "
            "every sigma > 0: the value is sqrt(max(k(F,F)+k(G,G)-2k(F,G),0)) for the multi-scale kernel; the kernel is symmetric, "
            "invariant under reordering either argument, gets no contribution from points on the diagonal and is unchanged when both "
            "diagrams are translated along the diagonal, hence the distance is 0 between reorderings, symmetric, ignores diagonal "
            "points and is translation invariant; the radicand passed to sqrt is clamped, so heat is a well-defined number >= 0 "
            "(never NaN) by construction. Beyond the design's plan the analytic clauses are proved too: the kernel is positive "
            "semi-definite (Gaussian kernel PSD via its power series), so over the reals the clamp is a no-op; the triangle "
            "inequality (Cauchy-Schwarz/Minkowski for the PSD form); and the stability bound heat <= W1/(4 sigma sqrt(pi)) against "
            "every partial matching (Euclidean ground metric); a kernel-evaluated IEEE-double witness shows the old radicand negative "
            "for a reordered diagram. The model is tied to the code on every run by executing it at Float "
            "against evalHeatKernel/heat (kernel values and radicand to 1e-9 plus a rounding floor), against an independent "
            "definition, and all laws are evaluated on the real code as tests.",
    "note": "Trusted: Lean kernel + Mathlib, axioms propext/Classical.choice/Quot.sound; the correspondence harness; np.exp/np.sqrt "
            "as Real.exp/sqrt up to rounding; persim.wasserstein (where accurate, else a difference-based W1) as the reference of the "
            "stability test. Theorems are exact-arithmetic; the pre-fix NaN was a rounding effect (negative radicand -1e-17) and is "
            "guarded only by the [T] stream on reordered equal and nearly equal diagrams.",
    "technique": "Lean 4 theorems over a hand-written model + differential correspondence with the real code + metamorphic tests",
}
MANIFEST["note"] += " " + py2lean.manifest_note("heat")
