"""C09 — landscape arithmetic is pointwise and leaves the operands untouched.

Theorems: lean/PersimVerif/Props/C09.lean over the model lean/PersimVerif/Model/PLArith.lean (any linear
ordered field).  Tie: histories of the real operators (`+ - neg * rmul /`, the augmented assignments `+= -= *= /=` on
results of earlier operations, `snap_pl`, `lc_approx`, `average_approx`) on landscapes built by the real constructors, replayed by the model at `Rat` from the
*leaves* (driver ops `pla.xhist`, `pla.ghist`, `pla.xexpr`, `pla.xdenote`, `pla.gexpr`, `pla.gdenote`).
[T]: (a) the statement's pointwise laws and rejection rule evaluated on the real code alone with exact
rational arithmetic (this is also the failing-input search when code and model disagree);
(b) the public attributes and the represented function of every live operand compared by value before/after every
operation and at the end of every history.

What decides a VIOLATION with a failing input is the statement only: a law of (a) fails, a mismatched degree / grid is
NOT rejected (any exception counts as rejected), an operation on well-formed operands with a real scalar raises, or the
VALUE of a public attribute of an operand changes.  Differences from the model that the statement does not fix - the
exception class or which check fired, what happens for a zero divisor or a non-number scalar (outside "all real
scalars"), the number of all-zero trailing rows of a grid result, bytes / container types of equal values - are
reported as correspondence breaks (`no-failing-input-found`, at most three printed per run, never ending the search);
private attributes (caches) are not compared at all when new and only counted when rewritten.

What is compared how
  * breakpoint lists: the model mirrors `sum_slopes`/`union_crit_pairs` literally and abscissae are only
    ever copied, so code and model must produce the *same* list of abscissae (compared exactly, including
    redundant collinear points); ordinates exactly on "exact" histories (dyadic coordinates, dyadic slopes,
    scalars from a pool on which every float operation is exact), else within 1e-9*max(1,scale);
  * functions: independently of the breakpoint lists the code's result is evaluated as a function
    (exact rationals) at every breakpoint of result and operands, every midpoint and two outside points
    and compared with the pointwise operation on the operands' functions (missing depth = 0);
  * grid values: shape and grid parameters exactly, samples as above; `snap_pl` against an independent
    rational interpolation; `lc_approx`/`average_approx` against the same combination of the code's own
    `snap_pl` output;  error kinds (exception class + which check fired) exactly against the model (correspondence).
"""
import contextlib
import copy
import io
import math
import operator
import types
from bisect import bisect_left
from fractions import Fraction as Fr
import numpy as np
from .. import common
from ..translator import py2lean
from ..common import enc, ask, HarnessError
from .. import corethm

LEVEL = "proof"
RULE = ("histories of 0-12 operations over 2-4 shared operands (results are reused as operands; about one operation in ten is a "
        "Python augmented assignment x += y / x -= y / x *= c / x /= c, mostly on the result of an earlier operation); exact landscapes "
        "from real-constructor diagrams (0-5 bars per degree, ties, duplicates, zero-length bars, trailing inf bar) and "
        "from arbitrary critical points (1-4 depths, sign changes, repeated points, single-point depths); grid landscapes "
        "from real-constructor diagrams and from arbitrary value arrays on shared and on deliberately different grids; "
        "coordinates lattice/half/dyadic(2^-30..2^20)/half-integers at offset 2^17/decimal/uniform, and (exact landscapes, 8% of the "
        "histories) a common offset of 1e12..1e13 with bars of length 0.1..10 at full float resolution; scalars ints, dyadic, 1/3, 2^+-20, 0, -0.0, "
        "non-numbers; malformed operands mixed in (other hom_deg, other grid, empty depth list, empty landscape, "
        "coefficient lists of wrong length). non-trivial = a history with at least one successful binary operation or "
        "snap/lc/avg; distinct by digest of (leaf specs, ops)")
ASSUMPTIONS = [
    "scalars are Python int/float and the NumPy scalars np.float64 / np.int64 on either side (`np.float64(2) * P`, `P * np.int64(2)`); "
    "np.int64 with GRID landscapes is generated too since the repo fix to numbers.Real (before it, isinstance(other, (int, float)) made a "
    "NumPy integer fails: `P * np.int64(2)` raises TypeError while `np.int64(2) * P` goes through NumPy's object dispatch); "
    "float32 scalars and bool are dispatched by numpy/Python coercion rules and are not modelled",
    "operands untouched ('observably unchanged'): the PUBLIC attributes (names not starting with '_': critical_pairs / values / start / "
    "stop / num_steps / hom_deg / dgms / max_depth ...) of every live landscape, and the argument lists handed to snap/lc/avg, are "
    "compared before/after each operation and at the end of the history.  A changed VALUE (numbers as numbers, list/tuple/ndarray as "
    "sequences) or a removed public attribute is a failing input; equal values with other bytes or container types (int -> float, "
    "list -> tuple, -0.0 -> 0.0) or a new public attribute are a correspondence break only; a NEW private attribute (a cache set on "
    "first use) is no change, a rewritten pre-existing private attribute is counted in the evidence only.  For a leaf built with "
    "compute=False the attributes `critical_pairs`/`values`/`max_depth` are a cache that the first operation "
    "fills; there the REPRESENTED FUNCTION is compared instead (stored critical pairs / values, or what the constructor computes from the "
    "stored diagram while the cache is empty) together with all other public attributes: filling the cache is not a change, a changed "
    "function or diagram is",
    "'mismatched degrees or grids are rejected': any exception satisfies the clause, returning a value violates it (for well-formed "
    "operands); the exception class and which check fired are compared with the model as correspondence only.  A zero divisor and "
    "non-number scalars / coefficients (str, None, list) are OUTSIDE the quantifier ('all real scalars'): they are generated, the "
    "outcome is compared with the model, but whatever the code does there is never a failing input; a history ends at an operation "
    "where the code returns a landscape although the reference tree raises",
    "grid results are compared as functions: a missing depth counts as zero on either side, so trailing all-zero rows dropped from (or "
    "added to) a result satisfy the laws; the row count is compared with the model's (correspondence).  Samples exactly on exact "
    "histories, within 2 ulp of the correctly rounded value otherwise; lc/avg within 1e-12 of the largest term; snap and the exact "
    "pointwise law on non-dyadic histories within 1e-9 of the largest ordinate involved (no absolute floor)",
    "ordinates of exact landscapes are floats (str * int would repeat the string instead of raising)",
    "grid landscapes have a float `values` array of shape (depths, num_steps); a diagram none of whose bars is visible on the "
    "grid gives one zero row (generated on purpose: bars shorter than a step); a non-numeric `values` from the constructor "
    "(the former string placeholder array(['empty'])) is reported as a violation with the arithmetic law that fails on it; a non-float "
    "`values` that behaves as the zero function in every probe (say integer zeros) is a correspondence break only",
    "lc_approx on an empty product list returns the numpy scalar 0 rather than a landscape; the model calls that notLandscape "
    "(an empty landscape list together with non-numeric coefficients is numpy dtype resolution on empty arrays and is not generated)",
    "np.interp / np.linspace behave as the model's interp/linspace in exact arithmetic (compared on every snap)",
    "sharing of depth lists between a result of exact +/- and an operand (union_crit_pairs appends the operand's own "
    "list) is counted, not failed: no operation of the reference tree mutates critical_pairs in place; an operation that does "
    "(an in-place `*=` on such a result) changes the operand's public attribute and is a failing input through the clause below",
    "augmented assignment (`x += y`, `x -= y`, `x *= c`, `x /= c`) is one of the ways to write the property's operations: its value "
    "must be the sum / difference / multiple / quotient of the OLD value of x (model: the plain operation into a new register; the "
    "same laws), and every live landscape OTHER than the object x must be observably unchanged.  Whether the code builds a new "
    "object (the reference tree: no in-place methods, Python falls back to the binary operator) or modifies x and returns it is "
    "not fixed by the statement: when the returned object IS x, every register holding that object is retired (replaced by a "
    "detached copy of the old attributes, never used as an operand again - the name now means the new value) and x is exempt "
    "from the unchanged comparison of that one operation; an `x op= y` that raises must leave x unchanged like any operand",
    "the class 'large common offset' is restricted on the INPUT side to diagrams whose candidate breakpoints (births, deaths, "
    "midpoints (b_i + d_j)/2) are pairwise equal or more than 4 ulp apart: for closer ones the reference CONSTRUCTOR rounds two "
    "midpoints to one float and returns a depth with a zero-width jump (not a function; T = 5095418622720.0, bars "
    "[[T+0.264, T+5.665], [T+0.266, T+8.946]]), on which exact +/- loses the jump (1 ulp of the abscissae, 2e-4 of the heights). "
    "That is rounding of the abscissae in the constructor, not a failure of the arithmetic on functions; hand-made critical points "
    "of this class have abscissae at least 0.1 apart.  On the admitted inputs the reference tree meets the pointwise law to 1e-15 "
    "of the largest ordinate; the verdict tolerance stays 1e-9 of the largest ordinate involved",
]
TRUSTED = ["the compiled driver executable is trusted as compiled by Lean's compiler, not checked by the kernel"]
# theorems that carry a clause of the property (helpers, the bridge lemmas between the two guards, definitional restatements
# and the three concrete counterexamples are excluded)
CORE_THEOREMS = ["sum_eval", "sum_wellFormed", "neg_eval", "smul_eval", "div_eval", "sub_eval", "scalar_wellFormed", "missing_depth_zero",
                 "add_pointwise", "sub_pointwise", "neg_pointwise", "smul_pointwise", "div_pointwise", "exact_rejections", "expr_denote",
                 "grid_add_pointwise", "grid_sub_pointwise", "grid_neg_pointwise", "grid_smul_pointwise", "grid_mismatch_rejected",
                 "grid_sub_mismatch_rejected", "grid_expr_denote", "snap_is_interp", "snap_succeeds", "interp_is_linear_interpolation",
                 "lc_is_combination", "average_is_mean"]
TOL = 1e-9
E_FILES = ["persim/landscapes/auxiliary.py", "persim/landscapes/exact.py", "persim/landscapes/approximate.py",
           "persim/landscapes/tools.py", "persim/landscapes/base.py"]
# structural digest of the anchored functions on the reference tree (/repo at 56d4899); a different digest is not a
# violation, it only raises the quick budget for that run (DESIGN 3.2)
ANCHOR_DIGEST = {'auxiliary': 'bc3772c38ec6fa78', 'exact': '30b8b8be1c93da13', 'approximate': '25120994b5b1880c', 'tools': 'b70bef56f7bb2a6b', 'base': 'ab9a610b3e0fd97c'}


# --------------------------------------------------------------------------- the real code

def _mods():
    ex = common.pm("landscapes.exact")
    ap = common.pm("landscapes.approximate")
    tl = common.pm("landscapes.tools")
    return ex.PersLandscapeExact, ap.PersLandscapeApprox, tl


def errtag(e):
    """exception -> `err:<class>:<which check>` exactly as the driver names it"""
    m = str(e)
    if isinstance(e, TypeError):
        return "err:TypeError:scalar"
    if isinstance(e, IndexError):
        return "err:IndexError:empty_depth"
    if isinstance(e, ZeroDivisionError):
        return "err:ZeroDivisionError:" + m[:30].replace(" ", "_")
    if isinstance(e, ValueError):
        for key, tag in (("homological degree", "hom_deg"), ("Start values", "start"), ("Stop values", "stop"),
                         ("Number of steps", "num_steps"), ("Cannot divide by zero", "div_zero"),
                         ("cannot both be em", "both_empty"), ("start must be less than or equal", "start_gt_stop"),
                         ("iterable argument is empty", "empty_list"), ("arg is an empty sequence", "empty_list"),
                         ("could not be broadcast", "shape")):
            if key in m:
                return "err:ValueError:" + tag
        return "err:ValueError:" + m[:40].replace(" ", "_")
    return "err:%s:%s" % (type(e).__name__, m[:40].replace(" ", "_"))


def build_leaf(spec):
    E, A, _ = _mods()
    k = spec["kind"]
    if k == "dgm":
        kw = {"compute": False} if spec.get("compute") is False else {}        # a lazy leaf: computed by the first operation
        return E(dgms=[np.array(d, dtype=float).reshape(-1, 2) for d in spec["dgms"]], hom_deg=spec["hom_deg"], **kw)
    if k == "cps":
        return E(critical_pairs=[[list(p) for p in d] for d in spec["cps"]], hom_deg=spec["hom_deg"])
    if k == "gdgm":
        with contextlib.redirect_stdout(io.StringIO()):      # "Bad choice of grid, values is empty"
            return _gdgm(A, spec)
    if k == "vals":
        return A(start=spec["start"], stop=spec["stop"], num_steps=spec["num_steps"], hom_deg=spec["hom_deg"],
                 values=np.array(spec["values"], dtype=float))
    raise HarnessError("unknown leaf kind %r" % k)


def _gdgm(A, spec):
    kw = {"compute": False} if spec.get("compute") is False else {}            # a lazy grid leaf (repo fix b17ec4c)
    return A(dgms=[np.array(d, dtype=float).reshape(-1, 2) for d in spec["dgms"]], hom_deg=spec["hom_deg"],
             start=spec["start"], stop=spec["stop"], num_steps=spec["num_steps"], **kw)


def scalar_of(c):
    """JSON-able scalar spec -> the Python / NumPy value handed to the code"""
    if isinstance(c, dict):
        if "np" in c:
            return getattr(np, c["np"])(c["v"])                 # np.float64(2.0), np.int64(2)
        return {"str": "x", "none": None, "list": [1.0]}[c["nonnum"]]
    return c


def is_number(c):
    """a real scalar of the property's quantifier: Python int/float or a NumPy float64/int64 scalar"""
    v = scalar_of(c)
    return isinstance(v, (int, float, np.floating, np.integer)) and not isinstance(v, (bool, np.bool_))


def num_of(c):
    """the scalar as a plain Python number (for the oracles and the model line)"""
    v = scalar_of(c)
    return int(v) if isinstance(v, (int, np.integer)) else float(v)


def prepare(regs, op):
    """the Python arguments of one operation: (thunk calling the real code, containers handed to it)"""
    _, _, tl = _mods()
    name = op[0]
    if is_aug(op):
        # Python augmented assignment `x += y`, `x -= y`, `x *= c`, `x /= c` on the register x = op[1]: the in-place method
        # if the class defines one, else the binary operator (what the statement `x op= y` does)
        f = AUG_FN[name]
        if name in ("add", "sub"):
            return (lambda: f(regs[op[1]], regs[op[2]])), []
        c = scalar_of(op[2])
        return (lambda: f(regs[op[1]], c)), [c]
    if name == "add":
        return (lambda: regs[op[1]] + regs[op[2]]), []
    if name == "sub":
        return (lambda: regs[op[1]] - regs[op[2]]), []
    if name == "neg":
        return (lambda: -regs[op[1]]), []
    if name in ("mul", "rmul", "div"):
        c = scalar_of(op[2])
        if name == "mul":
            return (lambda: regs[op[1]] * c), [c]
        if name == "rmul":
            return (lambda: c * regs[op[1]]), [c]
        return (lambda: regs[op[1]] / c), [c]
    if name == "snap":
        pls = [regs[i] for i in op[1]]
        return (lambda: tl.snap_pl(pls, start=op[2], stop=op[3], num_steps=op[4])), [pls]
    if name == "lc":
        pls = [regs[i] for i in op[1]]
        cs = [scalar_of(c) for c in op[2]]
        return (lambda: tl.lc_approx(pls, cs, start=op[3], stop=op[4], num_steps=op[5])), [pls, cs]
    if name == "avg":
        pls = [regs[i] for i in op[1]]
        return (lambda: tl.average_approx(pls, start=op[2], stop=op[3], num_steps=op[4])), [pls]
    raise HarnessError("unknown op %r" % (op,))


AUG_FN = {"add": operator.iadd, "sub": operator.isub, "mul": operator.imul, "div": operator.itruediv}


def is_aug(op):
    """an operation written as Python augmented assignment: ["mul", x, c, "aug"] is `x *= c` (likewise add / sub / div).
    The marker is the last element so that everything that reads op[0], op[1], op[2] treats it as the plain operation: for
    the model and for the laws `x *= c` IS the product of the old value of x by c, stored in a new register."""
    return op[-1] == "aug"


def freeze(pl):
    """a detached copy of a landscape's attributes (not a landscape object: nothing of the library runs on it); stands in
    for the OLD value of an object that an augmented assignment modified in place"""
    return types.SimpleNamespace(**copy.deepcopy(vars(pl)))


def settle_aug(regs, res, pre):
    """after `x op= y` returned `res`: if the code worked in place (`res` is the very object x, as a class with __imul__ etc.
    may legitimately do), every register holding that object is replaced by the frozen old value `pre` - those registers are
    never used as operands again (Run.redirect) and only serve the comparison of the value they had.  Returns their indices."""
    dead = [j for j, p in enumerate(regs) if p is res]
    for j in dead:
        regs[j] = pre
    return dead


def apply_op(regs, op):
    """one operation of a history on the real code (re-execution by the laws; `run_history` does the same step by step)"""
    thunk = prepare(regs, op)[0]
    if not is_aug(op):
        return thunk()
    pre = freeze(regs[op[1]])
    res = thunk()
    settle_aug(regs, res, pre)
    return res


def containers_view(cs):
    """lists handed to the code (landscape lists by identity of their members, scalars by value)"""
    def v(o):
        if isinstance(o, list):
            return ("list",) + tuple(v(x) for x in o)
        if hasattr(o, "hom_deg"):
            return ("landscape", id(o))
        return _atom(o)
    return v(cs)


def op_token(op):
    """history op -> protocol token (rmul is the same model function as mul)"""
    def sc(c):
        if isinstance(c, dict) and "np" in c:
            return enc(num_of(c))
        if isinstance(c, dict):
            return {"str": "x", "none": "none", "list": "[1]"}[c["nonnum"]]
        return enc(c)
    name = op[0]
    if name in ("add", "sub"):
        return "[%s,%d,%d]" % (name, op[1], op[2])
    if name == "neg":
        return "[neg,%d]" % op[1]
    if name in ("mul", "rmul"):
        return "[mul,%d,%s]" % (op[1], sc(op[2]))
    if name == "div":
        return "[div,%d,%s]" % (op[1], sc(op[2]))
    if name == "snap":
        return "[snap,%s,%s,%s,%s]" % (enc(op[1]), enc(op[2]), enc(op[3]), enc(op[4]))
    if name == "lc":
        return "[lc,%s,[%s],%s,%s,%s]" % (enc(op[1]), ",".join(sc(c) for c in op[2]), enc(op[3]), enc(op[4]), enc(op[5]))
    if name == "avg":
        return "[avg,%s,%s,%s,%s]" % (enc(op[1]), enc(op[2]), enc(op[3]), enc(op[4]))
    raise HarnessError("unknown op %r" % (op,))


# --------------------------------------------------------------------------- snapshots (operands untouched)

def _atom(x):
    if isinstance(x, (float, np.floating)):
        return (type(x).__name__, float(x).hex())
    if isinstance(x, (int, np.integer)):
        return (type(x).__name__, int(x))
    return (type(x).__name__, repr(x))


def _deep(o):
    if isinstance(o, np.ndarray):
        return ("nd", o.dtype.str, o.shape, o.tobytes())
    if isinstance(o, (list, tuple)):
        return (type(o).__name__,) + tuple(_deep(x) for x in o)
    return _atom(o)


def snapshot(pl, lazy=False):
    """the observable state of a landscape object as comparable trees (values and container types):
    `pub`  - every PUBLIC attribute (name not starting with `_`): critical_pairs / values / start / stop / num_steps /
             hom_deg / dgms / max_depth ...;
    `priv` - the private attributes that exist at this moment (caches, helpers);
    `fn`   - for a leaf built with compute=False only: the represented function.  The first operation computes the landscape
             and stores it in the operand (`critical_pairs` / `values`, `max_depth`) - that fills a cache and does not change the
             function the operand represents.  For such a leaf the cache attributes are left out of `pub` and replaced by the
             represented function itself (`cps_of` / `vals_of`: the stored critical pairs / values, or what the constructor
             computes from the stored diagram while the cache is empty); every other attribute is still compared.
    For every other landscape the represented function IS the public attributes critical_pairs / values (+ grid parameters)."""
    skip = ()
    fn = None
    if lazy:
        skip = ("values", "max_depth") if not is_exact(pl) else ("critical_pairs", "max_depth")
        fn = _deep(vals_of(pl) if not is_exact(pl) else cps_of(pl))
    pub, priv = {}, {}
    for k, v in vars(pl).items():
        if k in skip:
            continue
        (priv if k.startswith("_") else pub)[k] = _deep(v)
    return {"pub": pub, "priv": priv, "fn": fn}


def _value(t):
    """a `_deep` tree by VALUE: numbers as floats (int 2 == float 2.0 == np.float64(2), -0.0 == 0.0, NaN == NaN), list / tuple /
    ndarray all as sequences; everything else (str, None, objects) by type and repr"""
    if isinstance(t, tuple) and t and t[0] == "nd":
        _, dt, shape, raw = t
        arr = np.frombuffer(raw, dtype=np.dtype(dt)).reshape(shape)
        if arr.dtype.kind in "fiub":
            return _value(_deep(arr.astype(float).tolist()))
        return ("seq-other", dt, shape, raw)
    if isinstance(t, tuple) and t and t[0] in ("list", "tuple"):
        return ("seq",) + tuple(_value(x) for x in t[1:])
    if isinstance(t, tuple) and len(t) == 2 and isinstance(t[1], str) and t[0] in ("float", "float64", "float32", "float16", "longdouble"):
        x = float.fromhex(t[1]) if t[1] not in ("nan", "inf", "-inf") else float(t[1])
        return ("num", "nan" if x != x else (x + 0.0 if x != 0 else 0.0))
    if isinstance(t, tuple) and len(t) == 2 and isinstance(t[1], int) and not isinstance(t[1], bool):
        return ("num", float(t[1]) if abs(t[1]) < 2 ** 53 else t[1])
    return t


def snapshot_diff(before, after):
    """what changed in one landscape object between two snapshots, as (observable, representation_only, private):
    observable          - names of PUBLIC attributes whose VALUE changed or that disappeared, and 'represented function' for a
                          compute=False leaf: this is the property's clause "operands observably unchanged";
    representation_only - public attributes whose value is the same but whose bytes / container types differ (list -> tuple,
                          int -> float, -0.0 -> 0.0) and NEW public attributes: not fixed by the property, reported as a
                          correspondence break (no failing input) at most;
    private             - private attributes that existed before and were rewritten or removed (a cache being updated): counted
                          in the evidence only.  A NEW private attribute (a cache such as `_slopes` set on first use) is no
                          change at all."""
    obs, rep, prv = [], [], []
    for k, v in before["pub"].items():
        if k not in after["pub"]:
            obs.append(k + " (removed)")
        elif after["pub"][k] != v:
            (obs if _value(after["pub"][k]) != _value(v) else rep).append(k)
    rep.extend(k + " (new public attribute)" for k in after["pub"] if k not in before["pub"])
    if before["fn"] != after["fn"]:
        if before["fn"] is None or after["fn"] is None or _value(before["fn"]) != _value(after["fn"]):
            obs.append("represented function")
        else:
            rep.append("represented function (bytes)")
    for k, v in before["priv"].items():
        if k not in after["priv"] or after["priv"][k] != v:
            prv.append(k)
    return obs, rep, prv


def snapshots_diff(before, after):
    """the same for a list of live landscapes: ([[register, name]...] observable, [...] representation only, [...] private)"""
    obs, rep, prv = [], [], []
    for i, (b, a) in enumerate(zip(before, after)):
        if b == a:
            continue
        o, r_, p_ = snapshot_diff(b, a)
        obs.extend([i, k] for k in o)
        rep.extend([i, k] for k in r_)
        prv.extend([i, k] for k in p_)
    return obs, rep, prv


def is_exact(pl):
    return hasattr(pl, "critical_pairs")


def is_exact_obj(x):
    return hasattr(x, "critical_pairs") and hasattr(x, "hom_deg")


def numeric_cps(pl):
    return all(isinstance(p[1], (int, float, np.integer, np.floating)) and not isinstance(p[1], bool)
               for d in pl.critical_pairs for p in d)


def cps_of(pl):
    """the function an exact landscape represents, as critical pairs (nested lists of Python floats; ints become floats):
    the stored critical pairs, or — for a landscape built with compute=False whose cache is still empty — what the real
    constructor computes from the stored diagram (on a copy; the object itself is not touched)"""
    cps = pl.critical_pairs
    if not cps and len(getattr(pl, "dgms", ())) > 0:
        E = common.pm("landscapes.exact").PersLandscapeExact
        try:
            with np.errstate(all="ignore"):
                cps = E(dgms=[np.array(pl.dgms, dtype=float, copy=True).reshape(-1, 2)], hom_deg=0).critical_pairs
        except Exception:
            cps = []
    return [[[float(p[0]), float(p[1])] for p in d] for d in cps]


def vals_of(pl):
    """the samples a grid landscape represents: the stored values, or — built with compute=False and not yet computed —
    what the real constructor computes from the stored diagram on the same grid (on a fresh object)"""
    v = np.asarray(pl.values)
    if v.size == 0 and len(getattr(pl, "dgms", ())) > 0:
        A = common.pm("landscapes.approximate").PersLandscapeApprox
        try:
            with np.errstate(all="ignore"), contextlib.redirect_stdout(io.StringIO()):
                v = A(dgms=[np.array(pl.dgms, dtype=float, copy=True).reshape(-1, 2)], hom_deg=0, start=pl.start, stop=pl.stop,
                      num_steps=pl.num_steps).values
        except Exception:
            v = np.zeros((0, 0))
    try:
        return np.asarray(v, dtype=float).tolist()
    except (TypeError, ValueError):
        return np.asarray(v).tolist()          # a non-numeric placeholder array (the pre-357d745 code): kept as it is


def grid_of(pl):
    return [int(pl.hom_deg), float(pl.start), float(pl.stop), int(pl.num_steps), np.asarray(pl.values, dtype=float).tolist()]


# --------------------------------------------------------------------------- exact rational oracle (specification)

def F(x):
    return x if isinstance(x, Fr) else Fr(x)


def evalpl(d, t):
    """the function a depth list denotes: linear interpolation, 0 outside (PLBase.evalPL)"""
    n = len(d)
    if n < 2 or t < d[0][0]:
        return Fr(0)
    for i in range(n - 1):
        x0, y0 = d[i]
        x1, y1 = d[i + 1]
        if t <= x1:
            if x1 == x0:
                return y0
            return y0 + (y1 - y0) * (t - x0) / (x1 - x0)
    return Fr(0)


def finite_cps(cps):
    return all(math.isfinite(p[0]) and math.isfinite(p[1]) for d in cps for p in d)


def finite_landscape(pl):
    if is_exact(pl):
        return finite_cps(cps_of(pl))
    v = np.asarray(pl.values)
    return v.dtype.kind == "f" and bool(np.all(np.isfinite(v)))


def wf_depth_py(d):
    """the class of depth lists the statement is about (mirror of the definition, not of the model's code):
    non-empty, zero first/last ordinate, abscissae non-decreasing, a zero-width step only between equal points"""
    if not d or d[0][1] != 0 or d[-1][1] != 0:
        return False
    if not all(math.isfinite(p[0]) and math.isfinite(p[1]) for p in d):
        return False
    return all(p[0] < q[0] or (p[0] == q[0] and p[1] == q[1]) for p, q in zip(d, d[1:]))


def wf_landscape_py(pl):
    if is_exact(pl):
        cps = cps_of(pl)
        return len(cps) > 0 and all(wf_depth_py(d) for d in cps)
    v = np.asarray(pl.values)
    if v.size == 0 and len(getattr(pl, "dgms", ())) > 0:
        # built from diagrams with compute=False: a well-formed operand (the represented function is the
        # landscape of the diagrams), the values are only not cached yet
        return pl.num_steps >= 1 and pl.start <= pl.stop
    return (v.dtype.kind == "f" and v.ndim == 2 and v.shape[0] >= 1 and v.shape[1] == pl.num_steps >= 1
            and bool(np.all(np.isfinite(v))) and pl.start <= pl.stop)


def frac_cps(cps):
    return [[(Fr(p[0]), Fr(p[1])) for p in d] for d in cps]


def sample_points(lists):
    xs = sorted({p[0] for cps in lists for d in cps for p in d})
    if not xs:
        return [Fr(0)]
    pts = set(xs)
    for a, b in zip(xs, xs[1:]):
        pts.add((a + b) / 2)
    pts.add(xs[0] - 1)
    pts.add(xs[-1] + 1)
    return sorted(pts)


def depth_fn(cps, k):
    return cps[k] if k < len(cps) else []


def pointwise_exact(op, regs_cps, res_cps, exact, cap=60):
    """the statement's law for one successful exact operation, on the code's own operands/result;
    returns None if it holds, else a description of the first failing (k, t)"""
    name = op[0]
    A = frac_cps(regs_cps[op[1]])
    B = frac_cps(regs_cps[op[2]]) if name in ("add", "sub") else None
    R = frac_cps(res_cps)
    c = None
    if name in ("mul", "rmul", "div"):
        c = Fr(num_of(op[2]))
    pts = sample_points([A, R] + ([B] if B is not None else []))
    if len(pts) > cap:
        step = len(pts) / float(cap)
        pts = [pts[int(i * step)] for i in range(cap)]
    depths = max(len(A), len(R), len(B) if B is not None else 0) + 1
    # 1e-9 relative to the largest ordinate of operands and result (no absolute floor: small units are checked as sharply)
    scale = max([abs(p[1]) for cps in [A, R] + ([B] if B is not None else []) for d in cps for p in d] + [Fr(0)])
    tol = Fr(0) if exact else Fr(TOL) * scale
    for k in range(depths):
        a, r = depth_fn(A, k), depth_fn(R, k)
        b = depth_fn(B, k) if B is not None else None
        for t in pts:
            va = evalpl(a, t)
            if name == "add":
                want = va + evalpl(b, t)
            elif name == "sub":
                want = va - evalpl(b, t)
            elif name == "neg":
                want = -va
            elif name in ("mul", "rmul"):
                want = c * va
            else:
                want = va / c
            got = evalpl(r, t)
            if abs(got - want) > tol:
                return {"depth": k, "t": "%s" % t, "result": float(got), "pointwise": float(want)}
    return None


# --------------------------------------------------------------------------- known finding: slope representation
KNOWN_KEY = "slope-representation-starts-at-zero"
KNOWN_SITE = "site=persim/landscapes/auxiliary.py:slope-representation-starts-at-zero"
KNOWN_HIST = {"cls": "exact", "mode": "lattice", "exact": True, "nonzero_ends": True,
              "leaves": [{"kind": "cps", "cps": [[[0.0, 1.0], [2.0, 1.0]]], "hom_deg": 0},
                         {"kind": "cps", "cps": [[[0.0, 0.0], [1.0, 1.0], [2.0, 0.0]]], "hom_deg": 0}],
              "ops": [["add", 0, 1]]}


def known_listed():
    return [t for k, t in common.known_findings("C09") if k == "known" and KNOWN_SITE in t]


def known_text(kf):
    return (KNOWN_SITE + " still fails: PersLandscapeExact(critical_pairs=[[[0,1],[2,1]]]) + "
            "PersLandscapeExact(critical_pairs=[[[0,0],[1,1],[2,0]]]) returns [[0,0],[1,1],[2,0]] instead of a function equal to "
            "1 + tent (exact +/- restart every depth at ordinate 0 and keep the last value to the right: critical points whose "
            "first or last ordinate is not 0 lose that offset); listed in known_findings.txt" + ("" if kf else " [NOT LISTED]"))


def slope_rep_part(d, t):
    """what pos_to_slope_interp / slope_to_pos_interp keep of one depth list (an independent description of the known
    defect, not of the code): the function restarted at ordinate 0 at its first abscissa and continued with slope 0, i.e.
    constant, to the right of its last abscissa"""
    if len(d) < 2 or t < d[0][0]:
        return Fr(0)
    if t > d[-1][0]:
        return d[-1][1] - d[0][1]
    return evalpl(d, t) - d[0][1]


def slope_rep_attribution(op, regs_cps, res_cps, exact):
    """A failing exact + / -: is it the known finding?  Yes iff some depth present in both operands has a non-zero first or
    last ordinate AND the code's result is, at every sample point, exactly what the slope representation keeps (the sum of
    the restarted parts between the smallest and the largest abscissa, 0 outside).  Returns 'first' / 'last_only' / None."""
    name = op[0]
    if name not in ("add", "sub"):
        return None
    A, B, R = frac_cps(regs_cps[op[1]]), frac_cps(regs_cps[op[2]]), frac_cps(res_cps)
    if name == "sub":
        B = [[(x, -y) for x, y in d] for d in B]
    both = [(a, b) for a, b in zip(A, B) if a and b]
    first = any(d[0][1] != 0 for a, b in both for d in (a, b))
    last = any(d[-1][1] != 0 for a, b in both for d in (a, b))
    if not (first or last):
        return None
    scale = max([abs(p[1]) for cps in (A, B, R) for d in cps for p in d] + [Fr(1)])
    tol = Fr(0) if exact else Fr(TOL) * scale
    pts = sample_points([A, B, R])
    for k in range(max(len(A), len(B), len(R)) + 1):
        a, b, r_ = depth_fn(A, k), depth_fn(B, k), depth_fn(R, k)
        for t in pts:
            if a and b:
                xs_ = [p[0] for p in a] + [p[0] for p in b]
                want = slope_rep_part(a, t) + slope_rep_part(b, t) if min(xs_) <= t <= max(xs_) else Fr(0)
            else:
                want = evalpl(a, t) + evalpl(b, t)          # a depth missing in one operand is taken over unchanged
            if abs(evalpl(r_, t) - want) > tol:
                return None
    return "first" if first else "last_only"


def known_replay(ctx):
    """replay the listed input on the real code; while it still fails print the KNOWN-FINDING line"""
    kf = known_listed()
    with np.errstate(all="ignore"):
        regs = [build_leaf(sp) for sp in KNOWN_HIST["leaves"]]
        try:
            res = apply_op(regs, KNOWN_HIST["ops"][0])
            rc = cps_of(res)
            bad = pointwise_exact(KNOWN_HIST["ops"][0], [cps_of(p) for p in regs], rc, True)
            why = slope_rep_attribution(KNOWN_HIST["ops"][0], [cps_of(p) for p in regs], rc, True) if bad else None
        except Exception as e:
            bad, why, rc = {"raised": errtag(e)}, None, None
    ctx.extra["known_finding_still_fails"] = bool(bad)
    ctx.extra["known_finding_result"] = rc
    if bad and why:
        if kf:
            ctx.known(KNOWN_KEY, known_text(kf))
        else:
            ctx.violation("exact + loses a non-zero first ordinate and this is not listed in known_findings.txt: %r" % (bad,),
                          {"history": jsonable_hist(KNOWN_HIST), "failure": {"law": "pointwise", "op_index": 0, "at": bad}},
                          found_input=True, reproducer=reproducer(KNOWN_HIST))
    elif bad:
        ctx.violation("the listed input of the known finding fails in another way than by losing the end ordinates: %r" % (bad,),
                      {"history": jsonable_hist(KNOWN_HIST), "failure": {"law": "pointwise", "op_index": 0, "at": bad}},
                      found_input=True, reproducer=reproducer(KNOWN_HIST))
    else:
        print("note: the listed known finding of C09 no longer reproduces on this tree", flush=True)
    return kf


def known_filter(ctx, op, regs_cps, res_cps, exact, bad):
    """a failing pointwise law: None if it is the known finding (counted, KNOWN-FINDING line), else the failure itself"""
    if not bad or ctx is None:
        return bad
    why = slope_rep_attribution(op, regs_cps, res_cps, exact)
    if why and known_listed():
        ctx.count("known_finding:attributed:%s_ordinate_nonzero:%s" % (why, op[0]))
        ctx.known(KNOWN_KEY, known_text(True))
        return None
    return bad


def outside_quantifier(op):
    """a scalar operation whose scalar is OUTSIDE the property's quantifier ("all real scalars"; a quotient by 0 is not a
    pointwise operation on functions): 'zero_divisor' / 'non_number', with the exception class of the reference tree; else None.
    Whatever the code does there (ZeroDivisionError, ValueError, TypeError, coercing "2", returning inf) is never a failing
    input of the property; a difference from the model is a correspondence matter only."""
    name = op[0]
    if name == "div":
        if is_number(op[2]) and num_of(op[2]) == 0:
            return ("zero_divisor", "ValueError")
        if not is_number(op[2]):
            return ("non_number", "TypeError")
    if name in ("mul", "rmul") and not is_number(op[2]):
        return ("non_number", "TypeError")
    if name == "lc" and any(not is_number(c) for c in op[2]):
        return ("non_number", "TypeError")
    return None


def expected_rejection_exact(op, regs):
    """None, or (kind, exception class of the reference tree), written independently of the model:
    ('mismatch', ..)      - the rejection the statement names: mismatched degrees.  ANY exception satisfies the clause, the
                            class is compared with the model's as correspondence only; returning a value violates it;
    ('zero_divisor', ..) / ('non_number', ..) - outside the quantifier, see outside_quantifier"""
    name = op[0]
    if name in ("add", "sub") and regs[op[1]].hom_deg != regs[op[2]].hom_deg:
        return ("mismatch", "ValueError")
    return outside_quantifier(op) if name in ("mul", "rmul", "div") else None


def interp_spec(x, xp, fp):
    """linear interpolation of samples with constant extension (what re-sampling means), rationals"""
    if x <= xp[0]:
        return fp[0] if x < xp[0] or len(xp) == 1 or xp[1] > xp[0] else fp[max(i for i in range(len(xp)) if xp[i] <= x)]
    if x >= xp[-1]:
        return fp[-1]
    i = bisect_left(xp, x)          # xp[i-1] < x <= xp[i]
    if xp[i] == x:
        j = max(jj for jj in range(len(xp)) if xp[jj] <= x)
        return fp[j]
    x0, x1 = xp[i - 1], xp[i]
    return fp[i - 1] + (fp[i] - fp[i - 1]) * (x - x0) / (x1 - x0)


def linspace_spec(s, e, n):
    s, e = Fr(s), Fr(e)
    if n == 1:
        return [s]
    return [s + i * (e - s) / (n - 1) for i in range(n)]


def gval(vals, k, j):
    return vals[k][j] if k < len(vals) else 0.0


# --------------------------------------------------------------------------- generators

EXACT_SCALARS = [1, -1, 2, -2, 0.5, -0.5, 4, 0.25, 3, -3, 1.0, 2.0]
EXACT_DIVISORS = [1, -1, 2, -2, 0.5, 4, 0.25, -4.0]
NONNUM = [{"nonnum": "str"}, {"nonnum": "none"}, {"nonnum": "list"}]


def gen_scalar(ctx, exact, div=False, bad_p=0.08, np_ok=False):
    r = ctx.rng
    u = r.random()
    if u < bad_p:
        return r.choice(NONNUM)
    if div and u < bad_p + 0.06:
        return r.choice([0, 0.0, -0.0])
    if u < bad_p + 0.06 + 0.1 and np_ok:
        # NumPy scalars (`np.float64(2) * P`, `P * np.int64(2)`): real scalars of the property's quantifier
        v = r.choice(EXACT_DIVISORS if div else EXACT_SCALARS) if exact else r.choice([2.0, -0.5, 3.0, 0.1, 1.0 / 3.0, -4.0])
        if np_ok == "float64-only" or float(v) != int(v) or r.random() < 0.5:
            return {"np": "float64", "v": float(v)}
        return {"np": "int64", "v": int(v)}
    if exact:
        return r.choice(EXACT_DIVISORS if div else EXACT_SCALARS)
    return r.choice([r.uniform(-3, 3), float(r.randint(-5, 5)) or 1.5, r.randint(-4, 4) or 7, 1.0 / 3.0, 0.1,
                     2.0 ** r.choice([-20, -3, 10, 20]), -2.0 ** r.choice([-20, 5]), 0 if not div else 1e-3, 1e6])


def pick_mode(ctx):
    """coordinate mode of a history and whether every float operation on it is expected to be exact"""
    r = ctx.rng
    mode = r.choice(["lattice", "lattice", "half", "dyadic1", "dyadic1", "far", "dec", "unif", "dyadic"])
    return mode, mode in ("lattice", "half", "dyadic1", "far")


def coord(ctx, mode, e=None):
    r = ctx.rng
    if mode == "dyadic1":
        return r.randint(-64, 64) / 8.0 * 2.0 ** e
    if mode == "far":
        # half-integers at a large offset (exact in floats): distinct abscissae that agree to 5-6 significant digits
        return 131072.0 + r.randint(0, 12) / 2.0
    if mode == "offset":
        return e + r.uniform(0.0, 20.0)          # `e` carries the history's common offset (see gen_offset_bars)
    return ctx.gen.coord(mode)


def breakpoints_separated(bars):
    """Input-side guard of the "offset" class: every breakpoint the landscape of these bars can have is a birth, a death or a
    midpoint (b_i + d_j) / 2.  Two DISTINCT such numbers closer than a few ulp of the offset may round to the same float (or
    swap) inside the constructor, which then returns a depth list with a zero-width jump - not a function, and outside the
    well-formed class of the arithmetic theorems (observed on the reference tree, see gen_offset_bars).  Exact rationals."""
    fin = [(Fr(b), Fr(d)) for b, d in bars if math.isfinite(b) and math.isfinite(d)]
    if not fin:
        return True
    cand = sorted({x for b, d in fin for x in (b, d)} | {(b + d) / 2 for b, _ in fin for _, d in fin})
    gap = 4 * Fr(math.ulp(max(abs(float(cand[0])), abs(float(cand[-1])))))
    return all(y - x > gap for x, y in zip(cand, cand[1:]))


def gen_offset_bars(ctx, T0, nmax=5):
    """the class "large common offset, small non-dyadic bars": births T0 + U(0, 12) with T0 in 1e12 .. 1e13 (millisecond time
    stamps), lengths U(0.1, 10), coordinates at the full float resolution of the offset (ulp 1.2e-4 .. 2e-3, so heights are
    odd multiples of half an ulp and nothing is dyadic relative to the bars); duplicates and zero-length bars as elsewhere.
    RESTRICTION (input side, breakpoints_separated): diagrams two of whose candidate breakpoints are distinct but within 4 ulp
    are redrawn.  On the reference tree the CONSTRUCTOR rounds two such midpoints to one float and returns a depth with a
    zero-width jump, e.g. T = 5095418622720.0, bars [[T+0.264, T+5.665], [T+0.266, T+8.946]] give depth 0 =
    [.., (T+2.96484375, 2.70068359375), (T+2.96484375, 2.69970703125), ..]; exact +/- then drops the jump (a zero-width segment
    has no slope) and the difference with [[T+4.036, T+5.978]] ends at -0.0009765625 instead of 0.  That is the constructor's
    rounding at the resolution of the abscissae (C03's subject), not the arithmetic's; the arithmetic laws are claimed for
    operands that are functions."""
    r = ctx.rng
    for _ in range(40):
        bars = []
        for _ in range(r.randint(1, nmax)):
            if bars and r.random() < 0.15:
                bars.append(list(r.choice(bars)))
                continue
            b = T0 + r.uniform(0.0, 12.0)
            bars.append([b, b] if r.random() < 0.08 else [b, b + r.uniform(0.1, 10.0)])
        if breakpoints_separated(bars):
            return bars
    b = T0 + r.uniform(0.0, 12.0)
    return [[b, b + r.uniform(0.1, 10.0)]]


def gen_bars(ctx, mode, e, nmax=5, allow_empty=False, diag_p=0.15, dup_p=0.2):
    r = ctx.rng
    n = r.randint(0 if allow_empty else 1, nmax)
    bars = []
    for _ in range(n):
        if bars and r.random() < dup_p:
            bars.append(list(r.choice(bars)))
            continue
        b = coord(ctx, mode, e)
        if r.random() < diag_p:
            bars.append([b, b])
            continue
        d = b
        for _ in range(20):
            d = coord(ctx, mode, e)
            if d != b:
                break
        if d == b:
            d = b + 1.0
        bars.append([min(b, d), max(b, d)])
    return bars


def gen_dgm_leaf(ctx, mode, e, hom_deg):
    r = ctx.rng
    if mode == "offset":
        dgms = [gen_offset_bars(ctx, e), gen_offset_bars(ctx, e)]
    else:
        dgms = [gen_bars(ctx, mode, e), gen_bars(ctx, mode, e)]
    if r.random() < 0.15:
        dgms[hom_deg].append([coord(ctx, mode, e), math.inf])     # only a trailing infinite bar is dropped by the code
    spec = {"kind": "dgm", "dgms": dgms, "hom_deg": hom_deg}
    if r.random() < 0.25:
        spec["compute"] = False             # a lazy leaf: the first operation that needs it computes the landscape
    return spec


def tent(b, d, t):
    return max(Fr(0), min(t - b, d - t))


def gen_cps_leaf(ctx, mode, e, hom_deg, exact, nonzero_ends=False):
    """arbitrary critical points: strictly increasing abscissae, zero ends, any sign; sometimes repeated
    points (what zero-length bars produce) and single-point depths (what adding two such depths gives).
    `nonzero_ends`: hand-made critical points OUTSIDE the class the theorems are about — the first and/or last
    ordinate is not 0 (a constant offset on a whole depth, or the first / last / both end points dropped, so that
    slopes stay dyadic on exact histories)"""
    r = ctx.rng
    cps = []
    for _ in range(r.randint(1, 4)):
        u = r.random()
        x = coord(ctx, mode, e)
        if u < 0.07:
            cps.append([[x, 0.0]])
            continue
        if u < 0.14:
            cps.append([[x, 0], [x, 0.0], [x, 0]])
            continue
        if mode == "offset":
            # hand-made critical points at the large offset: abscissae at least 0.1 apart, small non-dyadic ordinates, zero ends
            xs = [x]
            for _ in range(r.randint(1, 7)):
                xs.append(xs[-1] + r.uniform(0.1, 4.0))
            d_ = [[t, r.choice([r.uniform(-5, 5), r.uniform(0.05, 5), float(r.randint(-3, 3))])] for t in xs]
            d_[0][1] = 0
            d_[-1][1] = 0.0
            if r.random() < 0.2:
                i = r.randrange(len(d_))
                d_.insert(i, list(d_[i]))
            cps.append(d_)
            continue
        if exact or u < 0.4:
            # a signed combination of tents: dyadic slopes, exact ordinates
            xs, tents = set(), []
            for _ in range(r.randint(1, 3)):
                b = coord(ctx, mode, e)
                d = b
                while d == b:
                    d = coord(ctx, mode, e)
                b, d = Fr(min(b, d)), Fr(max(b, d))
                tents.append((r.choice([1, -1, 2, -2, Fr(1, 2), Fr(-1, 2)]), b, d))
                xs.update([b, (b + d) / 2, d])
            xs = sorted(xs)
            d_ = [[float(t), float(sum(c * tent(b, dd, t) for c, b, dd in tents))] for t in xs]
        else:
            xs = sorted({coord(ctx, mode, e) for _ in range(r.randint(2, 8))})
            if len(xs) < 2:
                xs = [xs[0], xs[0] + 1.0]
            d_ = [[t, r.choice([r.uniform(-5, 5), float(r.randint(-3, 3)), coord(ctx, mode, e)])] for t in xs]
            d_[0][1] = 0
            d_[-1][1] = 0.0
        if r.random() < 0.2:            # repeat one point
            i = r.randrange(len(d_))
            d_.insert(i, list(d_[i]))
        if nonzero_ends and r.random() < 0.8:
            how = r.choice(["offset", "offset", "drop_first", "drop_last", "drop_both"])
            if how == "offset":
                c = r.choice([1.0, -1.0, 2.0, 0.5, -1.5, 3.0]) * (2.0 ** e if mode == "dyadic1" else 1.0)
                d_ = [[p[0], p[1] + c] for p in d_]
            else:
                if how in ("drop_first", "drop_both") and len(d_) >= 3:
                    d_ = d_[1:]
                if how in ("drop_last", "drop_both") and len(d_) >= 3:
                    d_ = d_[:-1]
        cps.append(d_)
    return {"kind": "cps", "cps": cps, "hom_deg": hom_deg}


def gen_aug(ctx, exact, nleaves, nreg, pick):
    """an augmented assignment `x *= c`, `x /= c`, `x += y`, `x -= y`; x is mostly the RESULT of an earlier operation (the
    running sum of an average: `avg = P + Q; avg /= 2`), which may share structure with its operands"""
    r = ctx.rng
    x = r.randrange(nleaves, nreg) if nreg > nleaves and r.random() < 0.85 else pick()
    kind = r.choice(["mul", "div", "mul", "div", "add", "sub"])
    if kind in ("add", "sub"):
        return [kind, x, pick(), "aug"]
    return [kind, x, gen_scalar(ctx, exact, div=(kind == "div"), np_ok=True), "aug"]


def gen_exact_history(ctx, nonzero_ends=False):
    r = ctx.rng
    mode, exact = pick_mode(ctx)
    e = r.choice([-30, -20, -3, 0, 0, 3, 20])
    if not nonzero_ends and r.random() < 0.08:
        # large common offset, small non-dyadic bars (gen_offset_bars); `e` carries the offset.  Never combined with
        # non-zero end ordinates (the known finding is attributed on its own input classes only)
        mode, exact, e = "offset", False, r.uniform(1e12, 1e13)
    nleaves = r.randint(2, 4)
    leaves = []
    for i in range(nleaves):
        hd = 1 if (i > 0 and r.random() < 0.08) else 0
        u = r.random()
        if u < 0.5:
            leaves.append(gen_dgm_leaf(ctx, mode, e, hd))
        elif u < 0.97:
            leaves.append(gen_cps_leaf(ctx, mode, e, hd, exact, nonzero_ends=nonzero_ends))
        elif u < 0.985:
            leaves.append({"kind": "dgm", "dgms": [[[coord(ctx, mode, e), math.inf]], []], "hom_deg": 0})  # empty landscape
        else:
            leaves.append({"kind": "cps", "cps": [[[0.0, 0.0], [1.0, 1.0], [2.0, 0.0]], []], "hom_deg": hd})  # empty depth list
    nops = r.randint(0, 12)
    ops = []
    nreg = nleaves
    for _ in range(nops):
        kind = r.choice(["add", "add", "add", "sub", "sub", "neg", "mul", "rmul", "div", "aug"])
        pick = lambda: r.randrange(nreg) if r.random() < 0.6 else r.randrange(min(nreg, nleaves))
        if kind == "aug":
            ops.append(gen_aug(ctx, exact, nleaves, nreg, pick))
        elif kind in ("add", "sub"):
            ops.append([kind, pick(), pick()])
        elif kind == "neg":
            ops.append([kind, pick()])
        else:
            ops.append([kind, pick(), gen_scalar(ctx, exact, div=(kind == "div"), np_ok=True)])
        nreg += 1       # optimistic; fixed up while running (an op that raises adds no register)
    return {"cls": "exact", "mode": mode, "exact": exact, "leaves": leaves, "ops": ops, "nonzero_ends": nonzero_ends}


def gen_grid_params(ctx, mode, e, exact):
    r = ctx.rng
    if exact:
        n = r.choice([1, 2, 3, 5, 5, 9, 9, 17])
    else:
        n = r.choice([1, 2, 3, 4, 6, 7, 10, 13, 24])
    for _ in range(50):
        s, t = coord(ctx, mode, e), coord(ctx, mode, e)
        if s != t:
            break
    else:
        t = s + 1.0
    s, t = min(s, t), max(s, t)
    if r.random() < 0.04:
        t = s                                        # degenerate grid start == stop
    return s, t, n


def gen_vals_leaf(ctx, mode, e, hom_deg, grid, exact):
    r = ctx.rng
    s, t, n = grid
    k = r.randint(1, 4)
    def v():
        u = r.random()
        if u < 0.3:
            return 0.0
        if exact or u < 0.6:
            return r.randint(-16, 16) / 4.0 * (2.0 ** e if mode == "dyadic1" else 1.0)
        return r.uniform(-5, 5)
    return {"kind": "vals", "start": s, "stop": t, "num_steps": n, "hom_deg": hom_deg,
            "values": [[v() for _ in range(n)] for _ in range(k)]}


def gen_gdgm_leaf(ctx, mode, e, hom_deg, grid, short=False):
    """a grid landscape built by the real constructor from diagrams.  `short`: every bar of the selected degree is shorter
    than a grid step, so no bar is visible on the grid and the landscape is the zero function with ONE zero row
    (/repo fix 357d745; before it `values` was the string placeholder ['empty'] and arithmetic on it raised)"""
    r = ctx.rng
    s, t, n = grid
    n = max(n, 3)
    dgms = [gen_bars(ctx, mode, e, diag_p=0.0), gen_bars(ctx, mode, e, diag_p=0.0)]
    if short:
        step = (t - s) / (n - 1)
        bars = []
        for _ in range(r.randint(1, 4)):
            b = s + r.randint(0, 4 * (n - 1) - 3) * step / 4.0
            bars.append([b, b + r.choice([0.25, 0.5, 0.75]) * step])
        dgms[hom_deg] = bars
    spec = {"kind": "gdgm", "dgms": dgms, "hom_deg": hom_deg, "start": s, "stop": t, "num_steps": n}
    if r.random() < 0.25:
        spec["compute"] = False             # a lazy grid leaf: arithmetic must compute it first
    return spec


def gen_grid_history(ctx):
    r = ctx.rng
    mode, exact = pick_mode(ctx)
    e = r.choice([-30, -20, -3, 0, 0, 3, 20])
    g0 = gen_grid_params(ctx, mode, e, exact)
    nleaves = r.randint(2, 4)
    leaves = []
    for i in range(nleaves):
        hd = 1 if (i > 0 and r.random() < 0.08) else 0
        grid = g0
        u = r.random()
        if i > 0 and u < 0.3:
            # another grid: change one, two or three of the parameters (the order of the checks is observable)
            s, t, n = g0
            g1 = gen_grid_params(ctx, mode, e, exact)
            which = r.choice([(1, 0, 0), (0, 1, 0), (0, 0, 1), (1, 1, 0), (0, 1, 1), (1, 0, 1), (1, 1, 1)])
            grid = (g1[0] if which[0] and g1[0] <= t else s, t, n)
            grid = (grid[0], g1[1] if which[1] and g1[1] >= grid[0] else t, g1[2] if which[2] else n)
        spec = None
        if r.random() < 0.35 and grid[1] > grid[0]:
            # nothing is redrawn: a grid on which no bar is visible gives the zero function (one zero row) and takes part
            # in the history like every other landscape
            spec = gen_gdgm_leaf(ctx, mode, e, hd, grid, short=r.random() < 0.3)
        leaves.append(spec or gen_vals_leaf(ctx, mode, e, hd, grid, exact))
    nops = r.randint(0, 12)
    ops = []
    nreg = nleaves
    for _ in range(nops):
        kind = r.choice(["add", "add", "sub", "sub", "neg", "mul", "rmul", "div", "snap", "lc", "lc", "avg", "aug"])
        pick = lambda: r.randrange(nreg) if r.random() < 0.6 else r.randrange(min(nreg, nleaves))
        if kind == "aug":
            ops.append(gen_aug(ctx, exact, nleaves, nreg, pick)); nreg += 1
        elif kind in ("add", "sub"):
            ops.append([kind, pick(), pick()]); nreg += 1
        elif kind == "neg":
            ops.append([kind, pick()]); nreg += 1
        elif kind in ("mul", "rmul", "div"):
            # every real scalar, NumPy integers included (repo fix: numbers.Real instead of (int, float))
            ops.append([kind, pick(), gen_scalar(ctx, exact, div=(kind == "div"), np_ok=True)]); nreg += 1
        else:
            m = r.choice([0, 1, 1, 2, 2, 3, 4]) if r.random() < 0.5 else r.randint(1, 3)
            idxs = [pick() for _ in range(m)]
            if r.random() < 0.6:
                s = t = n = None
            else:
                gs, gt, gn = gen_grid_params(ctx, mode, e, exact)
                if r.random() < 0.06:
                    gs, gt = gt + 1.0, gs          # start > stop
                s = gs if r.random() < 0.8 else None
                t = gt if r.random() < 0.8 else None
                n = (gn if r.random() < 0.95 else 0) if r.random() < 0.8 else None
            if kind == "snap":
                ops.append(["snap", idxs, s, t, n]); nreg += len(idxs)
            elif kind == "avg":
                ops.append(["avg", idxs, s, t, n]); nreg += 1
            else:
                u = r.random()
                mc = m if u < 0.8 else r.choice([0, 1, m + 1, 2])
                cs = [gen_scalar(ctx, exact, bad_p=0.03) for _ in range(mc)]
                cs = [{"nonnum": "str"} if c == {"nonnum": "list"} else c for c in cs]   # a list would change the array's shape
                if not idxs:        # no landscape at all: what numpy does with a str/None coefficient array is dtype
                    cs = [1.5 if isinstance(c, dict) else c for c in cs]   # resolution on empty arrays, not modelled
                ops.append(["lc", idxs, cs, s, t, n]); nreg += 1
    return {"cls": "grid", "mode": mode, "exact": exact, "leaves": leaves, "ops": ops}


# --------------------------------------------------------------------------- running a history on the real code

class Run:
    """a history executed on the real code: registers, per-op outcome, snapshots"""

    def __init__(self, hist):
        self.hist = hist
        self.regs = []
        self.outcomes = []         # per op: ("ok", [new register indices]) or ("err", tag)
        self.ops = []              # ops with register indices clamped to what exists
        self.untouched = True      # the property's clause: no public attribute / represented function of a live operand and no
        self.touched_at = None     # argument list changed its VALUE (op index of the first change, -1 = seen at the end only)
        self.touched_what = []     # [[register, attribute]...] of that first change
        self.repr_only = []        # [[op index, register, what]...]: same value, other bytes / types (correspondence only)
        self.private_changes = 0   # rewritten pre-existing private attributes (counted only)
        self.shared = 0
        self.leaf_error = None
        self.lazy_leaves = 0
        self.outside = None        # why the history was cut short (an operation outside the model), if it was
        self.reg_exact = []        # per register: is every float operation behind it exact?
        self.op_exact = []         # per op: exactness of its result(s)
        self.redirect = {}         # register -> the register that replaced it (its object was modified in place by `x op= y`)
        self.aug_ops = 0           # successful augmented assignments
        self.aug_in_place = 0      # ... of which the code worked in place (returned the very object)


def run_history(hist, ctx=None):
    """build the leaves with the real constructors and run the operations; every live object is
    snapshotted before and compared after every operation"""
    run = Run(hist)
    with np.errstate(all="ignore"):
        try:
            run.regs = [build_leaf(s) for s in hist["leaves"]]
        except Exception as e:      # a leaf the constructor rejects: not a history of the property
            run.leaf_error = errtag(e)
            return run
        for pl in run.regs:
            if not is_exact(pl) and np.asarray(pl.values).dtype.kind != "f":
                # not a landscape the arithmetic can be run on; `run` reports it (placeholder_violation)
                run.leaf_error = "placeholder-values"
                return run
        lazy = [sp.get("kind") in ("dgm", "gdgm") and sp.get("compute") is False for sp in hist["leaves"]]
        snaps = lambda: [snapshot(p, i < len(lazy) and lazy[i]) for i, p in enumerate(run.regs)]
        run.lazy_leaves = sum(lazy)
        first = snaps()
        run.reg_exact = [bool(hist["exact"])] * len(run.regs)
        for op in hist["ops"]:
            op = clamp(op, len(run.regs), run.redirect)
            run.ops.append(op)
            run.op_exact.append(result_exact(run, op))
            thunk, conts = prepare(run.regs, op)
            cview = containers_view(conts)
            rej = expected_rejection(hist["cls"], op, run.regs) or outside_quantifier(op)
            before = snaps()
            pre = freeze(run.regs[op[1]]) if is_aug(op) else None
            try:
                res = thunk()
                out = None
            except Exception as e:
                res, out = None, ("err", errtag(e))
            dead = []
            if pre is not None and out is None and hasattr(res, "hom_deg"):
                # `x op= y`: the object x itself may be modified (then it IS the result and its old registers are retired,
                # holding the frozen old value from here on); every OTHER live object must be observably unchanged
                dead = settle_aug(run.regs, res, pre)
                run.aug_ops += 1
                run.aug_in_place += 1 if dead else 0
            after = snaps()[:len(before)]
            obs, ronly, prv = snapshots_diff(before, after)
            run.private_changes += len(prv)
            cview2 = containers_view(conts)
            if cview != cview2:          # the lists handed to snap/lc/avg: same members (by identity), same coefficients (by value)
                (obs if _value(cview) != _value(cview2) else ronly).append([-1, "an argument list handed to the operation"])
            run.repr_only.extend([len(run.ops) - 1] + x for x in ronly)
            if obs:
                if run.untouched:
                    run.touched_at = len(run.ops) - 1
                    run.touched_what = obs
                run.untouched = False
            if out is None and is_exact_obj(res) and not numeric_cps(res):
                # a non-number scalar met only Python-int ordinates (`[1.0] * 0 == []`, `"x" * 0 == ""`): no exception, a
                # landscape with non-numeric ordinates.  Non-number scalars are outside the property's quantifier ("all real
                # scalars") and this case is outside the model (ASSUMPTIONS): the history ends before this operation.
                run.ops.pop()
                run.op_exact.pop()
                run.outside = "nonnumber_scalar_times_integer_ordinates"
                break
            if out is None:
                new = list(res) if isinstance(res, list) else [res]
                if any(not (hasattr(x, "hom_deg")) for x in new):
                    out = ("err", "err:NotALandscape:scalar_zero")       # lc_approx over nothing: numpy's scalar 0
                else:
                    for x in new:
                        run.shared += shares_structure(x, run.regs)
                    idx = list(range(len(run.regs), len(run.regs) + len(new)))
                    for j in dead:
                        run.redirect[j] = idx[0]
                    run.regs.extend(new)
                    run.reg_exact.extend([run.op_exact[-1]] * len(new))
                    out = ("ok", idx, isinstance(res, list))
            run.outcomes.append(out)
            if out[0] == "ok" and rej is not None:
                # the code returned a landscape where the reference tree (and the model) raise: the model's registers would be
                # numbered differently from here on, so the history ends with this operation.  For a degree / grid mismatch
                # that is a failing input (check_laws); for a zero divisor or a non-number it is outside the quantifier and
                # only the code/model comparison reports it (no-failing-input-found).
                run.outside = "accepted_where_reference_raises:" + rej[0]
                break
        obs, ronly, _ = snapshots_diff(first, snaps()[:len(first)])
        if obs:
            if run.untouched:
                run.touched_at = -1
                run.touched_what = obs
            run.untouched = False
        if ronly and not run.repr_only:
            run.repr_only.extend([-1] + x for x in ronly)
    return run


def result_exact(run, op):
    """is the code's float arithmetic for this operation exact (so that results are compared exactly)?
    +,-,neg and the scalar pool of exact histories: yes.  snap/lc/avg: only when no real interpolation
    happens (every source grid is the target grid; np.interp then returns the node values themselves)
    and, for avg, 1/len is dyadic."""
    name = op[0]
    ex = run.reg_exact
    if name in ("add", "sub"):
        return ex[op[1]] and ex[op[2]]
    if name in ("neg", "mul", "rmul", "div"):
        return ex[op[1]]
    idxs = op[1]
    if not idxs or not all(ex[i] for i in idxs):
        return False
    pls = [run.regs[i] for i in idxs]
    s, t, n = (op[3], op[4], op[5]) if name == "lc" else (op[2], op[3], op[4])
    S = min(p.start for p in pls) if s is None else s
    T = max(p.stop for p in pls) if t is None else t
    N = max(p.num_steps for p in pls) if n is None else n
    if not all((p.start, p.stop, p.num_steps) == (S, T, N) for p in pls):
        return False
    if name == "avg" and len(idxs) & (len(idxs) - 1):
        return False
    return True


def clamp(op, nreg, redirect=None):
    """register indices were drawn optimistically; fold them into what exists, and follow `redirect`: a register whose object
    an augmented assignment modified in place is never an operand again, its name now means the new value"""
    def ix(i):
        i %= nreg
        while redirect and i in redirect:
            i = redirect[i]
        return i
    name = op[0]
    tail = ["aug"] if is_aug(op) else []
    if name in ("add", "sub"):
        return [name, ix(op[1]), ix(op[2])] + tail
    if name == "neg":
        return [name, ix(op[1])]
    if name in ("mul", "rmul", "div"):
        return [name, ix(op[1]), op[2]] + tail
    if name in ("snap", "avg"):
        return [name, [ix(i) for i in op[1]]] + list(op[2:])
    if name == "lc":
        return [name, [ix(i) for i in op[1]]] + list(op[2:])
    return op


def shares_structure(res, regs):
    """informational: does the result share a depth list / array buffer with an existing object?"""
    n = 0
    for p in regs:
        if is_exact(res) and is_exact(p):
            ids = {id(d) for d in p.critical_pairs}
            n += sum(1 for d in res.critical_pairs if id(d) in ids)
        elif not is_exact(res) and not is_exact(p):
            if isinstance(res.values, np.ndarray) and isinstance(p.values, np.ndarray) and np.shares_memory(res.values, p.values):
                n += 1
    return 1 if n else 0


# --------------------------------------------------------------------------- comparison with the model

def canon_reg(pl):
    return [int(pl.hom_deg), cps_of(pl)] if is_exact(pl) else grid_of(pl)


def hist_line(run, leaf_canon):
    cls = run.hist["cls"]
    return "%s %s [%s]" % ("pla.xhist" if cls == "exact" else "pla.ghist", enc(leaf_canon),
                           ",".join(op_token(o) for o in run.ops))


def hist_scale(run):
    """largest finite magnitude of any ordinate / sample of any register of the history: the model replays the WHOLE history
    from the leaves in exact arithmetic, so the code's rounding error in a late register is relative to the largest
    intermediate value (e.g. (P - 1e9 Q) + (1e9 Q + R) cancels two terms of size 1e9), not to that register's own size"""
    m = 1.0
    for p in run.regs:
        if is_exact(p):
            vals = [abs(float(q[1])) for d in p.critical_pairs for q in d]
        else:
            v = np.asarray(p.values)
            vals = np.abs(v.astype(float)).ravel().tolist() if v.dtype.kind in "fiu" else []
        m = max([m] + [x for x in vals if math.isfinite(x)])
    return m


def cmp_exact(code, model, exact, scale0=1.0):
    """code: [hom_deg, cps(float)], model: [hom_deg, cps(Fraction)]"""
    if not isinstance(model, list) or len(model) != 2:
        return "model answered %r" % (model,)
    if code[0] != model[0]:
        return "hom_deg %r vs %r" % (code[0], model[0])
    if len(code[1]) != len(model[1]):
        return "depth count %d vs %d" % (len(code[1]), len(model[1]))
    scale = max([abs(p[1]) for d in code[1] for p in d if math.isfinite(p[1])] + [1.0, scale0])
    for k, (dc, dm) in enumerate(zip(code[1], model[1])):
        if len(dc) != len(dm):
            return "depth %d: %d points vs %d" % (k, len(dc), len(dm))
        for i, (pc, pm_) in enumerate(zip(dc, dm)):
            if not math.isfinite(pc[0]) or Fr(pc[0]) != pm_[0]:
                return "depth %d point %d: abscissa %r vs %s" % (k, i, pc[0], pm_[0])
            if not math.isfinite(pc[1]):
                return "depth %d point %d: ordinate %r" % (k, i, pc[1])
            if exact:
                if Fr(pc[1]) != pm_[1]:
                    return "depth %d point %d: ordinate %r vs %s (exact history)" % (k, i, pc[1], pm_[1])
            elif abs(pc[1] - float(pm_[1])) > TOL * scale:
                return "depth %d point %d: ordinate %r vs %r" % (k, i, pc[1], float(pm_[1]))
    return None


def cmp_grid(code, model, exact, scale0=1.0):
    if not isinstance(model, list) or len(model) != 5:
        return "model answered %r" % (model,)
    for name, i in (("hom_deg", 0), ("start", 1), ("stop", 2), ("num_steps", 3)):
        if Fr(code[i]) != model[i]:
            return "%s %r vs %s" % (name, code[i], model[i])
    vc, vm = code[4], model[4]
    if len(vc) != len(vm):
        return "rows %d vs %d" % (len(vc), len(vm))
    scale = max([abs(x) for row in vc for x in row if math.isfinite(x)] + [1.0, scale0])
    for k, (rc, rm) in enumerate(zip(vc, vm)):
        if len(rc) != len(rm):
            return "row %d: %d samples vs %d" % (k, len(rc), len(rm))
        for j, (a, b) in enumerate(zip(rc, rm)):
            if not math.isfinite(a):
                return "row %d sample %d: %r" % (k, j, a)
            if exact:
                if Fr(a) != b:
                    return "row %d sample %d: %r vs %s (exact history)" % (k, j, a, b)
            elif abs(a - float(b)) > TOL * scale:
                return "row %d sample %d: %r vs %r" % (k, j, a, float(b))
    return None


def tree_of(run, target, cap=1500):
    """unfold the register `target` of an exact/grid history into an expression tree over the leaves
    (None if a non-number, snap/lc/avg is involved or the tree is too large)"""
    nleaves = len(run.hist["leaves"])
    defs = {}
    for op, out in zip(run.ops, run.outcomes):
        if out[0] == "ok":
            if len(out[1]) == 1 and not out[2]:
                defs[out[1][0]] = op
            else:
                for i in out[1]:
                    defs[i] = None
    size = [0]

    def go(i):
        size[0] += 1
        if size[0] > cap:
            raise OverflowError
        if i < nleaves:
            return "[leaf,%d]" % i
        op = defs.get(i)
        if op is None or op[0] in ("snap", "lc", "avg"):
            raise OverflowError
        n = op[0]
        if n in ("add", "sub"):
            return "[%s,%s,%s]" % (n, go(op[1]), go(op[2]))
        if n == "neg":
            return "[neg,%s]" % go(op[1])
        if isinstance(op[2], dict):
            raise OverflowError
        if n in ("mul", "rmul"):
            return "[smul,%s,%s]" % (enc(op[2]), go(op[1]))
        return "[sdiv,%s,%s]" % (go(op[1]), enc(op[2]))
    try:
        return go(target)
    except OverflowError:
        return None


# --------------------------------------------------------------------------- [T] laws on the real code (grid side)

def _rows(pl):
    """the sample rows of a grid landscape as lists of floats ((0, n) and (0,) arrays: no rows, i.e. the zero function)"""
    v = np.asarray(pl.values, dtype=float)
    return v.tolist() if v.ndim == 2 else ([] if v.size == 0 else [v.ravel().tolist()])


def ulps(*xs):
    """rounding-level slack for ONE correctly rounded float operation on values of these sizes (2 ulp of the largest)"""
    return 4.5e-16 * max(abs(x) for x in xs)


def grid_law(op, regs, res, exact):
    """the statement's law for one successful grid operation on the code's own objects; None if it holds.
    Rows are compared as FUNCTIONS: a depth missing in the result (or in an operand) counts as the zero function, so a result
    without its trailing all-zero rows, or with extra all-zero rows, satisfies the law (the row COUNT is compared with the
    model's in `process`, as correspondence only).  Samples: exactly on exact histories (every float operation is exact there,
    whatever the order of evaluation); otherwise within 2 ulp of the correctly rounded pointwise value."""
    name = op[0]
    if name in ("add", "sub", "neg", "mul", "rmul", "div"):
        a, r = _rows(regs[op[1]]), _rows(res)
        b = _rows(regs[op[2]]) if name in ("add", "sub") else None
        rows = max(len(a), len(b) if b is not None else 0, len(r))
        keep = regs[op[1]]
        n = int(keep.num_steps)
        if any(len(row) != n for row in r):
            return {"row_width": [len(row) for row in r], "num_steps": n}
        if (res.start, res.stop, res.num_steps, res.hom_deg) != (keep.start, keep.stop, keep.num_steps, keep.hom_deg):
            return {"grid": [res.start, res.stop, res.num_steps, res.hom_deg]}
        c = num_of(op[2]) if name in ("mul", "rmul", "div") else None
        for k in range(rows + 1):
            for j in range(n):
                va = gval(a, k, j)
                if name == "add":
                    vb = gval(b, k, j)
                    want, tol = va + vb, ulps(va, vb)
                elif name == "sub":
                    vb = gval(b, k, j)
                    want, tol = va - vb, ulps(va, vb)
                elif name == "neg":
                    want, tol = -va, 0.0
                elif name in ("mul", "rmul"):
                    want = c * va
                    tol = ulps(want)
                else:
                    want = va / c
                    tol = ulps(want)
                if exact:
                    tol = 0.0
                got = gval(r, k, j)
                if not (abs(got - want) <= tol):
                    return {"depth": k, "sample": j, "result": got, "pointwise": want}
        return None
    return None


def snap_law(pls, snapped, s, t, n):
    """re-sampling is linear interpolation of every depth at the common grid points (constant outside); a depth missing on
    either side counts as the zero function.  Tolerance 1e-9 relative to the largest sample of the re-sampled landscape (no
    absolute floor: landscapes in small units are checked as sharply as any other)."""
    if len(pls) != len(snapped):
        return {"count": len(snapped)}
    if not snapped:
        return None
    # the common grid: the parameters that were given; for those that were not, whatever grid the outputs share (the reference
    # tree takes the tightest hull - a default the statement does not mention, compared with the model's as correspondence)
    if len({(q.start, q.stop, q.num_steps) for q in snapped}) > 1:
        return {"not_a_common_grid": [[q.start, q.stop, q.num_steps] for q in snapped]}
    S = snapped[0].start if s is None else s
    T = snapped[0].stop if t is None else t
    N = snapped[0].num_steps if n is None else n
    if isinstance(N, bool) or not isinstance(N, (int, np.integer)) or N < 1 or not all(math.isfinite(x) for x in (S, T)):
        return {"grid": [S, T, N]}
    N = int(N)
    grid = linspace_spec(S, T, N)
    for p, q in zip(pls, snapped):
        if (q.start, q.stop, q.num_steps, q.hom_deg) != (S, T, N, p.hom_deg):
            return {"grid": [q.start, q.stop, q.num_steps, q.hom_deg], "expected": [S, T, N, p.hom_deg]}
        xp = linspace_spec(p.start, p.stop, p.num_steps)
        pv, qv = _rows(p), _rows(q)
        if any(len(row) != N for row in qv):
            return {"row_width": [len(row) for row in qv], "num_steps": N}
        scale = max([abs(x) for row in pv for x in row] + [0.0])
        razor = p.num_steps > 1 and p.start == p.stop     # a step function: only dyadic grids are decided exactly
        for k in range(max(len(pv), len(qv))):
            fp = [Fr(x) for x in pv[k]] if k < len(pv) else None
            for j, x in enumerate(grid):
                want = float(interp_spec(x, xp, fp)) if fp is not None else 0.0
                got = gval(qv, k, j)
                if not abs(got - want) <= TOL * scale:
                    if razor and abs(float(x) - p.start) <= 1e-9 * max(1.0, abs(p.start)):
                        continue
                    return {"landscape": pls.index(p), "depth": k, "node": j, "result": got, "interpolated": want}
    return None


def lc_law(tl, pls, cs, s, t, n, res):
    """linear combination = the same combination of the re-sampled values (missing rows = 0, on either side).  Tolerance:
    rounding level, 1e-12 relative to the largest term of the sample's own sum (no absolute floor)."""
    snapped = tl.snap_pl(pls, start=s, stop=t, num_steps=n)
    if len(cs) == 1 and len(snapped) != 1:
        cs = cs * len(snapped)
    if len(snapped) == 1 and len(cs) != 1:
        snapped = snapped * len(cs)
    vals = [_rows(q) for q in snapped]
    r = _rows(res)
    rows = max([len(v) for v in vals] + [len(r)])
    q0 = snapped[0]
    if (res.start, res.stop, res.num_steps, res.hom_deg) != (q0.start, q0.stop, q0.num_steps, q0.hom_deg):
        return {"grid": [res.start, res.stop, res.num_steps]}
    N = int(q0.num_steps)
    if any(len(row) != N for row in r):
        return {"row_width": [len(row) for row in r], "num_steps": N}
    for k in range(rows):
        for j in range(N):
            terms = [c * gval(v, k, j) for c, v in zip(cs, vals)]
            want = math.fsum(terms)
            tol = 1e-12 * max([abs(x) for x in terms] + [0.0])
            got = gval(r, k, j)
            if not abs(got - want) <= tol:
                return {"depth": k, "node": j, "result": got, "combination": want}
    return None


def expected_rejection_grid(op, regs):
    """as expected_rejection_exact: ('mismatch', ..) for mismatched degrees or grids (any exception satisfies the statement),
    ('zero_divisor' / 'non_number', ..) outside the quantifier"""
    name = op[0]
    if name in ("add", "sub"):
        a, b = regs[op[1]], regs[op[2]]
        if a.hom_deg != b.hom_deg or a.start != b.start or a.stop != b.stop or a.num_steps != b.num_steps:
            return ("mismatch", "ValueError")
    return outside_quantifier(op) if name in ("mul", "rmul", "div") else None


def expected_rejection(cls, op, regs):
    if op[0] not in ("add", "sub", "mul", "rmul", "div"):
        return None
    return (expected_rejection_exact if cls == "exact" else expected_rejection_grid)(op, regs)


# --------------------------------------------------------------------------- one history end to end

def check_laws(ctx, run):
    """[T] the statement evaluated on the real code alone (re-executes the history); returns a list of failures"""
    hist = run.hist
    fails = []
    _, _, tl = _mods()
    with np.errstate(all="ignore"):
        regs = [build_leaf(s) for s in hist["leaves"]]
        regs_cps = [cps_of(p) if is_exact(p) else None for p in regs]
        for i, (op, out) in enumerate(zip(run.ops, run.outcomes)):
            name = op[0]
            want_rej = expected_rejection(hist["cls"], op, regs)
            if name == "lc" and outside_quantifier(op) is not None:
                want_rej = outside_quantifier(op)
            if want_rej is not None and want_rej[0] == "mismatch":
                # "mismatched degrees or grids are rejected": ANY exception satisfies the clause (the class and which check
                # fired are compared with the model's in `process`, as correspondence only); returning a value violates it.
                # Claimed as a failing input only for well-formed operands (a malformed operand is outside the quantifier).
                opnds = [regs[j] for j in op[1:3]]
                rejected = out[0] == "err"
                if all(wf_landscape_py(x) for x in opnds):
                    ctx.test("rejections", rejected)
                    if not rejected:
                        fails.append({"op_index": i, "op": op, "law": "mismatched degrees or grids must be rejected (any exception)",
                                      "outcome": list(out)})
                if rejected:
                    ctx.count("mismatch_rejected_with:" + out[1].split(":")[1])
            elif want_rej is not None:
                # zero divisor / non-number scalar: outside the quantifier ("all real scalars"), nothing is demanded
                ctx.count("outside_quantifier:%s:%s" % (want_rej[0], out[1].split(":")[1] if out[0] == "err" else "accepted"))
            valid = name in ("add", "sub", "neg", "mul", "rmul", "div") and want_rej is None and \
                all(wf_landscape_py(regs[j]) for j in (op[1:3] if name in ("add", "sub") else op[1:2]))
            try:
                res = apply_op(regs, op)
            except Exception as e:
                if valid:
                    ctx.test("valid_operands_accepted", False)
                    fails.append({"op_index": i, "op": op, "law": "operation on well-formed operands must succeed", "outcome": errtag(e)})
                continue
            if valid:
                ctx.test("valid_operands_accepted", True)
            if isinstance(res, list):
                new = res
            else:
                new = [res]
            if any(not hasattr(x, "hom_deg") for x in new):
                continue
            if want_rej is not None:
                pass
            elif not all(finite_landscape(x) for x in new):
                ctx.test("finite_results", False)
                if all(finite_landscape(regs[j]) for j in range(len(regs))):
                    fails.append({"op_index": i, "op": op, "law": "result of finite operands must be finite (got NaN/inf)",
                                  "at": canon_reg(new[0]) if is_exact(new[0]) else "values"})
            elif hist["cls"] == "exact":
                bad0 = pointwise_exact(op, regs_cps, cps_of(res), run.op_exact[i])
                bad = known_filter(ctx, op, regs_cps, cps_of(res), run.op_exact[i], bad0)
                if bad0 is None or bad is not None:      # failures that ARE the known finding are counted, not tested
                    ctx.test("pointwise_exact", bad is None)
                if bad:
                    fails.append({"op_index": i, "op": op, "law": "pointwise", "at": bad})
            elif name == "snap":
                bad = snap_law([regs[j] for j in op[1]], res, op[2], op[3], op[4])
                ctx.test("snap_is_interpolation", bad is None)
                if bad:
                    fails.append({"op_index": i, "op": op, "law": "snap", "at": bad})
            elif name in ("lc", "avg"):
                pls = [regs[j] for j in op[1]]
                cs = [num_of(c) for c in op[2]] if name == "lc" else [1.0 / len(pls)] * len(pls)
                s, t, n = (op[3], op[4], op[5]) if name == "lc" else (op[2], op[3], op[4])
                bad = lc_law(tl, pls, cs, s, t, n, res)
                ctx.test("lc_is_combination" if name == "lc" else "average_is_mean", bad is None)
                if bad:
                    fails.append({"op_index": i, "op": op, "law": name, "at": bad})
            else:
                bad = grid_law(op, regs, res, run.op_exact[i])
                ctx.test("pointwise_grid", bad is None)
                if bad:
                    fails.append({"op_index": i, "op": op, "law": "pointwise", "at": bad})
            for x in new:
                regs.append(x)
                regs_cps.append(cps_of(x) if is_exact(x) else None)
    return fails


def same_function_rows(got, want):
    """two sample arrays as functions on the same nodes: equal values, a missing row counts as zero"""
    try:
        g = np.asarray(got, dtype=float)
    except (TypeError, ValueError):
        return False
    g = g.tolist() if g.ndim == 2 else ([] if g.size == 0 else [g.ravel().tolist()])
    n = len(want[0])
    if any(len(row) != n for row in g):
        return False
    return all(gval(g, k, j) == gval(want, k, j) for k in range(max(len(g), len(want))) for j in range(n))


def placeholder_probe(hist):
    """A grid landscape built by the real constructor from a diagram has non-float `values` (the string placeholder
    ['empty'] of the code before /repo 357d745, when no bar is visible on the grid).  Such a landscape is the zero function;
    the statement's laws are evaluated on it by VALUE: P + Q = Q, Q - P = Q, 2 * P = 0, snap_pl([P]) = 0.
    Returns None (no such leaf) or (replayable history, the values, the first law that fails or None)."""
    E, A, tl = _mods()
    for spec in hist["leaves"]:
        if spec["kind"] != "gdgm":
            continue
        with contextlib.redirect_stdout(io.StringIO()), np.errstate(all="ignore"):
            P = build_leaf(spec)
            if np.asarray(P.values).dtype.kind == "f":
                continue
            n = int(P.num_steps)
            ones = {"kind": "vals", "start": float(P.start), "stop": float(P.stop), "num_steps": n, "hom_deg": int(P.hom_deg),
                    "values": [[1.0] * n]}
            Q = build_leaf(ones)
            probes = [("P + Q (Q = the constant sample vector 1 on the same grid)", lambda: (P + Q).values, [[1.0] * n]),
                      ("Q - P", lambda: (Q - P).values, [[1.0] * n]),
                      ("2 * P", lambda: (2 * P).values, [[0.0] * n]),
                      ("snap_pl([P])", lambda: tl.snap_pl([P])[0].values, [[0.0] * n])]
            failure = None
            for what, thunk, want in probes:
                try:
                    got = np.asarray(thunk())
                    if not same_function_rows(got, want):
                        failure = "%s = %r instead of %r" % (what, got.tolist(), want)
                except Exception as e:
                    failure = "%s raised %s" % (what, errtag(e))
                if failure:
                    break
        h2 = {"cls": "grid", "mode": hist["mode"], "exact": hist["exact"], "leaves": [spec, ones],
              "ops": [["add", 0, 1], ["sub", 1, 0], ["rmul", 0, 2], ["snap", [0], None, None, None]]}
        return h2, np.asarray(P.values).tolist(), failure
    return None


def placeholder_violation(ctx, hist):
    """reports what placeholder_probe finds: a failing input when one of the laws fails on the real code; when the non-float
    `values` (say an integer array of zeros) behaves as the zero function in every probe, the dtype alone is not fixed by the
    statement - a correspondence break only"""
    pr = placeholder_probe(hist)
    if pr is None:
        return
    h2, values, failure = pr
    ctx.test("grid_landscape_without_visible_bar_is_zero_function", failure is None)
    case = {"history": jsonable_hist(h2), "failure": {"law": "zero function with one zero row", "op_index": 0,
                                                      "values": values, "probe": failure}}
    if failure:
        ctx.violation("a grid landscape whose bars are all invisible on the grid (values = %r) does not behave as the zero "
                      "function: %s" % (values, failure), case, found_input=True, reproducer=reproducer(h2))
    else:
        case["correspondence"] = "dtype of values"
        report_correspondence(ctx, "values_dtype", "a grid landscape built from a diagram has non-float values %r; it behaves as the "
                              "zero function in every probe (P + Q, Q - P, 2 * P, snap_pl([P]))" % (values,), case,
                              reproducer=reproducer(h2))


def describe_op(op):
    """an operation as the Python statement it stands for (registers r0, r1, ...)"""
    if op is None:
        return ""
    sym = {"add": "+", "sub": "-", "mul": "*", "div": "/"}
    if is_aug(op):
        rhs = "r%d" % op[2] if op[0] in ("add", "sub") else repr(scalar_of(op[2]))
        return "(r%d %s= %s)" % (op[1], sym[op[0]], rhs)
    return "(%s)" % op[0]


def reproducer(hist, upto=None):
    return ("from harness.props import c09; run = c09.run_history(%r); print(run.outcomes, run.untouched)"
            % ({"cls": hist["cls"], "mode": hist["mode"], "exact": hist["exact"], "leaves": hist["leaves"],
                "ops": hist["ops"] if upto is None else hist["ops"][:upto + 1]},))


def jsonable_hist(hist):
    def fl(x):
        if isinstance(x, float) and not math.isfinite(x):
            return {"float": repr(x)}
        if isinstance(x, list):
            return [fl(y) for y in x]
        if isinstance(x, dict):
            return {k: fl(v) for k, v in x.items()}
        return x
    return fl(hist)


def unjson_hist(h):
    def fl(x):
        if isinstance(x, dict) and set(x) == {"float"}:
            return float(x["float"])
        if isinstance(x, list):
            return [fl(y) for y in x]
        if isinstance(x, dict):
            return {k: fl(v) for k, v in x.items()}
        return x
    return fl(h)


def process(ctx, runs):
    """model answers for a batch of executed histories, comparison, laws, violations"""
    lines, meta = [], []
    for run in runs:
        leaf_canon = [canon_reg(p) for p in run.regs[:len(run.hist["leaves"])]]
        lines.append(hist_line(run, leaf_canon))
        meta.append(("hist", run, None))
        # the expression-tree view of the last single-valued register (ties `run`/`denote` of the theorems)
        target = None
        for out in run.outcomes:
            if out[0] == "ok" and len(out[1]) == 1 and not out[2]:
                target = out[1][0]
        if target is not None and not all(finite_landscape(p) for p in run.regs):
            target = None
        if target is not None:
            tree = tree_of(run, target)
            if tree is not None:
                if run.hist["cls"] == "exact":
                    lines.append("pla.xexpr %s %s" % (enc(leaf_canon), tree))
                    meta.append(("xexpr", run, target))
                    if not all(wf_landscape_py(p) for p in run.regs[:len(run.hist["leaves"])]):
                        continue        # `denote` is the pointwise expression: only claimed for well-formed leaves (known finding)
                    cps = frac_cps(cps_of(run.regs[target]))
                    k = ctx.rng.randrange(len(cps) + 1)
                    pts = sample_points([cps] + [frac_cps(c[1]) for c in leaf_canon])
                    if len(pts) > 40:
                        pts = [pts[int(i * len(pts) / 40.0)] for i in range(40)]
                    lines.append("pla.xdenote %s %s %d %s" % (enc(leaf_canon), tree, k, enc(pts)))
                    meta.append(("xdenote", run, (target, k, pts)))
                else:
                    lines.append("pla.gexpr %s %s" % (enc(leaf_canon), tree))
                    meta.append(("gexpr", run, target))
                    k = ctx.rng.randrange(len(run.regs[target].values) + 1)
                    lines.append("pla.gdenote %s %s %d %d" % (enc(leaf_canon), tree, k, int(run.regs[target].num_steps)))
                    meta.append(("gdenote", run, (target, k)))
    answers = ask(lines)
    laws_done = {}
    for (kind, run, extra), ans, line in zip(meta, answers, lines):
        hist = run.hist
        problems = []
        hs = hist_scale(run)
        if ans == "bad-op":
            raise HarnessError("driver rejected the line %s" % line[:300])
        if kind == "hist":
            if not isinstance(ans, list) or len(ans) != len(run.ops):
                raise HarnessError("driver answered %r for %d ops" % (str(ans)[:200], len(run.ops)))
            for i, (op, out, m) in enumerate(zip(run.ops, run.outcomes, ans)):
                exact = run.op_exact[i]
                ctx.count("op:" + hist["cls"] + ":" + op[0])
                if out[0] == "err":
                    ctx.count("outcome:" + out[1])
                    if m != out[1]:
                        problems.append((i, "code raised %s, model answered %s" % (out[1], str(m)[:120])))
                    continue
                ctx.count("outcome:ok")
                ctx.count("compared:exactly" if exact else "compared:1e-9")
                if isinstance(m, str):
                    problems.append((i, "code returned a landscape, model answered %s" % m))
                    continue
                if hist["cls"] == "exact":
                    d = cmp_exact(canon_reg(run.regs[out[1][0]]), m, exact, hs)
                elif out[2]:
                    if m[0] != "many" or len(m[1]) != len(out[1]):
                        d = "snap_pl returned %d landscapes, model %s" % (len(out[1]), str(m)[:80])
                    else:
                        d = None
                        for ri, mm in zip(out[1], m[1]):
                            d = d or cmp_grid(canon_reg(run.regs[ri]), mm, exact, hs)
                else:
                    d = cmp_grid(canon_reg(run.regs[out[1][0]]), m[1], exact, hs) if m[0] == "one" else "model answered %s" % str(m)[:80]
                if d:
                    problems.append((i, d))
        elif kind == "xexpr":
            exact = run.reg_exact[extra]
            d = cmp_exact(canon_reg(run.regs[extra]), ans, exact, hs) if not isinstance(ans, str) else "run answered %s" % ans
            ctx.count("expr_trees")
            if d:
                problems.append((len(run.ops) - 1, "expression tree (run): " + d))
        elif kind == "gexpr":
            exact = run.reg_exact[extra]
            d = cmp_grid(canon_reg(run.regs[extra]), ans, exact, hs) if not isinstance(ans, str) else "runG answered %s" % ans
            ctx.count("expr_trees")
            if d:
                problems.append((len(run.ops) - 1, "expression tree (runG): " + d))
        elif kind == "xdenote":
            target, k, pts = extra
            exact = run.reg_exact[target]
            cps = frac_cps(cps_of(run.regs[target]))
            scale = max([abs(float(p[1])) for dd in cps for p in dd] + [1.0, hs])
            for t, v in zip(pts, ans):
                got = evalpl(depth_fn(cps, k), t)
                if (got != v) if exact else abs(float(got) - float(v)) > TOL * scale:
                    problems.append((len(run.ops) - 1, "denote at depth %d, t=%s: code's function %r, model %r" % (k, t, float(got), float(v))))
                    break
        elif kind == "gdenote":
            target, k = extra
            exact = run.reg_exact[target]
            vals = np.asarray(run.regs[target].values, dtype=float).tolist()
            scale = max([abs(x) for row in vals for x in row] + [1.0, hs])
            for j, v in enumerate(ans):
                got = gval(vals, k, j)
                if (Fr(got) != v) if exact else abs(got - float(v)) > TOL * scale:
                    problems.append((len(run.ops) - 1, "denoteG at depth %d, sample %d: code %r, model %r" % (k, j, got, float(v))))
                    break
        if id(run) not in laws_done:
            laws_done[id(run)] = check_laws(ctx, run)
            for f in laws_done[id(run)]:
                ctx.violation("landscape arithmetic law fails on the real code: %s at op %d %r: %s"
                              % (f["law"], f["op_index"], f["op"], f.get("at", f.get("outcome"))),
                              {"history": jsonable_hist(hist), "failure": f}, found_input=True,
                              reproducer=reproducer(hist, f["op_index"]))
        if problems:
            i, what = problems[0]
            found = any(f["op_index"] <= i for f in laws_done[id(run)])
            if not found:
                # search harder on this very history: every register, all sample points, no cap
                found = deep_search(ctx, run)
            if not laws_done[id(run)]:
                msg = ("code and model disagree (%s) at op %d %r of a %s history: %s%s"
                       % (kind, i, run.ops[i] if run.ops else None, hist["cls"], what,
                          "" if found else "; the statement's laws hold on the code for this history"))
                case = {"history": jsonable_hist(hist), "correspondence": line.split(" ")[0], "line": line[:3000],
                        "op_index": i, "code": str(run.outcomes[i])[:300] if run.outcomes else None, "model": what}
                if found:
                    ctx.violation(msg, case, found_input=True, reproducer=reproducer(hist, i))
                else:
                    report_correspondence(ctx, kind, msg, case, reproducer=reproducer(hist, i))
        if n_found(ctx) > 5:
            return


def deep_laws(ctx, run):
    """the failing-input search proper: every successful operation of the history re-executed on the real code and its law
    evaluated without any cap.  Exact histories: the pointwise law at *every* breakpoint, midpoint and outside point, exact
    rational evaluation.  Grid histories: the samplewise law at every node of every depth; `snap_pl` against the independent
    rational interpolation; `lc_approx` / `average_approx` against the combination of the re-sampled values AND the re-sampling
    they use against the interpolation (a history with lc/avg but no snap would otherwise never look at it).
    Returns the first failure (a dict like those of check_laws, marked "deep") or None; reports nothing itself."""
    hist = run.hist
    _, _, tl = _mods()
    with np.errstate(all="ignore"):
        regs = [build_leaf(s) for s in hist["leaves"]]
        for i, op in enumerate(run.ops):
            name = op[0]
            rej = expected_rejection(hist["cls"], op, regs) or outside_quantifier(op)
            try:
                res = apply_op(regs, op)
            except Exception:
                continue
            new = res if isinstance(res, list) else [res]
            if any(not hasattr(x, "hom_deg") for x in new):
                continue
            if rej is None and all(finite_landscape(p) for p in regs + new):
                ex = run.op_exact[i] if i < len(run.op_exact) else False
                law, bad = "pointwise", None
                if hist["cls"] == "exact":
                    cpss = [cps_of(p) for p in regs]
                    bad = pointwise_exact(op, cpss, cps_of(res), ex, cap=10 ** 9)
                    bad = known_filter(ctx, op, cpss, cps_of(res), ex, bad)
                elif name == "snap":
                    law, bad = "snap", snap_law([regs[j] for j in op[1]], res, op[2], op[3], op[4])
                elif name in ("lc", "avg"):
                    pls = [regs[j] for j in op[1]]
                    cs = [num_of(c) for c in op[2]] if name == "lc" else [1.0 / len(pls)] * len(pls)
                    s, t, n = (op[3], op[4], op[5]) if name == "lc" else (op[2], op[3], op[4])
                    law, bad = "snap (the re-sampling inside %s)" % name, snap_law(pls, tl.snap_pl(pls, start=s, stop=t, num_steps=n), s, t, n)
                    if not bad:
                        law, bad = name, lc_law(tl, pls, cs, s, t, n, res)
                else:
                    bad = grid_law(op, regs, res, ex)
                if bad:
                    return {"op_index": i, "op": op, "law": law, "deep": True, "at": bad}
            regs.extend(new)
    return None


def deep_search(ctx, run):
    """failing-input search after a code/model disagreement on this very history (deep_laws); at most 60 per run"""
    if ctx.counters.get("deep_searches", 0) >= 60:
        return False
    ctx.count("deep_searches")
    f = deep_laws(ctx, run)
    if f:
        ctx.violation("%s law fails on the real code at op %d %r: %r (found after a code/model disagreement)"
                      % (f["law"], f["op_index"], f["op"], f["at"]),
                      {"history": jsonable_hist(run.hist), "failure": f}, found_input=True,
                      reproducer=reproducer(run.hist, f["op_index"]))
        return True
    return False


def n_found(ctx):
    """violations with a failing input so far (the search stops after a few of those, never because of correspondence breaks)"""
    return sum(1 for _, f in ctx.violations if f)


def report_correspondence(ctx, key, what, case, **more):
    """a difference between code and model (or reference tree) that is NOT a failing input of the property: counted always,
    printed (VIOLATION ... no-failing-input-found) at most three times per run, and it never ends the search"""
    ctx.count("correspondence_break:" + key)
    if sum(1 for _, f in ctx.violations if not f) < 3:
        ctx.violation(what, case, found_input=False, **more)


CORPUS = [
    # the regression of /repo 9ea345a: a zero-length bar gives the depth [[1,0],[1,0],[1,0]]; adding it used to give NaN
    {"cls": "exact", "mode": "lattice", "exact": True,
     "leaves": [{"kind": "dgm", "dgms": [[[0.0, 3.0], [1.0, 1.0]], []], "hom_deg": 0},
                {"kind": "dgm", "dgms": [[[0.0, 3.0], [1.0, 4.0], [2.0, 2.5]], []], "hom_deg": 0}],
     "ops": [["add", 0, 1], ["add", 1, 0], ["sub", 0, 1], ["add", 0, 0], ["sub", 2, 0]]},
    # two degenerate depths add up to a single point [[1,0]]
    {"cls": "exact", "mode": "lattice", "exact": True,
     "leaves": [{"kind": "cps", "cps": [[[1.0, 0], [1.0, 0.0], [1.0, 0]]], "hom_deg": 0},
                {"kind": "cps", "cps": [[[1.0, 0.0]], [[0.0, 0.0], [1.0, 1.0], [2.0, 0.0]]], "hom_deg": 0}],
     "ops": [["add", 0, 0], ["add", 0, 1], ["add", 2, 1], ["mul", 3, 2], ["sub", 4, 1], ["neg", 2]]},
    # coincident abscissae, different depth counts, sign change, every scalar operator, zero divisor, non-number
    {"cls": "exact", "mode": "lattice", "exact": True,
     "leaves": [{"kind": "dgm", "dgms": [[[0.0, 4.0], [1.0, 3.0], [1.0, 3.0], [2.0, 6.0]], []], "hom_deg": 0},
                {"kind": "cps", "cps": [[[0.0, 0.0], [2.0, -2.0], [3.0, 1.0], [4.0, 0.0]]], "hom_deg": 0},
                {"kind": "cps", "cps": [[[0.0, 0.0], [2.0, 2.0], [4.0, 0.0]]], "hom_deg": 1}],
     "ops": [["add", 0, 1], ["sub", 1, 0], ["rmul", 3, -2], ["div", 4, 4], ["div", 0, 0.0], ["div", 0, {"nonnum": "str"}],
             ["mul", 1, {"nonnum": "none"}], ["add", 0, 2], ["sub", 2, 0], ["add", 5, 3], ["neg", 6], ["div", 1, -0.0]]},
    # grid: padding both ways, the four mismatches in the code's order, scalar ops
    {"cls": "grid", "mode": "lattice", "exact": True,
     "leaves": [{"kind": "vals", "start": 0.0, "stop": 4.0, "num_steps": 5, "hom_deg": 0, "values": [[0.0, 1.0, 2.0, 1.0, 0.0], [0.0, 0.0, 1.0, 0.0, 0.0]]},
                {"kind": "vals", "start": 0.0, "stop": 4.0, "num_steps": 5, "hom_deg": 0, "values": [[0.0, 2.0, 0.0, 2.0, 0.0]]},
                {"kind": "vals", "start": 1.0, "stop": 5.0, "num_steps": 6, "hom_deg": 1, "values": [[0.0, 2.0, 0.0, 2.0, 0.0, 1.0]]},
                {"kind": "vals", "start": 1.0, "stop": 4.0, "num_steps": 5, "hom_deg": 1, "values": [[0.0, 2.0, 0.0, 2.0, 0.0]]}],
     "ops": [["add", 0, 1], ["sub", 1, 0], ["add", 0, 2], ["add", 2, 3], ["sub", 0, 3], ["neg", 0], ["mul", 0, 3], ["rmul", 1, 0.5],
             ["div", 0, 4], ["div", 0, 0], ["mul", 0, {"nonnum": "list"}], ["div", 1, {"nonnum": "str"}],
             ["snap", [0, 3, 2], None, None, None], ["lc", [0, 1], [2.0, 3.0], None, None, None], ["avg", [0, 1], None, None, None],
             ["lc", [0, 1, 1], [2.0], None, None, None], ["lc", [0], [2, 1, 1], None, None, None], ["lc", [0, 1, 1], [2.0, 1.0], None, None, None],
             ["avg", [], None, None, None], ["snap", [0], 5.0, 1.0, 3], ["lc", [0, 3], [1.0, 1.0], None, None, None], ["snap", [0, 1], 0.0, 8.0, 9],
             ["lc", [0], [], None, None, None], ["snap", [0], None, None, 0]]},
    # grid landscapes from diagrams through the real constructor
    {"cls": "grid", "mode": "lattice", "exact": True,
     "leaves": [{"kind": "gdgm", "dgms": [[[0.0, 4.0], [1.0, 3.0]], []], "hom_deg": 0, "start": 0.0, "stop": 4.0, "num_steps": 9},
                {"kind": "gdgm", "dgms": [[[0.0, 2.0], [2.0, 4.0], [1.0, 3.0]], []], "hom_deg": 0, "start": 0.0, "stop": 4.0, "num_steps": 9},
                {"kind": "gdgm", "dgms": [[[0.0, 2.0]], []], "hom_deg": 0, "start": None, "stop": None, "num_steps": 5}],
     "ops": [["add", 0, 1], ["sub", 0, 1], ["add", 0, 2], ["snap", [0, 2], None, None, None], ["avg", [0, 1, 2], None, None, None]]},
]


# source translator (DESIGN.md 3.2): part of the model is regenerated from the source text on every run
TRUSTED = list(TRUSTED) + [py2lean.trusted_note("plarith")]
PROP_FILES = ["PersimVerif/Props/C09.lean"] + py2lean.prop_files("plarith")
# landscape engine (py2lean_landscape.py): the operators of both classes, union_crit_pairs, snap_pl / lc_approx / average_approx
TRUSTED += [py2lean.trusted_note("plexact"), py2lean.trusted_note("plgrid")]
PROP_FILES += [f for k in ("plexact", "plgrid") for f in py2lean.prop_files(k) if f not in PROP_FILES]
PROP_FILES = list(dict.fromkeys(PROP_FILES))


def pre_build(ctx):
    """source translator: regenerate Generated/Src*.lean from PERSIM_ROOT's source"""
    py2lean.pre_build(ctx, ("plarith", "plexact", "plgrid"))


def run(ctx):
    py2lean.report_broken(ctx, PROP_FILES)
    r = ctx.rng
    corethm.record(ctx, CORE_THEOREMS, ["PersimVerif/Props/C09.lean"])
    ctx.extra["anchored_digest"] = _digest()
    n = ctx.n(1000, 14000)
    if ANCHOR_DIGEST is not None and ctx.extra["anchored_digest"] != ANCHOR_DIGEST and not ctx.thorough:
        n = 1500            # the anchored functions were rewritten: explore harder (DESIGN 3.2)
        ctx.count("digest_changed")
    known_replay(ctx)
    hists = list(CORPUS) + [KNOWN_HIST]
    for _ in range(n):
        u = r.random()
        hists.append(gen_exact_history(ctx, nonzero_ends=u < 0.1) if u < 0.55 else gen_grid_history(ctx))
    batch = []
    cov = common.LineCov(E_FILES)
    for hi, hist in enumerate(hists):
        if hi < 60:
            with cov:
                runx = run_history(hist)
        else:
            runx = run_history(hist)
        if runx.leaf_error is not None:
            ctx.count("leaf_rejected:" + runx.leaf_error)
            if runx.leaf_error == "placeholder-values":
                placeholder_violation(ctx, hist)
                if n_found(ctx) > 5:
                    break
            continue
        nontrivial = any(o[0] == "ok" and op[0] in ("add", "sub", "snap", "lc", "avg") for op, o in zip(runx.ops, runx.outcomes))
        ctx.case({"cls": hist["cls"], "leaves": hist["leaves"], "ops": runx.ops}, nontrivial, sample_every=61)
        ctx.count("histories:" + hist["cls"] + (":exact-arith" if hist["exact"] else ":tolerance"))
        if hist.get("nonzero_ends"):
            ctx.count("histories:exact:hand-made critical points with non-zero end ordinates")
        if hist["mode"] == "offset":
            ctx.count("histories:exact:large common offset (1e12..1e13), small non-dyadic bars")
        if runx.aug_ops:
            ctx.count("augmented_assignment:%s:%s" % (hist["cls"], "in place" if runx.aug_in_place else "new object (binary operator)"),
                      runx.aug_ops)
        ctx.count("history_len:%d" % len(runx.ops))
        if runx.outside:
            ctx.count("history_cut:outside_model:" + runx.outside)
        if runx.lazy_leaves:
            ctx.count("leaf:compute=False(lazy)", runx.lazy_leaves)
        for op in runx.ops:
            if op[0] in ("mul", "rmul", "div") and isinstance(op[2], dict) and "np" in op[2]:
                ctx.count("scalar:np.%s:%s:%s" % (op[2]["np"], hist["cls"], op[0]))
        ctx.test("operands_untouched", runx.untouched)
        if runx.private_changes:
            ctx.count("private_attribute_of_an_operand_rewritten(not part of the property)", runx.private_changes)
        if runx.shared:
            ctx.count("result_shares_operand_depth_lists", runx.shared)
        if hist["cls"] == "exact":
            classify_leaves(ctx, runx)
        else:
            for spec, pl in zip(hist["leaves"], runx.regs):
                if spec["kind"] == "gdgm":
                    v = np.asarray(pl.values)
                    zero_row = v.shape[0] == 1 and not v.any()
                    ctx.count("leaf:grid_from_diagram:" + ("one_zero_row(no visible bar)" if zero_row else "visible_bars"))
                    if zero_row:
                        ctx.test("grid_landscape_without_visible_bar_is_zero_function", True)
        if not runx.untouched:
            top = runx.ops[runx.touched_at] if runx.touched_at is not None and 0 <= runx.touched_at < len(runx.ops) else None
            ctx.violation("an operand changed during operation %s %s of a %s history: [register, public attribute] %r has another VALUE "
                          "afterwards (every live landscape's public attributes / represented function and the argument lists are "
                          "compared before/after each operation, the leaves again at the end; after an augmented assignment "
                          "`x op= y` every object other than x itself)"
                          % (runx.touched_at, describe_op(top), hist["cls"], runx.touched_what[:6]),
                          {"history": jsonable_hist(hist), "failure": {"law": "operands untouched", "op_index": runx.touched_at,
                                                                       "changed": runx.touched_what[:20]}},
                          found_input=True, reproducer=reproducer(hist))
        elif runx.repr_only:
            # same values, other bytes / container types (or a new public attribute): the statement ("observably unchanged")
            # does not fix these
            report_correspondence(ctx, "operand_representation",
                                  "an operand's representation changed but not its value ([op, register, what] %r): public attributes "
                                  "and the represented function are unchanged by value" % (runx.repr_only[:6],),
                                  {"history": jsonable_hist(hist), "correspondence": "operand representation (bytes / container types)",
                                   "changes": runx.repr_only[:20]}, reproducer=reproducer(hist))
        batch.append(runx)
        if len(batch) >= 150:
            process(ctx, batch)
            batch = []
        if n_found(ctx) > 5:
            break
    if batch and n_found(ctx) <= 5:
        process(ctx, batch)
    ctx.extra["branch_hits"] = cov.summary()


def classify_leaves(ctx, run):
    """distribution of the structural classes the generator is meant to reach"""
    nl = len(run.hist["leaves"])
    for p in run.regs[:nl]:
        cps = p.critical_pairs
        if not cps:
            ctx.count("leaf:empty_landscape")
            continue
        if any(len(d) == 0 for d in cps):
            ctx.count("leaf:empty_depth_list")
        if any(len(d) == 1 for d in cps):
            ctx.count("leaf:single_point_depth")
        if any(d[i][0] == d[i + 1][0] for d in cps for i in range(len(d) - 1)):
            ctx.count("leaf:repeated_point(zero-length bar)")
    for op, out in zip(run.ops, run.outcomes):
        if out[0] == "ok" and op[0] in ("add", "sub"):
            a, b = run.regs[op[1]].critical_pairs, run.regs[op[2]].critical_pairs
            if len(a) != len(b):
                ctx.count("binary:different_depth_counts")
            xa = {float(p[0]) for d in a for p in d}
            xb = {float(p[0]) for d in b for p in d}
            if xa & xb:
                ctx.count("binary:coincident_abscissae")
            res = run.regs[out[1][0]].critical_pairs
            if any(len(d) == 1 for d in res):
                ctx.count("result:single_point_depth")


def _digest():
    return {
        "auxiliary": common.source_digest("persim/landscapes/auxiliary.py",
                                          ["union_vals", "union_crit_pairs", "pos_to_slope_interp", "slope_to_pos_interp", "sum_slopes"]),
        "exact": common.source_digest("persim/landscapes/exact.py",
                                      ["__neg__", "__add__", "__sub__", "__mul__", "__rmul__", "__truediv__", "__init__"]),
        "approximate": common.source_digest("persim/landscapes/approximate.py",
                                            ["__neg__", "__add__", "__sub__", "__mul__", "__rmul__", "__truediv__", "__init__"]),
        "tools": common.source_digest("persim/landscapes/tools.py", ["snap_pl", "lc_approx", "average_approx"]),
        "base": common.source_digest("persim/landscapes/base.py", ["PersLandscape"]),
    }


def replay(ctx, rep):
    c = rep["case"]
    if "history" not in c:
        print("nothing to replay on the code: %s" % (rep.get("what"),))
        return True
    hist = unjson_hist(c["history"])
    runx = run_history(hist)
    print("outcomes:", [o[0] if o[0] == "ok" else o[1] for o in runx.outcomes])
    print("operands untouched:", runx.untouched)
    if runx.leaf_error == "placeholder-values":
        pr = placeholder_probe(hist)
        print("a grid landscape built from a diagram has non-float values %r (no bar visible on the grid): it must behave as "
              "the zero function; first law that fails: %s" % (pr[1] if pr else None, pr[2] if pr else None))
        return pr is None or pr[2] is None
    if runx.leaf_error is not None:
        print("leaf rejected by the constructor:", runx.leaf_error)
        return True
    if not runx.untouched:
        print("changed [register, public attribute] at op %s: %r" % (runx.touched_at, runx.touched_what[:10]))
    if runx.repr_only:
        print("representation-only changes (not part of the property):", runx.repr_only[:10])
    fails = check_laws(ctx, runx)
    deep = deep_laws(ctx, runx)         # the uncapped evaluation (what `deep_search` reports)
    for f in fails + ([deep] if deep else []):
        print("law fails:", f)
    if c.get("correspondence"):
        print("(this replay records a code/model difference that is not a failing input; re-run `./check.py C09` with "
              "VERIF_SEED=%s for the model side)" % rep.get("seed"))
    return runx.untouched and not fails and not deep


MANIFEST = {
    "text": "Proof: 36 Lean theorems, of which 27 core (the rest: helpers, bridges between guards, definitional restatements, three "
            "concrete counterexamples), about the model of the landscape operators over any linear ordered field. For depth lists in the "
            "class the constructors produce (non-empty, zero end ordinates, non-decreasing abscissae where a zero-width step repeats "
            "the same point - so zero-length bars are included) the merged-slope sum evaluates to the pointwise sum at every real t "
            "and stays in the class (hinge representation: sum_slopes is additive for every pair of slope lists, evalPL of a "
            "well-formed list equals the hinge sum of its slopes); negation, scalar multiple, quotient by c != 0 and difference "
            "likewise; a depth missing in one operand counts as zero; by structural induction every expression tree over shared "
            "operands (exact and grid landscapes) succeeds and evaluates to the pointwise expression at every depth. Grid side: padded "
            "sum/difference/scalar operations are samplewise with missing rows = 0; each degree/start/stop/num_steps mismatch, a zero "
            "divisor and a non-number are rejected by the model with the reference code's error in the code's order (for the verdict on "
            "the real code any exception on a mismatch counts as rejected; zero divisors and non-numbers are outside 'all real scalars' "
            "and a different behaviour there, like a different exception class, is a correspondence break only); snap_pl is np.interp of every depth at "
            "the common nodes and np.interp is the linear interpolant with constant extension; lc_approx equals the same combination "
            "of the re-sampled values; average_approx is lc with 1/n, i.e. the mean. The model is tied to the code on every run by "
            "replaying generated histories (0-12 operations on shared operands, results reused, augmented assignments included) of the real operators at Rat from "
            "the leaves: breakpoint lists exactly, ordinates/samples exactly on dyadic histories and within 1e-9 otherwise, error "
            "kinds exactly; and the statement's laws are evaluated on the real code alone with exact rationals. "
            "NOT covered, and violated by the code: the part 'arbitrary critical points' of the quantifier. For hand-made critical points "
            "whose first or last ordinate is not 0 (outside the guard wfDepth) exact + and - lose the end ordinates, because the slope "
            "representation restarts at 0 and continues with slope 0; this is the theorem pair nonzero_start_counterexample / "
            "nonzero_last_counterexample about the model of the current code (so the guard of sum_eval is necessary), it is listed as "
            "a known finding, its listed input is replayed on every run (KNOWN-FINDING line while it fails) and failures of + / - on "
            "generated inputs of that class are attributed to it only when the result is exactly what the slope representation keeps "
            "(an independent description of the defect); any other failure is a VIOLATION. Grid landscapes on which no bar is visible "
            "(one zero row) are generated on purpose and take part in every operation as the zero function.",
    "note": "Trusted: Lean kernel + Mathlib, axioms propext/Classical.choice/Quot.sound; the correspondence harness and the compiled driver "
            "executable (compiled by Lean's compiler, not checked by the kernel); np.interp/np.linspace/"
            "np.pad/np.sum(object array) semantics as modelled. [T] only: 'operands observably unchanged' (the public attributes of every "
            "live landscape and the argument lists compared by value around every operation and at the end of every history - after an "
            "augmented assignment `x op= y` every object other than x itself, so an in-place scaling of a sum that shares depth lists with "
            "its operands is a failing input; new private "
            "attributes such as caches are ignored, byte-level differences of equal values are a correspondence break only; "
            "aliasing is invisible to a functional model, see also C19; for leaves built with compute=False the represented function is "
            "compared instead of the cache attributes critical_pairs/values/max_depth, which the first operation fills) and float rounding "
            "(tolerance 1e-9 relative to the largest magnitude occurring anywhere in the history, because the model replays the whole "
            "history exactly). Observation, counted "
            "(result_shares_operand_depth_lists) and not failed: exact +/- put the deeper operand's own depth lists into the result "
            "(union_crit_pairs), so a user's in-place edit of the result would change the operand; no operation of the property does that. "
            "Regression: /repo 9ea345a (zero-width segments) has the theorem old_posToSlope_counterexample and a corpus case.",
    "technique": "Lean 4 theorems over a hand-written model + differential correspondence on operation histories",
}
MANIFEST["note"] += " " + py2lean.manifest_note("plarith")
MANIFEST["note"] += " " + py2lean.manifest_note("plexact") + " " + py2lean.manifest_note("plgrid")
