"""C15 — sliced Wasserstein is the averaged 1-D transport cost and a pseudo-metric.

Theorems: lean/PersimVerif/Props/C15.lean (model lean/PersimVerif/Model/Sliced.lean at the reals / an ordered field).
Tie: `persim.sliced_wasserstein.sliced_wasserstein` vs the same model executed at Float (driver op `sw`) with the
     SAME float64 direction vectors the code builds (computed here exactly as the code does and sent as rationals;
     float64 since /repo e37e244), to 1e-12 of the coordinate scale (observed 2e-16).
[T]: the laws of the statement evaluated directly on the real code (rounding is outside every theorem): symmetry,
     reorderings, diagonal points, translation (also by offsets up to 1e6 x the feature size, both signs), scaling,
     triangle, `<= 2*W1`; integer and float32 arrays of the same numbers.  The translation / diagonal-point tolerances are
     float64 rounding of the coordinates involved (1e-14 * sum|coordinates|, observed 1.3e-16), not a fraction of the
     coordinate scale: the float32 directions of the pre-fix code moved the value by 1.5e-8 of the coordinate scale.
     'All M >= 1': every M from 1 to 300 once against the definition (`msweep`), random M up to 300 elsewhere; a class of
     30-100-point diagrams (thorough to 250) with all laws.
Direction sampling: the definition is evaluated with the code's documented directions (1/2 + i/M)*pi.  The statement says only
     "the M sampled directions of the half circle"; a value that differs from that average is still accepted for the VERDICT if
     it lies within what M EQUALLY SPACED directions can give for some offset (`spec_band`: the average as a function of the
     offset is sampled at 64..4096 offsets and widened by its Lipschitz bound, so no equally spaced sampling — e.g. midpoints —
     is ever rejected) and is then reported as a correspondence break without a failing input.  Samplings that are not equally
     spaced are not accepted.
"""
import itertools
import math
import numpy as np
from .. import common
from ..translator import py2lean
from ..common import enc, ask, call

LEVEL = "proof"
TRUSTED = [py2lean.trusted_note("sliced")]
PROP_FILES = ["PersimVerif/Props/C15.lean", py2lean.prop_file("sliced"), "PersimVerif/Props/C15C14Model.lean"]
RULE = ("pairs/triples of diagrams from one PRNG: sizes 0-8 (thorough 0-20), coordinates from lattice/half/dyadic/decimal/"
        "uniform modes (scales 2^-20..2^20), duplicates, diagonal points, then with prob 1/2 shifted along the diagonal or "
        "reflected so that coordinates of either sign occur; kinds random / reordered-equal / nearly-equal / one or both empty; "
        "with prob 0.15 moved far from the origin (offset +-10^U(2,6) x the largest coordinate, features unchanged); "
        "M in {1,2,3,10,50} and random M<=300; every M in 1..300 once on diagrams of <= 4 points (thorough 1..600); a class of "
        "30-100-point diagrams (thorough to 250); non-trivial = both diagrams non-empty and not reorderings of each "
        "other; distinct by digest of (PD1, PD2, M); laws: translations by +-10^U(0,6) x the coordinate span and diagonal "
        "points that far out; a representation stream with int8/uint8/int32/int64/float32 arrays")
ASSUMPTIONS = [
    "inputs are float64 arrays of shape (n,2), n >= 0 (the routine reads PD.shape), with finite entries; M is a positive int",
    "np.cos/np.sin rounding is not modelled: the direction vectors are computed by the harness with the code's own "
    "expressions (theta accumulated from 0.5 in steps 1.0/M, float64) and passed to the model; the theorems hold for "
    "every list of directions",
    "np.dot/sorted/scipy cityblock agree with the model's Float arithmetic to 1e-12 relative to the coordinate scale (compared on "
    "every case; observed 2e-16)",
    "the definition's directions are the code's documented (1/2 + i/M)*pi; for the verdict any value M equally spaced directions of the "
    "half circle can give (any offset; sampled offsets widened by the Lipschitz bound sum|augmented point - centroid|*pi/(2MK)) is "
    "accepted and reported as a correspondence break only; for more than 6 augmented points the 1-D transport cost of the "
    "definition is the sorted L1 cost (theorem sorted_l1_is_ot)",
    "theorems are exact-arithmetic with the exact diagonal projection (c*c = 1/2); the code's float64 diag_theta makes the "
    "projection inexact by one rounding (1e-16 relative), inside the [T] tolerances (1e-14 of the sum of the coordinates involved)",
]
TOL = 1e-12           # code vs model at Float with the same float64 directions, relative to the coordinate scale
RND = 1e-14           # [T] laws: float64 rounding of the coordinates involved (observed 1.3e-16 * sum|coordinates|)
# theorems that carry a clause of the statement (helpers, concrete instances and rfl restatements such as sliceCost_eq,
# slice_lengths, the generic swWith_* forms and sw_ok_iff are not in this list)
CORE_THEOREMS = ["sw_eq_average", "sorted_l1_is_ot", "sw_symm", "sw_perm", "sw_self_perm", "sw_nonneg", "sw_triangle", "sw_scale",
                 "sw_translate_diag", "sw_ignores_diagonal", "sw_ignores_diagonal_right", "sw_ignores_diagonal_filter",
                 "sw_le_two_w1", "sw_le_two_w1_min",
                 # composed with the C02 model (Props/C15C14Model.lean): what the two models return on the same pair
                 "wsReturns_isW1", "model_sw_le_two_model_wasserstein", "model_sw_le_two_model_wasserstein_dirs", "guard_needed"]
MS = [1, 2, 3, 10, 50]
EXPECTED_DIGEST = None   # filled lazily into the evidence; a changed digest only raises the budget


def S():
    return common.pm("sliced_wasserstein")


def W():
    return common.pm("wasserstein")


def arr(d):
    return np.array(d, dtype=float).reshape(-1, 2)


def dirs64(M):
    """the direction vectors exactly as the code computes them (float64 since /repo e37e244)"""
    out, theta, step = [], 0.5, 1.0 / M
    for _ in range(M):
        l = np.array([np.cos(theta * np.pi), np.sin(theta * np.pi)])
        out.append([float(l[0]), float(l[1])])
        theta += step
    return out


def diag64():
    d = np.array([np.cos(0.25 * np.pi), np.sin(0.25 * np.pi)])
    return [float(d[0]), float(d[1])]


def code_sw(A, B, M, dtype=None):
    with np.errstate(all="ignore"):
        if dtype is None:
            st, v, _ = call(S().sliced_wasserstein, arr(A), arr(B), M)
        else:
            st, v, _ = call(S().sliced_wasserstein, np.array(A, dtype=dtype).reshape(-1, 2), np.array(B, dtype=dtype).reshape(-1, 2), M)
    return ("err:" + v) if st == "err" else float(v)


def ot1d(u, v):
    """1-D optimal transport cost between equally many points: exhaustive over bijections when small"""
    if len(u) <= 6:
        return min((math.fsum(abs(a - b) for a, b in zip(u, p)) for p in itertools.permutations(v)), default=0.0)
    return math.fsum(abs(a - b) for a, b in zip(sorted(u), sorted(v)))


def aug(A, B):
    """each diagram augmented with the (exact) diagonal projections of the other"""
    dA = [((b + d) / 2.0,) * 2 for b, d in A]
    dB = [((b + d) / 2.0,) * 2 for b, d in B]
    return [tuple(p) for p in A] + dB, [tuple(p) for p in B] + dA


def avg_cost(U, V, M, phi):
    """average over the M equally spaced directions phi + i*pi/M, i < M, of the 1-D transport cost between the projections"""
    tot = []
    for i in range(M):
        th = phi + i * math.pi / M
        c, s = math.cos(th), math.sin(th)
        tot.append(ot1d([c * x + s * y for x, y in U], [c * x + s * y for x, y in V]))
    return math.fsum(tot) / M


def spec_sw(A, B, M):
    """the definition with the code's DOCUMENTED sampling, written independently of code and model: average over
    theta_i = (1/2 + i/M)*pi, i < M, of the 1-D transport cost between each diagram augmented with the (exact) diagonal
    projections of the other"""
    U, V = aug(A, B)
    tot = []
    for i in range(M):
        th = (0.5 + i / M) * math.pi
        c, s = math.cos(th), math.sin(th)
        tot.append(ot1d([c * x + s * y for x, y in U], [c * x + s * y for x, y in V]))
    return math.fsum(tot) / M


BAND = {"computed": 0, "cap": 300}


def spec_band(A, B, M, value):
    """Which values can 'the average over M equally spaced directions of the half circle' take?  Every such sampling is
    {phi + i*pi/M} for an offset phi in [0, pi/M) (the slice cost is pi-periodic), and f(phi) = that average is L-Lipschitz
    with L = sum of the distances of all augmented points to their common centroid (each summand |<l_theta, u - v>| of a
    bijection has derivative at most |u - v| <= |u - m| + |v - m|; a minimum over bijections of L-Lipschitz functions is
    L-Lipschitz).  f is sampled at K offsets; every legitimate value lies in [min - L*pi/(2MK), max + L*pi/(2MK)].  While
    `value` is in the gray zone (outside the sampled range, inside the margin) K is quadrupled up to 4096.
    -> (inside the sampled range or the final gray zone, lo, hi, margin, K)"""
    U, V = aug(A, B)
    pts = U + V
    if not pts:
        return abs(value) <= 1e-300, 0.0, 0.0, 0.0, 0
    mx, my = math.fsum(p[0] for p in pts) / len(pts), math.fsum(p[1] for p in pts) / len(pts)
    L = math.fsum(math.hypot(p[0] - mx, p[1] - my) for p in pts)
    K, vals = 64, {}
    while True:
        for k in range(K):
            key = (k * 4096) // K
            if key not in vals:
                vals[key] = avg_cost(U, V, M, (math.pi / M) * k / K)
        lo, hi = min(vals.values()), max(vals.values())
        margin = L * math.pi / (2 * M * K)
        rnd = RND * scale_of(A, B)
        if lo - rnd <= value <= hi + rnd:
            return True, lo, hi, margin, K
        if not (lo - margin - rnd <= value <= hi + margin + rnd):
            return False, lo, hi, margin, K
        if K >= 4096 or K * M > 200000:
            return True, lo, hi, margin, K          # cannot be told apart from a legitimate sampling: accepted (sound direction)
        K *= 4


def spec_verdict(code, A, B, M):
    """(holds, correspondence_only, info): `code` against the definition.  Equal (to float64 rounding of the coordinates) to the
    average over the documented directions (1/2 + i/M)*pi: holds.  Otherwise it still holds — as far as the STATEMENT goes,
    which says only 'the M sampled directions of the half circle' — if it lies within what equally spaced samplings can give
    (`spec_band`); that is reported as a correspondence break, not as a failing input."""
    spec = spec_sw(A, B, M)
    tol = RND * scale_of(A, B) + 1e-300
    info = {"code": code, "definition (directions (1/2+i/M)pi)": spec, "tol": tol}
    if isinstance(code, str) or not math.isfinite(code):
        return False, False, info
    if abs(code - spec) <= tol:
        return True, False, info
    if BAND["computed"] >= BAND["cap"] or M * (len(A) + len(B) + 1) > 60000:
        info["equally spaced samplings"] = "not evaluated (budget)"
        return True, True, info
    BAND["computed"] += 1
    inside, lo, hi, margin, K = spec_band(A, B, M, code)
    info["equally spaced samplings (any offset)"] = {"min": lo, "max": hi, "lipschitz margin": margin, "offsets sampled": K}
    return inside, inside, info


def scale_of(*dgms):
    return math.fsum(abs(x) for d in dgms for p in d for x in p)


STATS = {"w1_reference_persim": 0, "w1_reference_own_persim_within_rotation_rounding": 0, "w1_reference_own": 0}


def w1_persim(A, B):
    import warnings
    with warnings.catch_warnings():
        warnings.simplefilter("ignore")
        return float(W().wasserstein(arr(A), arr(B)))


def w1_own(A, B):
    """1-Wasserstein distance (Euclidean ground metric, |d-b|/sqrt2 to the diagonal) computed from coordinate differences"""
    from scipy.optimize import linear_sum_assignment
    n, m = len(A), len(B)
    if n + m == 0:
        return 0.0
    D = np.zeros((n + m, n + m))
    for i in range(n):
        for j in range(m):
            D[i, j] = math.hypot(A[i][0] - B[j][0], A[i][1] - B[j][1])
        D[i, m:] = abs(A[i][1] - A[i][0]) / math.sqrt(2.0)
    for j in range(m):
        D[n:, j] = abs(B[j][1] - B[j][0]) / math.sqrt(2.0)
    r, c = linear_sum_assignment(D)
    return float(D[r, c].sum())


def w1(A, B):
    """reference W1; returns (value, which).  `persim.wasserstein` is difference-based since /repo 6c9bac1 (no longer
    sklearn's expanded |x|^2+|y|^2-2xy) and is the reference at every scale for diagrams with death >= birth, up to the
    rounding of its 45-degree rotation onto the diagonal (<= 4.5e-16 * sum|coordinates|, measured); where W1 itself is that
    small the difference-based value is used and the agreement up to that rounding is counted (the generator's shifted /
    reflected diagrams keep death >= birth; wasserstein's signed diagonal cost (d-b)/sqrt2 would not apply otherwise).
    A disagreement beyond the rounding would make `own` the reference and is counted separately (0 on the current tree)."""
    own, per = w1_own(A, B), w1_persim(A, B)
    if abs(own - per) <= 1e-9 * abs(own) + 1e-300:
        STATS["w1_reference_persim"] += 1
        return per, "persim"
    if abs(own - per) <= 2e-15 * scale_of(A, B):
        STATS["w1_reference_own_persim_within_rotation_rounding"] += 1
        return own, "own (persim agrees up to the rounding of its rotation)"
    STATS["w1_reference_own"] += 1
    return own, "own"


# ----------------------------------------------------------------------------- generators

def gen_dgm(ctx, nmax, allow_empty=True):
    g, r = ctx.gen, ctx.rng
    d = g.diagram(nmax, allow_diag=True, allow_empty=allow_empty, dup=0.2)
    return d


def resign(ctx, dgms):
    """coordinates of either sign: shift all diagrams along the diagonal into the negatives, or reflect (b,d) -> (-d,-b)"""
    r = ctx.rng
    k = r.random()
    if k < 0.5:
        return dgms, "asis"
    sc = max([1.0] + [abs(x) for d in dgms for p in d for x in p])
    if k < 0.8:
        t = -r.choice([0.5, 1.0, 2.0]) * sc if r.random() < 0.5 else -float(r.randint(1, 9))
        return [[[p[0] + t, p[1] + t] for p in d] for d in dgms], "shifted"
    return [[[-p[1], -p[0]] for p in d] for d in dgms], "reflected"


def gen_pair(ctx, nmax):
    r = ctx.rng
    kind = r.choice(["random"] * 5 + ["perm", "near", "empty1", "empty2", "diagonal"])
    A = gen_dgm(ctx, nmax, allow_empty=(kind != "perm"))
    if kind == "perm":
        B = [list(p) for p in A]
        r.shuffle(B)
    elif kind == "near":
        eta = r.choice([1e-3, 1e-6, 1e-9, 1e-12])
        B = [sorted([p[0] * (1 + eta * r.uniform(-1, 1)), p[1] * (1 + eta * r.uniform(-1, 1))]) for p in A]   # keeps birth <= death
    elif kind == "empty1":
        A, B = [], gen_dgm(ctx, nmax)
    elif kind == "empty2":
        A, B = [], []
    elif kind == "diagonal":
        B = [[x, x] for x in (ctx.gen.coord(ctx.gen.mode()) for _ in range(r.randint(0, 4)))]
    else:
        B = gen_dgm(ctx, nmax)
    (A, B), how = resign(ctx, [A, B])
    if r.random() < 0.15:
        (A, B), how = far(ctx, [A, B]), how + "+far"
    return A, B, kind + "/" + how


def far(ctx, dgms):
    """move the diagrams far from the origin: offset +-10^U(2,6) x the largest coordinate, features unchanged"""
    r = ctx.rng
    sc = max([1.0] + [abs(x) for d in dgms for p in d for x in p])
    t = r.choice([-1.0, 1.0]) * 10.0 ** r.uniform(2, 6) * sc
    return [[[p[0] + t, p[1] + t] for p in d] for d in dgms]


def is_perm(A, B):
    return sorted(map(tuple, A)) == sorted(map(tuple, B))


# ----------------------------------------------------------------------------- the property on the real code

def eval_case(c):
    """evaluate one recorded check on the real code; returns (ok, info)"""
    k = c["kind"]
    A, B, M = c["A"], c["B"], c["M"]
    if k == "spec":
        ok, corr, info = spec_verdict(code_sw(A, B, M), A, B, M)
        if corr:
            info["correspondence_only"] = "not the documented direction grid, but within what M equally spaced directions can give"
        return ok, info
    v = code_sw(A, B, M)
    if isinstance(v, str) or not math.isfinite(v):
        return False, {"code": v}
    sc = scale_of(A, B) + 1e-300
    if k == "symm":
        w = code_sw(B, A, M)
        return (not isinstance(w, str)) and abs(v - w) <= 1e-12 * sc, {"sw(A,B)": v, "sw(B,A)": w}
    if k == "nonneg":
        return v >= 0.0, {"sw": v}
    if k == "perm":
        Ap, Bp = c["Ap"], c["Bp"]
        w = code_sw(Ap, Bp, M)
        z = code_sw(A, Ap, M)
        ok = (not isinstance(w, str)) and abs(v - w) <= 1e-12 * sc and (not isinstance(z, str)) and abs(z) <= 1e-12 * sc
        return ok, {"sw(A,B)": v, "sw(perm A, perm B)": w, "sw(A, perm A)": z}
    if k == "diag":
        A2, B2 = c["A2"], c["B2"]
        sc2 = scale_of(A2, B2) + 1e-300
        w = code_sw(A2, B2, M)
        return (not isinstance(w, str)) and abs(v - w) <= RND * sc2, {"sw": v, "with diagonal points": w, "tol": RND * sc2}
    if k == "translate":
        t = c["t"]
        A2 = [[p[0] + t, p[1] + t] for p in A]
        B2 = [[p[0] + t, p[1] + t] for p in B]
        tol = RND * (sc + scale_of(A2, B2))
        w = code_sw(A2, B2, M)
        return (not isinstance(w, str)) and abs(v - w) <= tol, {"sw": v, "translated": w, "tol": tol}
    if k == "scale":
        lam = c["lam"]
        w = code_sw([[lam * x for x in p] for p in A], [[lam * x for x in p] for p in B], M)
        return (not isinstance(w, str)) and abs(lam * v - w) <= 1e-9 * lam * sc, {"lam*sw": lam * v, "scaled": w}
    if k == "triangle":
        C = c["C"]
        x, y = code_sw(A, C, M), code_sw(C, B, M)
        if isinstance(x, str) or isinstance(y, str):
            return False, {"sw(A,C)": x, "sw(C,B)": y}
        slack = RND * (scale_of(A, B, C) + 1e-300)
        return v <= x + y + slack, {"sw(A,B)": v, "sw(A,C)": x, "sw(C,B)": y, "slack": slack}
    if k == "w1":
        w, which = w1(A, B)
        slack = RND * sc + 1e-9 * abs(w)
        return v <= 2.0 * w + slack, {"sw": v, "2*W1": 2.0 * w, "W1 reference": which, "slack": slack}
    if k == "shared":
        # the pairwise distances of a triple computed one after the other on the SAME three array objects (as any
        # pairwise-distance loop does); each must be the definition's value for the numbers the caller put in
        C = c["C"]
        a, b, cc = arr(A), arr(B), arr(C)
        info, ok = {}, True
        for name, (x, y), (X, Y) in (("sw(A,B)", (a, b), (A, B)), ("sw(B,C)", (b, cc), (B, C)), ("sw(A,C)", (a, cc), (A, C))):
            with np.errstate(all="ignore"):
                st, val, _ = call(S().sliced_wasserstein, x, y, M)
            try:
                val = val if st == "err" else float(val)
            except (TypeError, ValueError):
                st, val = "err", "not-a-number"
            okx, corr, inf = spec_verdict(("err:" + str(val)) if st == "err" else val, X, Y, M)
            info[name] = inf
            if corr:
                info["correspondence_only"] = "not the documented direction grid, but within what M equally spaced directions can give"
            ok = ok and okx
        return ok, info
    if k == "representation":
        w = code_sw(A, B, M, dtype=c["dtype"])
        return (not isinstance(w, str)) and abs(v - w) <= RND * sc, {"sw(float64 arrays)": v, "sw(%s arrays)" % c["dtype"]: w, "tol": RND * sc}
    raise common.HarnessError("unknown case kind %r" % k)


def laws_for(ctx, A, B, C, M):
    """the list of law cases for one generated triple"""
    r = ctx.rng
    base = {"A": A, "B": B, "M": M}
    out = [dict(base, kind="nonneg"), dict(base, kind="symm")]
    Ap, Bp = [list(p) for p in A], [list(p) for p in B]
    r.shuffle(Ap); r.shuffle(Bp)
    out.append(dict(base, kind="perm", Ap=Ap, Bp=Bp))
    sc = max([1.0] + [abs(x) for d in (A, B) for p in d for x in p])

    def with_diag(D):
        D2 = [list(p) for p in D]
        for _ in range(r.randint(1, 3)):
            a = r.choice([-3.0, -0.5 * sc, -sc, 0.0, 0.25 * sc, sc, float(r.randint(-9, 9)), r.uniform(-sc, sc),
                          1e6 * sc, -1e6 * sc, r.choice([-1.0, 1.0]) * 10.0 ** r.uniform(0, 6) * sc])
            D2.insert(r.randint(0, len(D2)), [a, a])
        return D2
    out.append(dict(base, kind="diag", A2=with_diag(A), B2=with_diag(B) if r.random() < 0.7 else [list(p) for p in B]))
    t = r.choice([-5.0, -1.0, -sc, -2.0 * sc, -100.0 * sc, sc, 0.5, float(-r.randint(1, 20)), r.uniform(-3 * sc, sc),
                  1e6 * sc, -1e6 * sc, r.choice([-1.0, 1.0]) * 10.0 ** r.uniform(0, 6) * sc])
    out.append(dict(base, kind="translate", t=t))
    out.append(dict(base, kind="scale", lam=r.choice([0.25, 0.5, 2.0, 3.0, 1024.0, 0.1, 7.3, 1e-3, 1e3])))
    out.append(dict(base, kind="triangle", C=C))
    out.append(dict(base, kind="shared", C=C))
    out.append(dict(base, kind="w1"))
    return out


def fail(ctx, what, case, info, **more):
    ctx.violation("%s: %s" % (what, info), case, found_input=True, **more)


def n_found(ctx):
    """violations that carry a failing input; correspondence-only reports do not stop the search"""
    return sum(1 for _, f in ctx.violations if f)


_CORR = {}


def corr_limited(ctx, key, what, case, limit=1):
    """correspondence-only report (`no-failing-input-found`), at most `limit` per kind; further ones are counted"""
    _CORR[key] = _CORR.get(key, 0) + 1
    ctx.count("correspondence_only:" + key)
    if _CORR[key] <= limit:
        ctx.violation(what, case, found_input=False, correspondence=key)


def note_sampling(ctx, lc, info):
    """a value that is not the documented (1/2+i/M)pi average but lies within what equally spaced samplings can give"""
    if isinstance(info, dict) and info.get("correspondence_only"):
        corr_limited(ctx, "direction_sampling", "sliced_wasserstein is not the average over the documented directions (1/2+i/M)*pi, but within "
                     "the values M equally spaced directions of the half circle can give (the statement fixes no offset) — "
                     "correspondence only: %s" % (info,), dict(lc, correspondence="direction_sampling"))


def search_failing_input(ctx, A, B, M, op, line, code, model):
    """correspondence broke on (A,B,M): is the *property* violated on the real code?  definition first, then every law"""
    spec_case = {"kind": "spec", "A": A, "B": B, "M": M}
    # the laws first, with the most telling instances up front (a far diagonal point, a far translation: what float32
    # direction vectors break), then the comparison with the definition
    sc = max([1.0] + [abs(x) for d in (A, B) for p in d for x in p])
    base = {"A": A, "B": B, "M": M}
    first = [dict(base, kind="diag", A2=[list(p) for p in A] + [[1e6 * sc, 1e6 * sc]], B2=[list(p) for p in B]),
             dict(base, kind="translate", t=1e6 * sc), dict(base, kind="translate", t=-1e6 * sc)]
    C = gen_dgm(ctx, 6)
    for lc in first + laws_for(ctx, A, B, C, M):
        ok, info = eval_case(lc)
        if not ok:
            fail(ctx, "sliced Wasserstein law `%s` fails on the real code" % lc["kind"], lc, info, correspondence=op, model=model)
            return True
        note_sampling(ctx, lc, info)
    ok, info = eval_case(spec_case)
    if not ok:
        fail(ctx, "sliced_wasserstein differs from the definition (average over M equally spaced directions of the half circle of the "
             "1-D transport cost)", spec_case, info, correspondence=op, model=model)
        return True
    note_sampling(ctx, spec_case, info)
    corr_limited(ctx, op, "code and model of sliced_wasserstein differ but the definition and all laws hold on this input: code=%r model=%r"
                 % (code, model), {"correspondence": op, "line": line[:2000], "code": code, "model": model, "A": A, "B": B, "M": M}, limit=3)
    return False


# ----------------------------------------------------------------------------- run

def pre_build(ctx):
    """source translator (DESIGN.md 3.2): regenerate Generated/SrcSliced.lean from PERSIM_ROOT's source"""
    py2lean.pre_build(ctx, ("sliced",))


KNOWN_OFFSET_SITE = "persim/sliced_wasserstein.py:projections-round-at-coordinate-size"


def known_offset_probe(ctx):
    """the listed finding: every projection <l_theta, x> and the diagonal projection cos(pi/4)*(b+d)/sqrt(2) round at the
    size of the COORDINATES although the value depends only on coordinate differences.  Replayed on the listed inputs:
    SW([[2^30, 2^30]], []) must be 0 ("ignores diagonal points", "never exceeds twice the 1-Wasserstein distance", which is
    0.0 here), and translating [[0, 2^-13]] by 2^30 along the diagonal must not change SW (an exact translation of floats)."""
    def fails():
        import persim
        E = np.zeros((0, 2))
        D = np.array([[2.0 ** 30, 2.0 ** 30]])
        import warnings
        with warnings.catch_warnings():
            warnings.simplefilter("ignore")
            sw_d = float(persim.sliced_wasserstein(D, E)); w1_d = float(persim.wasserstein(D, E))
            a = float(persim.sliced_wasserstein(np.array([[2.0 ** 30, 2.0 ** 30 + 2.0 ** -13]]), E))
            b = float(persim.sliced_wasserstein(np.array([[0.0, 2.0 ** -13]]), E))
        rel = abs(a - b) / b if b else math.inf
        bad = sw_d > 2 * w1_d or sw_d != 0.0 or rel > 1e-9
        return bad, ("sliced_wasserstein([[2^30,2^30]], []) = %r (must be 0 = 2*W1 = %r); [[0,2^-13]] translated by 2^30 along "
                     "the diagonal: %r against %r (%.1e of the value)" % (sw_d, 2 * w1_d, a, b, rel))
    common.known_probe(ctx, "C15", KNOWN_OFFSET_SITE, fails,
                       {"kind": "known_probe", "stmt": "sliced_wasserstein([[2**30, 2**30]], []) and [[2**30, 2**30+2**-13]] vs [[0, 2**-13]] against []"})


def run(ctx):
    py2lean.report_broken(ctx, PROP_FILES)
    known_offset_probe(ctx)
    r = ctx.rng
    ctx.extra["source_digest"] = {"persim/sliced_wasserstein.py": common.source_digest("persim/sliced_wasserstein.py", ["sliced_wasserstein"])}
    nmax = 20 if ctx.thorough else 8
    dd, s2 = diag64(), float(np.sqrt(2.0))
    corpus = [
        ([], [], 1), ([], [], 50), ([[0.5, 1.0]], [[0.5, 1.1]], 50), ([[0.5, 1.0], [0.6, 1.1]], [[0.6, 1.2]], 50),
        ([[-3.0, -3.0]], [], 1),                                            # the pre-fix failure: a negative diagonal point
        ([[-4.5, -4.0]], [[-4.5, -3.9]], 50), ([[0.0, 1.0], [2.0, 5.0]], [], 3),
        ([[1.0, 2.0], [1.0, 2.0]], [[1.0, 2.0]], 2), ([[0.11371516, 4.45734882]], [[0.11371516, 4.45734882]], 50),
    ]
    cases, lines = [], []
    n = ctx.n(1500, 16000)
    dcache = {}
    for i in range(n + len(corpus)):
        if i < len(corpus):
            A, B, M = corpus[i]
            kind = "corpus"
        else:
            A, B, kind = gen_pair(ctx, nmax)
            M = r.choice(MS) if r.random() < (0.7 if ctx.thorough else 0.9) else r.randint(1, 300)
        if M not in dcache:
            dcache[M] = enc(dirs64(M))
        cases.append((A, B, M, kind))
        lines.append("sw %s %s %s %s %s" % (enc(A), enc(B), dcache[M], enc(dd), enc(s2)))
    # M = 0 is rejected by code and model alike
    cases.append(([[0.0, 1.0]], [[0.0, 2.0]], 0, "M=0"))
    lines.append("sw %s %s [] %s %s" % (enc([[0.0, 1.0]]), enc([[0.0, 2.0]]), enc(dd), enc(s2)))
    answers = ask(lines)
    worst = 0.0
    cov = common.LineCov(["persim/sliced_wasserstein.py"])
    for j, ((A, B, M, kind), ans, line) in enumerate(zip(cases, answers, lines)):
        if j < 60:
            with cov:
                code = code_sw(A, B, M)
        else:
            code = code_sw(A, B, M)
        nontriv = len(A) > 0 and len(B) > 0 and not is_perm(A, B)
        ctx.case({"op": "sw", "PD1": A, "PD2": B, "M": M}, nontriv, sample_every=131)
        ctx.count("kind:" + kind.split("/")[0]); ctx.count("sign:" + (kind.split("/") + ["-"])[1])
        ctx.count("M=%d" % M if M in MS or M == 0 else "M=other")
        ctx.count("sizes:%s" % ("0" if not A and not B else "one-empty" if not A or not B else "<=4" if len(A) + len(B) <= 4 else "<=10" if len(A) + len(B) <= 10 else ">10"))
        if any(x < 0 for d in (A, B) for p in d for x in p):
            ctx.count("has_negative_coordinate")
        if isinstance(code, str) or isinstance(ans, str):
            agree = code == ans
            ctx.count("errors:" + str(code))
        else:
            sc = scale_of(A, B)
            agree = math.isfinite(code) and abs(code - float(ans)) <= TOL * sc + 1e-300
            if sc > 0 and math.isfinite(code):
                worst = max(worst, abs(code - float(ans)) / sc)
        if not agree:
            if M == 0:
                ctx.violation("M = 0: code %r, model %r (the definition needs M >= 1; error kinds differ)" % (code, ans),
                              {"correspondence": "sw", "line": line, "code": code, "model": ans}, found_input=False)
            else:
                search_failing_input(ctx, A, B, M, "sw", line, code, ans if isinstance(ans, str) else float(ans))
            if n_found(ctx) > 5:
                return
    ctx.extra["max_code_model_discrepancy_rel_scale"] = worst
    ctx.extra["branch_hits"] = cov.summary()
    ctx.extra["core_theorems"] = CORE_THEOREMS
    representations(ctx)
    if n_found(ctx) > 5:
        return
    msweep(ctx)
    if n_found(ctx) > 5:
        return
    laws(ctx, nmax)
    if n_found(ctx) > 5:
        return
    large(ctx)


def representations(ctx):
    """[T] the same numbers stored as integer / float32 arrays (np.dot against the float64 direction vectors promotes to
    float64, so the value must be the float64 call's), also far from the origin"""
    r = ctx.rng
    for i in range(ctx.n(200, 2000)):
        dtype = ["int8", "uint8", "int32", "int64", "float32"][i % 5]
        lo, hi = {"int8": (-100, 90), "uint8": (0, 220), "int32": (-10**6, 10**6), "int64": (-10**6, 10**6), "float32": (-2**20, 2**20)}[dtype]
        off = 0 if dtype in ("int8", "uint8") or r.random() < 0.5 else r.randint(lo, hi - 40)

        def dgm():
            out = []
            for _ in range(r.randint(0, 5)):
                b = (r.randint(lo, hi - 30) if dtype in ("int8", "uint8") else off + r.randint(0, 10))
                out.append([float(b), float(b + r.randint(0, 25))])
            return out
        A, B, M = dgm(), dgm(), r.choice(MS)
        c = {"kind": "representation", "A": A, "B": B, "M": M, "dtype": dtype}
        ok, info = eval_case(c)
        ctx.case({"op": "representation", "PD1": A, "PD2": B, "M": M, "dtype": dtype}, bool(A) and bool(B), sample_every=41)
        ctx.count("representation:" + dtype)
        ctx.test("representation", ok)
        if not ok:
            fail(ctx, "sliced_wasserstein depends on the dtype (%s) the same numbers are stored in" % dtype, c, info, law=True)
            if n_found(ctx) > 5:
                return


def msweep(ctx):
    """[T] 'all M >= 1': EVERY M from 1 to 300 once (thorough: to 600), on a pair of small diagrams (at most 4 points in all, so
    the 1-D transport cost is the exhaustive minimum over bijections), against the definition.  A direction grid that has one
    direction too many or too few for particular M (rounding of the step 1/M) shows here whatever those M are."""
    r = ctx.rng
    for M in range(1, (600 if ctx.thorough else 300) + 1):
        na = r.randint(0, 3)
        A = gen_dgm_n(ctx, na)
        B = gen_dgm_n(ctx, r.randint(0 if na else 1, min(3, 4 - na)))
        if r.random() < 0.5:
            (A, B), _ = resign(ctx, [A, B])
        lc = {"kind": "spec", "A": A, "B": B, "M": M}
        ok, info = eval_case(lc)
        ctx.case({"op": "msweep", "PD1": A, "PD2": B, "M": M}, bool(A) and bool(B), sample_every=97)
        ctx.test("definition_every_M", ok)
        if not ok:
            fail(ctx, "sliced_wasserstein differs from the definition (average over M equally spaced directions) for M = %d" % M, lc, info, law=True)
            if n_found(ctx) > 5:
                return
        else:
            note_sampling(ctx, lc, info)
    ctx.count("M_sweep_upto", 600 if ctx.thorough else 300)


def gen_dgm_n(ctx, n):
    """a diagram of exactly n points (coordinates as in `gen_dgm`)"""
    g = ctx.gen
    mode = g.mode()
    return [g.bar(mode, allow_diag=True) for _ in range(n)]


def laws(ctx, nmax):
    """[T] the laws of the statement and the definition itself on the real code"""
    r = ctx.rng
    for i in range(ctx.n(800, 8000)):
        A, B, kind = gen_pair(ctx, min(nmax, 12))
        C = gen_dgm(ctx, min(nmax, 12))
        if r.random() < 0.5:
            (A, B, C), _ = resign(ctx, [A, B, C])
        M = r.choice(MS) if r.random() < 0.8 else r.randint(1, 300 if r.random() < 0.3 else 64)
        todo = laws_for(ctx, A, B, C, M)
        if M > 64:
            todo = [lc for lc in todo if lc["kind"] != "shared"]             # cost: three definitions at large M
        if i % 3 == 0 and len(A) + len(B) <= 10 and (M <= 64 or len(A) + len(B) <= 3):
            todo.append({"kind": "spec", "A": A, "B": B, "M": M})
        for lc in todo:
            ok, info = eval_case(lc)
            ctx.test(lc["kind"] if lc["kind"] != "spec" else "definition", ok)
            if not ok:
                fail(ctx, "sliced Wasserstein law `%s` fails on the real code" % lc["kind"], lc, info, law=True)
                if n_found(ctx) > 5:
                    return
            else:
                note_sampling(ctx, lc, info)
    ctx.extra["w1_reference"] = dict(STATS)


def large(ctx):
    """[T] diagrams of 30-100 points (thorough to 250): vectorised / blocked rewrites of the projection and sorting behave
    differently only beyond small sizes.  The definition's 1-D transport cost is the sorted L1 cost there (a theorem:
    sorted_l1_is_ot); all laws except the shared-object history"""
    r, g = ctx.rng, ctx.gen
    hi = 250 if ctx.thorough else 100
    for i in range(ctx.n(12, 80)):
        kind = ["random", "perm", "near", "far"][i % 4]
        mode = g.mode()
        A = [g.bar(mode, allow_diag=True) for _ in range(r.randint(30, hi))]
        if kind == "perm":
            B = [list(p) for p in A]; r.shuffle(B)
        elif kind == "near":
            eta = r.choice([1e-3, 1e-6, 1e-9])
            B = [sorted([p[0] * (1 + eta * r.uniform(-1, 1)), p[1] * (1 + eta * r.uniform(-1, 1))]) for p in A]
            r.shuffle(B)
            B = B[:r.randint(30, len(B))]
        else:
            B = [g.bar(mode, allow_diag=True) for _ in range(r.randint(30, hi))]
        C = [g.bar(mode, allow_diag=True) for _ in range(r.randint(5, 40))]
        (A, B, C), _ = resign(ctx, [A, B, C])
        if kind == "far":
            A, B, C = far(ctx, [A, B, C])
        M = r.choice([1, 3, 10, 50, r.randint(1, 120)])
        ctx.case({"op": "large", "n": [len(A), len(B)], "kind": kind, "M": M, "A0": A[:2]}, True)
        ctx.count("large:" + kind)
        todo = [lc for lc in laws_for(ctx, A, B, C, M) if lc["kind"] != "shared"] + [{"kind": "spec", "A": A, "B": B, "M": M}]
        for lc in todo:
            ok, info = eval_case(lc)
            ctx.test("large_" + (lc["kind"] if lc["kind"] != "spec" else "definition"), ok)
            if not ok:
                fail(ctx, "sliced Wasserstein law `%s` fails on the real code for diagrams of %d and %d points" % (lc["kind"], len(A), len(B)),
                     lc, info, law=True)
                if n_found(ctx) > 5:
                    return
                break
            note_sampling(ctx, lc, info)


def replay(ctx, rep):
    c = rep["case"]
    if "kind" not in c or ("correspondence" in c and c.get("kind") not in ("spec", "shared")):
        print("correspondence-only replay (no failing input was found): %s" % {k: c[k] for k in c if k in ("code", "model", "M")})
        if "A" in c:
            ok, info = eval_case({"kind": "spec", "A": c["A"], "B": c["B"], "M": c["M"]})
            print("definition vs code:", info)
            return ok
        return True
    ok, info = eval_case(c)
    print("case kind=%s M=%s\n A=%s\n B=%s\n -> %s" % (c["kind"], c["M"], c["A"], c["B"], info))
    print("reproducer: from persim.sliced_wasserstein import sliced_wasserstein as sw; import numpy as np; "
          "sw(np.array(%r).reshape(-1,2), np.array(%r).reshape(-1,2), %r)" % (c["A"], c["B"], c["M"]))
    return ok


MANIFEST = {
    "text": "Proof: 28 Lean theorems in Props/C15.lean plus Props/C15C14Model.lean (C15 composed with the C02 model: if the model of wasserstein(D1, D2) returns w then the model of sliced_wasserstein(D1, D2, M), with the code's own M directions, returns v <= 2w, under birth <= death, which is necessary - guard_needed) (18 of them core: each a clause of the statement about the value; the others are generic swWith_* "
            "steps, helpers, rfl restatements such as sliceCost_eq / slice_lengths and two counterexamples for the old projection) "
            "about the model of sliced_wasserstein over the reals, for diagrams of every size, coordinates of "
            "either sign and every list of M >= 1 directions: the value is the average over the directions of the sorted L1 cost of "
            "the two augmented projected lists, and that cost is the minimum over all bijections (1-D optimal transport); symmetry; "
            "invariance under reordering (zero between reorderings); invariance under translation along the diagonal for either sign "
            "(what the old |x|/sqrt2 projection broke: old_proj_counterexample, old_sw_counterexample); linear scaling; diagonal "
            "points project to themselves and are ignored wherever they stand. Beyond the design's plan the remaining clauses are "
            "proved too: the triangle inequality of the augmented construction, and for unit directions sw <= 2*W1 against every "
            "partial matching (Euclidean ground metric). The model is tied to the code on every run by executing it at Float with the "
            "code's own float64 direction vectors (1e-12 of the coordinate scale; observed 2e-16), against an independent definition "
            "(exhaustive over bijections for <= 6 points; every M from 1 to 300; diagrams up to 100 points, thorough 250), and all laws are "
            "evaluated on the real code as tests, including "
            "translations and diagonal points at offsets up to 1e6 x the feature size (both signs) and integer / float32 arrays, with "
            "tolerances of float64 rounding of the coordinates involved (1e-14 * sum|coordinates|).",
    "note": "Trusted: Lean kernel + Mathlib, axioms propext/Classical.choice/Quot.sound; the correspondence harness; numpy cos/sin "
            "(directions are computed by the harness with the code's expressions and passed in; the theorems hold for "
            "every direction list, the W1 bound for unit directions); np.dot, sorted, scipy cityblock as exact dot product / sort / L1 "
            "up to rounding. Theorems are exact-arithmetic with the exact projection onto the diagonal. The direction vectors are "
            "float64 since /repo e37e244 (the earlier float32 vectors moved the value by 1.5e-8 of the coordinate scale: 0.0154 for "
            "a diagonal point at (1e6,1e6)); that caveat is gone and a return of it is caught by the [T] laws at large offsets. "
            "W1 reference: persim.wasserstein (difference-based since 6c9bac1), an independent difference-based W1 where W1 is below "
            "the rounding of wasserstein's rotation.",
    "technique": "Lean 4 theorems over a hand-written model + differential correspondence with the real code + metamorphic tests",
}
MANIFEST["note"] += " " + py2lean.manifest_note("sliced")
MANIFEST["note"] += ' Known finding replayed on every run (common.known_probe, exact rational oracle): projections round at the size of the coordinates (sliced_wasserstein([[2^30,2^30]], []) = 1.2e-7); the random streams judge up to rounding relative to the coordinates and draw offsets up to 1e6 feature sizes, so in the regime offset/feature >= 1e7 only the listed inputs are judged (DESIGN 10.13).'
