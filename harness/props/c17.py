"""C17 — mGH accepts every graph representation and degrades gracefully.

Theorems: lean/PersimVerif/Props/C17.lean (model lean/PersimVerif/Model/Graph.lean over Nat matrices).
Tie: the real `make_distance_matrix_from_adjacency_matrix`, `determine_optimal_int_type` and the public
`gromov_hausdorff` (pair and collection calls, `estimate` recorded in flight) against the model driver
(`gr.dist`, `gr.components`, `gr.inttype`, `gr.gh`, `gr.symm`), exact comparison of integer matrices, dtype,
warning flag, error kind; scipy's `shortest_path` / `connected_components` are contracts of the model and are
exercised by that exact comparison on every case.
[T]: the laws of the statement evaluated on the real code (formats agree - dense arrays in every memory layout included:
transposed, Fortran-ordered, fancy-indexed, strided, read-only, the kinds "<dtype>:<layout>" of `pack` -, relabelling, N x N symmetric zero-diagonal
collections with lb <= ub whose lower bounds are the pair calls' and whose entries bracket the distance, lower bounds
identical across formats, brackets valid against an exhaustive mGH oracle for <= 6 vertices (skips are counted; identical
spaces beyond that range must get lb = 0), disconnected graphs come with a warning - any Warning - and do not raise, the
disconnected-graph warning (recognised by its text) does not appear for connected graphs;
relabelled disconnected graphs give the relabelled block of the / a largest component; pairs of 128/129-vertex paths,
stars and cycles through the public entry point; one case showing scipy's dense-reader tolerance / stored zeros).
With a TIE between largest components the statement leaves the choice open: every tied component's block is accepted
for the property verdict, a tie-break other than the model's (first vertex) is only a correspondence break.
Correspondence only as well (never a claimed failing input): the dtype of the distance matrix and the helper
determine_optimal_int_type, the warning's category, the error kind on malformed input, identical UPPER bounds across
formats, and HOW a collection computes its entries (one estimate call per pair right after that pair's distance matrices,
entry = pair call from the RNG state reached there - hoisting the distance matrices out of the loop is legitimate).
Source translators (DESIGN.md 3.2): `pre_build` re-translates from the source text (a) `determine_optimal_int_type` and the
component-selection lines of the fallback (key "graph", Generated/SrcGraph.lean) and (b) EVERY statement of `gromov_hausdorff`,
`make_distance_matrix_from_adjacency_matrix`, `cast_distance_matrix_to_optimal_int_type`, `determine_optimal_int_type` (key
"ghentry", harness/translator/py2lean_ghentry.py, Generated/SrcGHEntry.lean), proved equal to `Graph.makeDist` /
`Graph.gromovHausdorff` for all inputs and, composed with the `estimate` of key "mgh", to `MGHPublic.publicGH`
(Lemmas/SrcGHEntryPublic.lean); `run` first reports which of those obligations no longer check.
"""
import itertools, math, random, warnings
from collections import deque
import numpy as np
import scipy.sparse as sps
from scipy.sparse.csgraph import connected_components
from .. import common, corethm
from ..translator import py2lean
from ..common import enc, ask, call

LEVEL = "proof"
RULE = ("graphs generated from one PRNG: paths, cycles, stars, complete graphs, random trees, G(n,p), edgeless graphs, "
        "disjoint unions (2-4 parts, forced ties in component size, isolated vertices, interleaved labels), n = 1..10 "
        "(quick) / ..40 (thorough) plus long paths/cycles around the int8/int16 boundary (diameter 126..129); each graph "
        "is submitted in several representations: orientation upper/symmetric/lower/mixed, weights 1 / integers / "
        "non-integer floats, optional self-loops, container list/tuple/ndarray int,bool,float/np.matrix/CSR/CSC/COO/"
        "LIL/DOK/BSR/DIA/csr_array/coo_array and dense arrays (int, bool, float) that are NOT C-contiguous or not writable - the "
        "transposed view of the transposed entries (`.T` of the upper / lower / symmetric matrix), Fortran order, the result of a "
        "fancy-indexed relabelling `B[q][:, q]`, the strided view `big[::2, ::2]`, read-only C- and F-ordered arrays -, "
        "identity or random relabelling; a malformed stream (empty, ragged, non-square); pairs and "
        "collections of 2-6 graphs in mixed formats; four pairs of 128/129-vertex paths/stars/cycles (isomorphic relabelled "
        "pairs and non-isomorphic ones) through the public gromov_hausdorff with mapping_sample_size_order [0,0] or [.25,0]. non-trivial = a graph with >= 3 vertices and >= 1 edge; distinct "
        "by digest of (operation, container, entries)")
ASSUMPTIONS = [
    "scipy.sparse.csgraph.shortest_path(directed=False, unweighted=True) returns BFS distances of the undirected graph "
    "'entry non-zero in either direction' and connected_components labels components in order of their first vertex "
    "(contracts of the model; both compared exactly with the model on every case)",
    "adjacency entries are finite and non-negative, non-zero ones larger than 1e-8 in magnitude; a sparse input stores no "
    "explicit zeros (scipy counts a stored 0 as an edge, a dense NaN/inf/|x|<=1e-8 as no edge) - such inputs are outside the model. "
    "This includes BSR matrices with blocks larger than 1x1 that contain zeros (scipy's automatic block size for dense-ish "
    "matrices): the generator builds BSR inputs with 1x1 blocks",
    "`estimate` (find_lb/find_ub) is a parameter of the dispatch model; its soundness is property C05. The harness "
    "records its calls inside the real run and replays them into the model",
    "np.unique/np.argmax/boolean-mask indexing/astype behave as modelled (first maximum, increasing labels); compared on "
    "every disconnected case",
]
TRUSTED = ["scipy.sparse.csgraph.shortest_path / connected_components: BFS-distance and first-vertex-labelling contracts, "
           "exercised by exact comparison with the Lean model on every generated graph"]
WARN_TEXT = "disconnected graph is approximated by its largest connected component"
# theorems that carry a clause of the statement (helper steps, contracts of the labelling, concrete instances such as
# old_fallback_not_square / tie_relabel_selects_other_component / int_type_thresholds are not in this list)
CORE_THEOREMS = ["format_irrelevant", "upper_eq_symmetric", "upper_same_result", "weights_irrelevant", "diagonal_irrelevant",
                 "strict_upper_same_result", "bfs_is_shortest_path", "relabel_equivariant", "relabel_connected",
                 "relabel_unique_largest", "fallback_is_metric", "never_raises", "connected_no_fallback",
                 "largest_is_first_maximum", "int_type_sufficient", "int_type_sufficient_pair",
                 "collection_symmetric_zero_diag", "collection_entries_are_pair_results", "lb_deterministic",
                 "collection_format_irrelevant", "pair_format_irrelevant", "mGH_relabel_invariant",
                 # Props/C05C17.lean: the dispatch instantiated with C05's `estimate` model (the composed public model)
                 "public_pair_spaces", "public_pair_brackets", "public_pair_brackets_connected", "public_iso_lb_zero",
                 "public_lb_deterministic", "public_collection_brackets", "public_never_raises",
                 "public_collection_never_raises"]
# the second file composes this property's dispatch model with C05's model of `estimate` (theorems about the
# composed model `MGHPublic.publicGH`; bridging lemmas in Lemmas/MGHPublic.lean)
PROP_FILES = ["PersimVerif/Props/C17.lean", "PersimVerif/Props/C05C17.lean"]


# ----------------------------------------------------------------------------- independent oracle (plain Python)

def o_adj(E):
    n = len(E)
    return [[j for j in range(n) if j != i and (E[i][j] != 0 or E[j][i] != 0)] for i in range(n)]


def o_bfs(E):
    """all-pairs hop distances (math.inf when unreachable), queue BFS"""
    n = len(E)
    nb = o_adj(E)
    D = [[math.inf] * n for _ in range(n)]
    for s in range(n):
        D[s][s] = 0
        q = deque([s])
        while q:
            u = q.popleft()
            for v in nb[u]:
                if D[s][v] == math.inf:
                    D[s][v] = D[s][u] + 1
                    q.append(v)
    return D


def o_components(D):
    """components as sorted vertex lists, ordered by smallest vertex"""
    n = len(D)
    seen, comps = set(), []
    for v in range(n):
        if v not in seen:
            c = [u for u in range(n) if D[v][u] != math.inf]
            seen.update(c)
            comps.append(c)
    return comps


def o_spaces(E):
    """the distance matrices of ALL largest components (the statement says "its largest connected component": with a tie
    every one of them is a legitimate answer), in order of their smallest vertex"""
    D = o_bfs(E)
    comps = o_components(D)
    best = max(len(c) for c in comps)
    return [[[D[i][j] for j in c] for i in c] for c in comps if len(c) == best]


def o_space(E):
    """(distance matrix of the largest component [first one on ties], disconnected?, all largest components)"""
    D = o_bfs(E)
    comps = o_components(D)
    best = max(len(c) for c in comps)
    largest = [c for c in comps if len(c) == best]
    c = largest[0]
    return [[D[i][j] for j in c] for i in c], len(comps) > 1, largest


def is_metric(M):
    try:
        n = len(M)
        if n == 0 or any(len(r) != n for r in M):
            return False
        for i in range(n):
            if M[i][i] != 0:
                return False
            for j in range(n):
                x = M[i][j]
                # the VALUES make a metric; whether they arrive as int8 or float64 is not part of the statement
                if isinstance(x, bool) or not isinstance(x, (int, float)) or not math.isfinite(x) or x < 0 \
                        or x != M[j][i] or (i != j and x == 0):
                    return False
        return all(M[i][k] <= M[i][j] + M[j][k] for i in range(n) for j in range(n) for k in range(n))
    except Exception:
        return False


_MAPS = {}


def _min_dis(DX, DY):
    n, m = len(DX), len(DY)
    if (n, m) not in _MAPS:
        _MAPS[(n, m)] = np.array(list(itertools.product(range(m), repeat=n)), dtype=np.int64).reshape(-1, n)
    F = _MAPS[(n, m)]
    X = np.array(DX, dtype=np.int64); Y = np.array(DY, dtype=np.int64)
    diff = np.abs(Y[F[:, :, None], F[:, None, :]] - X[None, :, :])
    return int(diff.reshape(len(F), -1).max(axis=1).min())


def o_mgh(DX, DY):
    """modified Gromov-Hausdorff distance by exhaustion over all maps X->Y and Y->X"""
    return 0.5 * max(_min_dis(DX, DY), _min_dis(DY, DX))


# ----------------------------------------------------------------------------- graph generators (upper 0/1 matrices)

def _empty(n):
    return [[0] * n for _ in range(n)]


def _add(E, i, j):
    if i != j:
        E[min(i, j)][max(i, j)] = 1


def g_path(n):
    E = _empty(n)
    for i in range(n - 1):
        _add(E, i, i + 1)
    return E


def g_cycle(n):
    E = g_path(n)
    if n >= 3:
        _add(E, 0, n - 1)
    return E


def g_star(n):
    E = _empty(n)
    for i in range(1, n):
        _add(E, 0, i)
    return E


def g_complete(n):
    E = _empty(n)
    for i in range(n):
        for j in range(i + 1, n):
            _add(E, i, j)
    return E


def g_tree(r, n):
    E = _empty(n)
    for i in range(1, n):
        _add(E, r.randrange(i), i)
    return E


def g_gnp(r, n, p):
    E = _empty(n)
    for i in range(n):
        for j in range(i + 1, n):
            if r.random() < p:
                _add(E, i, j)
    return E


def g_connected(r, n):
    k = r.choice(["path", "cycle", "star", "complete", "tree", "tree", "gnp+tree"])
    if k == "path":
        return k, g_path(n)
    if k == "cycle":
        return k, g_cycle(n)
    if k == "star":
        return k, g_star(n)
    if k == "complete":
        return k, g_complete(n)
    if k == "tree":
        return k, g_tree(r, n)
    E = g_tree(r, n)
    F = g_gnp(r, n, r.choice([0.2, 0.5]))
    return k, [[E[i][j] | F[i][j] for j in range(n)] for i in range(n)]


def g_union(r, parts, interleave):
    """disjoint union of upper matrices; `interleave` shuffles which vertex numbers each part gets"""
    n = sum(len(p) for p in parts)
    slots = list(range(n))
    if interleave:
        r.shuffle(slots)
    E = _empty(n)
    off = 0
    for p in parts:
        mine = slots[off:off + len(p)]
        off += len(p)
        for i in range(len(p)):
            for j in range(len(p)):
                if p[i][j]:
                    _add(E, mine[i], mine[j])
    return E


def gen_graph(ctx, nmax):
    """(kind, upper 0/1 matrix)"""
    r = ctx.rng
    x = r.random()
    if x < 0.45:
        n = r.choice([1, 2, 2, 3, 3, 4, 4, 5, 5, 6]) if r.random() < 0.6 else r.randint(1, nmax)
        return g_connected(r, n)
    if x < 0.55:
        n = r.randint(1, nmax)
        return "gnp", g_gnp(r, n, r.choice([0.1, 0.25, 0.5]))
    if x < 0.60:
        return "edgeless", _empty(r.randint(1, min(nmax, 6)))
    # disconnected union, ties in component size forced half of the time
    k = r.randint(2, 4)
    if r.random() < 0.5:
        s = r.randint(1, max(1, min(4, nmax // k)))
        sz = [s] * k
        if r.random() < 0.4:
            sz[r.randrange(k)] = max(1, s - 1)
    else:
        sz = [r.randint(1, max(1, min(5, nmax // k))) for _ in range(k)]
    if r.random() < 0.3:
        sz += [1] * r.randint(1, 2)          # isolated vertices
    parts = [g_connected(r, s)[1] for s in sz]
    return "union" + ("-tie" if len(set(sz)) < len(sz) else ""), g_union(r, parts, r.random() < 0.6)


# ----------------------------------------------------------------------------- representations

ORIENT = ["upper", "sym", "lower", "mixed"]
# dense arrays in a memory layout other than the one `np.array(nested lists)` makes - the SAME entries, another `ndarray` (a user
# gets these from `A.T`, `np.asfortranarray`, a relabelling `A[p][:, p]`, a sub-sampled view, a frozen array).  Container kind
# "<dtype>:<layout>": dtype int / bool / float as for the plain kinds; layout
#   T        the transposed VIEW of the array holding the transposed entries (`B.T` with `B = A.T` C-contiguous): F-contiguous;
#            with orientation upper / lower / sym this is `.T` of a lower- / upper-triangular / symmetric matrix
#   F        `np.asfortranarray(A)` (owns its data, F-contiguous)
#   fancy    `B[q][:, q]` for a permutation q and B the array with `B[q][:, q] == A`: what NumPy's fancy-indexed relabelling
#            returns (neither C- nor, in general, a view)
#   strided  the view `big[::2, ::2]` of an array twice as large whose other cells are 1 (neither C- nor F-contiguous)
#   ro       C-contiguous but read-only (`setflags(write=False)`);   roF  Fortran-ordered and read-only
# /repo fc69e2e: before it every layout except `ro` made scipy's Floyd-Warshall fail ("ndarray is not C-contiguous") and
# gromov_hausdorff raise ValueError - the harness then only built C-contiguous arrays and missed it.
LAYOUTS = ["T", "F", "fancy", "strided", "ro", "roF"]
LAYOUT_CONTAINERS = ["%s:%s" % (d, l) for l in LAYOUTS for d in ("int", "bool", "float")]
CONTAINERS = ["list", "tuple", "int", "bool", "float", "csr", "csc", "coo", "matrix", "lil", "dok", "bsr", "dia",
              "csr_array", "coo_array"] + LAYOUT_CONTAINERS
MAIN_CONTAINERS = ["list", "int", "bool", "float", "csr", "csc", "coo",
                   "int:T", "float:F", "int:fancy", "bool:strided", "float:ro", "bool:T", "float:fancy"]


def represent(r, U, orient, weights, loops, perm):
    """entries (nested list of Python numbers) of one representation of the graph with upper 0/1 matrix U"""
    n = len(U)
    E = [[0] * n for _ in range(n)]
    for i in range(n):
        for j in range(i + 1, n):
            if U[i][j]:
                w = 1 if weights == "one" else (r.randint(2, 300) if weights == "int" else r.choice([0.5, 2.5, 0.001, 7.25]))
                o = orient if orient != "mixed" else r.choice(["upper", "sym", "lower"])
                if o in ("upper", "sym"):
                    E[i][j] = w
                if o in ("lower", "sym"):
                    E[j][i] = w
    if loops:
        for i in range(n):
            if r.random() < 0.3:
                E[i][i] = 1 if weights == "one" else 3
    if perm is not None:                       # A'[a][b] = A[perm[a]][perm[b]]
        E = [[E[perm[a]][perm[b]] for b in range(n)] for a in range(n)]
    return E


def relayout(x, layout):
    """the 2-D array `x` (C-contiguous) as ANOTHER ndarray with the same shape, dtype and entries; deterministic (a replay
    rebuilds the very same object from the container kind and the entries)"""
    n = x.shape[0]
    if layout == "T":
        y = np.ascontiguousarray(x.T).T
    elif layout == "F":
        y = np.asfortranarray(x)
    elif layout == "fancy":
        q = np.array(random.Random(n).sample(range(n), n), dtype=int)     # a fixed permutation per size
        inv = np.argsort(q)
        y = np.ascontiguousarray(x[np.ix_(inv, inv)])[q][:, q]
    elif layout == "strided":
        big = np.ones((2 * x.shape[0], 2 * x.shape[1]), dtype=x.dtype)
        big[::2, ::2] = x
        y = big[::2, ::2]
    elif layout == "ro":
        y = x.copy()
        y.setflags(write=False)
    elif layout == "roF":
        y = np.asfortranarray(x).copy(order="F")
        y.setflags(write=False)
    else:
        raise common.HarnessError("layout " + layout)
    # the harness's own construction: same entries, and really not the layout the plain kinds have
    want_nc = layout != "ro" and x.shape[0] > 1 and x.shape[1] > 1
    if y.shape != x.shape or y.dtype != x.dtype or not np.array_equal(y, x) or (want_nc and y.flags.c_contiguous) \
            or (layout in ("ro", "roF") and y.flags.writeable):
        raise common.HarnessError("relayout %s: did not build the intended array (flags %s)" % (layout, y.flags))
    return y


def pack(E, container):
    if ":" in container:
        dt, layout = container.split(":")
        if dt not in ("int", "bool", "float"):
            raise common.HarnessError("container " + container)
        return relayout(np.ascontiguousarray(pack(E, dt)), layout)
    if container == "list":
        return [list(row) for row in E]
    if container == "tuple":
        return tuple(tuple(row) for row in E)
    a = np.array(E)
    if a.ndim != 2:
        a = a.reshape(len(E), -1)
    if container == "int":
        return a if a.dtype.kind in "iu" else a.astype(float)
    if container == "bool":
        return a != 0
    if container == "float":
        return a.astype(float)
    if container == "matrix":
        return np.matrix(a)
    if container == "csr":
        return sps.csr_matrix(a)
    if container == "csc":
        return sps.csc_matrix(a)
    if container == "coo":
        return sps.coo_matrix(a)
    if container == "lil":
        return sps.lil_matrix(a)
    if container == "dok":
        return sps.dok_matrix(a)
    if container == "bsr":
        # 1x1 blocks: scipy's automatic block size (2x2 or larger when the blocks are > 70% full) stores the zeros INSIDE
        # a block explicitly, `tocsr()` keeps them and csgraph counts every stored entry as an edge - such an object is
        # outside the model's input assumption (see ASSUMPTIONS and stream_limits, which shows the effect on the real code)
        return sps.bsr_matrix(a, blocksize=(1, 1))
    if container == "dia":
        return sps.dia_matrix(a)
    if container == "csr_array":
        return sps.csr_array(a)
    if container == "coo_array":
        return sps.coo_array(a)
    raise common.HarnessError("container " + container)


def entries_of(obj):
    """what the container holds, as nested lists (the model's input); independent of persim"""
    if sps.issparse(obj):
        return obj.toarray().tolist()
    if isinstance(obj, np.ndarray):
        return np.asarray(obj).tolist()
    return [list(row) for row in obj]


def rand_rep(ctx, U, relabel=False, main=False):
    r = ctx.rng
    n = len(U)
    perm = None
    if relabel and n > 1:
        perm = list(range(n))
        r.shuffle(perm)
    orient = r.choice(ORIENT)
    weights = r.choice(["one", "one", "int", "float"])
    loops = r.random() < 0.2
    cont = r.choice(MAIN_CONTAINERS if main or r.random() < 0.75 else CONTAINERS)
    E = represent(r, U, orient, weights, loops, perm)
    obj = pack(E, cont)
    return {"orient": orient, "weights": weights, "loops": loops, "container": cont, "perm": perm,
            "entries": entries_of(obj)}, obj


# ----------------------------------------------------------------------------- the real code

def gh():
    return common.pm("gromov_hausdorff")


def call_w(fn, *a, **k):
    """like common.call, but keeps the warnings themselves: (status, value | error kind, [(category, message text)])"""
    with warnings.catch_warnings(record=True) as w:
        warnings.simplefilter("always")
        try:
            st, v = "ok", fn(*a, **k)
        except Exception as e:  # the error kind is compared with the model (correspondence); "raises" is the property
            st, v = "err", type(e).__name__
    return st, v, [(x.category, str(x.message)) for x in w]


def warned_any(w):
    """the statement's "with a warning": ANY warning raised during the call satisfies it (category and wording are free)"""
    return any(isinstance(c, type) and issubclass(c, Warning) for c, _ in w)


def warned_disconnected(w):
    """a warning that - read loosely, by its text, whatever its category - says the graph was disconnected / cut down to a
    component.  Only this one must not appear for a connected graph; unrelated warnings (sparse efficiency, deprecations)
    may accompany any call"""
    return any(any(t in m.lower() for t in ("disconnect", "connected component", "largest component", "not connected"))
               for _, m in w)


def warned_model(w):
    """the flag compared with the MODEL (correspondence only): the present code's plain UserWarning"""
    return any(c.__name__ == "UserWarning" for c, _ in w)


def wnames(w):
    return sorted(set("%s(%s)" % (c.__name__, m[:40]) for c, m in w))


def warning_verdict(w, disc):
    """None, or how the warning clause of the statement fails"""
    if disc and not warned_any(w):
        return "no warning for a disconnected graph"
    if not disc and warned_disconnected(w):
        return "warned about a disconnected graph although every graph is connected"
    return None


def run_dist(obj):
    """('ok', D list, bits, model's warning flag, shape, warnings) or ('err', kind)"""
    st, v, w = call_w(gh().make_distance_matrix_from_adjacency_matrix, obj)
    if st == "err":
        return ("err", v)
    return ("ok", np.asarray(v).tolist(), int(np.asarray(v).dtype.itemsize * 8) if np.asarray(v).dtype.kind == "i" else -1,
            warned_model(w), shape_of(v), w)


def shape_of(v):
    return list(np.asarray(v).shape)


class Recorder:
    """wraps persim.gromov_hausdorff.estimate (and make_distance_matrix…) inside the real run: RNG state before the
    call, arguments, result, and WHICH two input objects the distance matrices were just made from"""

    def __init__(self):
        self.m = gh()
        self.calls = []
        self.made = []

    def __enter__(self):
        self.orig = self.m.estimate
        self.orig_mk = self.m.make_distance_matrix_from_adjacency_matrix

        def mk(AG, *a, **k):
            self.made.append(AG)
            return self.orig_mk(AG, *a, **k)

        def wrapped(DX, DY, *a, **k):
            st = np.random.get_state()
            res = self.orig(DX, DY, *a, **k)
            self.calls.append({"DX": np.asarray(DX).tolist(), "DY": np.asarray(DY).tolist(),
                               "lb": float(res[0]), "ub": float(res[1]), "state": st,
                               "from": tuple(self.made[-2:])})
            return res
        self.m.estimate = wrapped
        self.m.make_distance_matrix_from_adjacency_matrix = mk
        return self

    def __exit__(self, *a):
        self.m.estimate = self.orig
        self.m.make_distance_matrix_from_adjacency_matrix = self.orig_mk


def run_gh(objs, pair, seed=None, state=None):
    """the public entry point; returns (status, value|kind, warning names, recorded estimate calls)"""
    f = gh().gromov_hausdorff
    if seed is not None:
        np.random.seed(seed)
    if state is not None:
        np.random.set_state(state)
    with Recorder() as rec:
        st, v, w = call_w(f, objs[0], objs[1]) if pair else call_w(f, objs)
    return st, v, w, rec.calls


def calls_token(calls):
    return enc([[c["DX"], c["DY"], c["lb"], c["ub"]] for c in calls])


# ----------------------------------------------------------------------------- property predicate on the real code

def dist_property(E, code):
    """does make_distance_matrix(E) satisfy the statement?  E is a well-formed (square, non-empty) entry matrix.
    returns None if fine, else a description"""
    space, disc, largest = o_space(E)
    if code[0] == "err":
        return "raised %s on a well-formed %s graph" % (code[1], "disconnected" if disc else "connected")
    _, D, bits, _, shape, w = code
    if len(shape) != 2 or shape[0] != shape[1]:
        return "returned a non-square array of shape %s" % shape
    if not is_metric(D):
        return "returned a matrix that is not a metric (shape %s)" % shape
    if warning_verdict(w, disc):
        return warning_verdict(w, disc) + " (warnings: %s)" % wnames(w)
    if D != space and D not in o_spaces(E):
        # a different one of several equally large components is NOT a violation (the statement leaves the tie open;
        # only the model's tie-break, first vertex, is a correspondence matter)
        n = len(E)
        sizes = sorted(len(c) for c in o_components(o_bfs(E)))
        if len(D) < max(sizes):
            return "kept %d vertices although the largest component has %d" % (len(D), max(sizes))
        return "distance matrix is not that of a largest connected component"
    # the dtype is not part of the statement: a type too narrow for the distances shows as wrong VALUES above; the width
    # itself is compared with the model only (canon_dist, correspondence)
    return None


def relabelled_block_ok(U, p, cm, warned=None):
    """U: the graph, p: the relabelling (A'[a][b] = A[p[a]][p[b]]), cm: canonical result for the relabelled graph.
    The expected block: for a largest component C of U, the new labels a with p[a] in C, increasing, with the
    distances of U between the p[a].  Returns (ok, unique-largest?)"""
    D = o_bfs(U)
    comps = o_components(D)
    best = max(len(c) for c in comps)
    largest = [c for c in comps if len(c) == best]
    if isinstance(cm, str):
        return False, len(largest) == 1
    want = []
    for C in largest:
        cs = set(C)
        keep = [a for a in range(len(p)) if p[a] in cs]
        want.append([[D[p[a]][p[b]] for b in keep] for a in keep])
    return cm[0] in want and (cm[1] is True if warned is None else warned), len(largest) == 1


def well_formed(E):
    try:
        n = len(E)
        return n > 0 and all(len(r) == n for r in E)
    except TypeError:
        return False


def canon_dist(code):
    if code[0] == "err":
        return "err:" + code[1]
    return [code[1], code[3], code[2]]


def law_canon(code):
    """what the [T] laws compare between representations: the distances and whether a warning was raised - not the dtype,
    not the warning's category"""
    if code[0] == "err":
        return "err"
    return [code[1], warned_any(code[5])]


def canon_model(ans):
    if isinstance(ans, str):
        return ans
    return [[[int(x) for x in row] for row in ans[0]], ans[1], int(ans[2])]


# ----------------------------------------------------------------------------- reporting

def stop(ctx):
    """enough failing inputs of the statement found; correspondence-only breaks do not end the search"""
    return sum(1 for _, found in ctx.violations if found) > 4


def report(ctx, what, case, found_input=True, **more):
    """VIOLATION with a failing input always; a disagreement with the model for which NO failing input of the
    statement was found is printed once per correspondence operation (and counted every time), so that the
    later streams still get their chance to find a failing input"""
    if found_input:
        return ctx.violation(what, case, found_input=True, **more)
    key = more.get("correspondence", "model")
    ctx.count("correspondence_break:" + key)
    seen = ctx.__dict__.setdefault("_corr_seen", set())
    if key in seen:
        return None
    seen.add(key)
    return ctx.violation(what, case, found_input=False, **more)


# ----------------------------------------------------------------------------- streams

def stream_dist(ctx):
    """make_distance_matrix_from_adjacency_matrix on every representation vs gr.dist / gr.components"""
    r = ctx.rng
    nmax = ctx.n(10, 40)
    jobs = []       # (meta, obj, U or None)
    corpus = [
        ("path3", g_path(3)), ("disc-3+2", g_union(r, [g_star(3), g_path(2)], False)),
        ("disc-2+3", g_union(r, [g_path(2), g_star(3)], False)), ("tie-2+2", g_union(r, [g_path(2), g_path(2)], False)),
        ("tie-P3+K3", g_union(r, [g_path(3), g_complete(3)], False)), ("iso3", _empty(3)), ("single", _empty(1)),
        ("interleaved", [[0, 0, 1, 0, 0], [0, 0, 0, 1, 0], [0, 0, 0, 0, 1], [0, 0, 0, 0, 0], [0, 0, 0, 0, 0]]),
        ("docs-K4", [[0, 1, 1, 1], [0, 0, 1, 1], [0, 0, 0, 1], [0, 0, 0, 0]]),
    ]
    graphs = [(k, U) for k, U in corpus]
    for _ in range(ctx.n(450, 5000)):
        graphs.append(gen_graph(ctx, nmax))
    # int8/int16 boundary: diameters 126..129
    for n in ([128, 129] if not ctx.thorough else [127, 128, 129, 130]):
        graphs.append(("longpath", g_path(n)))
    if ctx.thorough:
        graphs.append(("longcycle", g_cycle(r.choice([255, 256, 257]))))
    graphs.append(("long-union", g_union(r, [g_path(129), g_path(3)], False)))
    for kind, U in graphs:
        ctx.count("graph:" + kind)
        n = len(U)
        big = n > 60
        reps = []
        meta0 = {"orient": "upper", "weights": "one", "loops": False, "container": "list", "perm": None, "entries": U}
        reps.append((meta0, [list(x) for x in U]))
        if len(jobs) < len(corpus):            # corpus graphs go through EVERY container (K4 of the docstring as COO, …)
            for cont in CONTAINERS:
                obj = pack(U, cont)
                reps.append(({"orient": "upper", "weights": "one", "loops": False, "container": cont, "perm": None,
                              "entries": entries_of(obj)}, obj))
        k = 1 if big else ctx.rng.choice([2, 3, 4])
        for _ in range(k):
            reps.append(rand_rep(ctx, U, relabel=False, main=big))
        for _ in range(0 if big else 1):
            reps.append(rand_rep(ctx, U, relabel=True))
        jobs.append((kind, U, reps))
    # malformed stream
    bad = [[], [[]], [[0, 1, 0], [0, 0, 1]], [[0, 1], [0]], [[0], [0]], [[0, 1, 1]]]
    lines, flat = [], []
    for kind, U, reps in jobs:
        for meta, obj in reps:
            lines.append("gr.dist " + enc(meta["entries"]))
            flat.append((kind, U, meta, obj))
    for E in bad:
        lines.append("gr.dist " + enc(E))
        flat.append(("malformed", None, {"container": "list", "entries": E, "perm": None}, E))
    comp_lines = ["gr.components " + enc(U) for kind, U, reps in jobs]
    answers = ask(lines + comp_lines)
    dist_ans, comp_ans = answers[:len(lines)], answers[len(lines):]

    base = {}
    for idx, ((kind, U, meta, obj), ans) in enumerate(zip(flat, dist_ans)):
        E = meta["entries"]
        code = run_dist(obj)
        case = {"op": "dist", "container": meta["container"], "entries": E}
        ctx.case(case, nontrivial=well_formed(E) and len(E) >= 3 and any(any(x != 0 for x in row) for row in E),
                 sample_every=211)
        ctx.count("container:" + meta["container"])
        if kind == "malformed":
            ctx.count("malformed")
            okm = code[0] == "err" and ans == "err:" + code[1]
            if not okm:
                report(ctx, "malformed adjacency %r: code %r, model %r" % (E, canon_dist(code), ans), case,
                              found_input=False, correspondence="gr.dist")
            continue
        if ans == "bad-op":
            raise common.HarnessError("driver does not know gr.dist")
        cm, mm = canon_dist(code), canon_model(ans)
        ctx.count("disconnected" if (code[0] == "ok" and code[3]) else "connected")
        if code[0] == "ok":
            ctx.count("bits:%d" % code[2])
        if cm != mm:
            why = dist_property(E, code)
            report(ctx, "make_distance_matrix_from_adjacency_matrix(%s %dx%d): %s; code=%s model=%s"
                          % (meta["container"], len(E), len(E), why or "code satisfies the statement but differs from the model",
                             short(cm), short(mm)), case, found_input=why is not None, correspondence="gr.dist")
            if stop(ctx):
                return
            if why is not None:
                continue
            # differs from the model only (dtype, warning category, tie-break): the laws below are still evaluated
        # [T] laws on the real code: every representation of the same labelled graph gives the same answer,
        # a relabelling permutes the answer (connected graphs; a disconnected graph may select another component)
        key = id(U)
        lc = law_canon(code)
        if meta["perm"] is None:
            if key not in base:
                base[key] = lc
            ok = lc == base[key]
            ctx.test("formats_agree", ok)
            if not ok:
                ctx.violation("two representations of the same labelled graph give different distance matrices",
                              {"op": "dist", "container": meta["container"], "entries": E,
                               "other_entries": U, "other_container": "list"}, law="formats_agree")
        elif key in base and not isinstance(base[key], str) and not o_space(U)[1]:
            p = meta["perm"]
            D0 = base[key][0]
            ok = (not isinstance(cm, str)) and cm[0] == [[D0[p[a]][p[b]] for b in range(len(p))] for a in range(len(p))]
            ctx.test("relabel_equivariant", ok)
            if not ok:
                ctx.violation("distance matrix of a relabelled connected graph is not the relabelled distance matrix",
                              {"op": "dist", "container": meta["container"], "entries": E, "perm": p, "other_entries": U},
                              law="relabel")
        elif key in base and not isinstance(base[key], str):
            # disconnected: with a UNIQUE largest component the relabelled graph must give the relabelled block
            # (theorem relabel_unique_largest); with a tie any of the tied components' blocks is acceptable
            p = meta["perm"]
            ok, unique = relabelled_block_ok(U, p, cm, warned=code[0] == "ok" and warned_any(code[5]))
            ctx.test("relabel_equivariant_disconnected_unique" if unique else "relabel_disconnected_tie_some_largest", ok)
            if not ok:
                ctx.violation("distance matrix of a relabelled disconnected graph is not the relabelled block of %s largest component"
                              % ("its" if unique else "a"),
                              {"op": "dist", "container": meta["container"], "entries": E, "perm": p, "other_entries": U},
                              law="relabel")
        # [T] the oracle itself agrees (keeps the failing-input search honest)
        if len(E) <= 12:
            why = dist_property(E, code)
            ctx.test("oracle_agrees", why is None)
            if why is not None:
                ctx.violation("make_distance_matrix_from_adjacency_matrix: " + why, case, law="oracle")
    # contracts: scipy's labelling and numpy's unique/argmax against the model
    for (kind, U, reps), ans in zip(jobs, comp_ans):
        if len(U) > 60 and not ctx.thorough:
            pass
        a = np.array(U)
        ncomp, lab = connected_components(a, directed=False)
        comps, counts = np.unique(lab, return_counts=True)
        largest = int(comps[np.argmax(counts)])
        members = [int(v) for v in np.nonzero(lab == largest)[0]]
        code = [int(ncomp), [int(x) for x in lab], largest, members]
        model = ans if isinstance(ans, str) else [int(ans[0]), [int(x) for x in ans[1]], int(ans[2]), [int(x) for x in ans[3]]]
        ctx.case({"op": "components", "entries": U}, nontrivial=ncomp > 1, sample_every=0 if ncomp > 2 else 10 ** 9)
        ctx.count("components:%d" % min(int(ncomp), 5))
        if sorted(counts.tolist())[-2:] == [counts.max()] * 2 and ncomp > 1:
            ctx.count("tie_in_largest_size")
        if code != model:
            report(ctx, "scipy connected_components / np.unique / np.argmax differ from the model's labelling: scipy=%s model=%s"
                          % (short(code), short(model)), {"op": "components", "entries": U, "code": code, "model": model},
                   found_input=False, correspondence="gr.components")
            if stop(ctx):
                return


def stream_inttype(ctx):
    f = gh().determine_optimal_int_type
    vals = [0, 1, 126, 127, 128, 129, 255, 256, 32766, 32767, 32768, 65535, 65536, 2 ** 31 - 2, 2 ** 31 - 1, 2 ** 31,
            2 ** 32, 2 ** 62, 2 ** 63 - 1, 2 ** 63, 2 ** 64, 2 ** 70]
    vals += [ctx.rng.randrange(0, 2 ** ctx.rng.choice([7, 8, 15, 16, 31, 32, 63, 64])) for _ in range(ctx.n(60, 600))]
    answers = ask(["gr.inttype %d" % v for v in vals])
    for v, ans in zip(vals, answers):
        st, t, _ = call(f, v)
        code = "err:" + t if st == "err" else int(np.dtype(t).itemsize * 8)
        model = ans if isinstance(ans, str) else int(ans)
        ctx.case({"op": "inttype", "value": v}, nontrivial=v > 127, sample_every=10 ** 9)
        if code != model:
            # a private helper and a dtype: not in the statement.  A type too narrow for a distance matrix shows as wrong
            # distances in stream_dist (paths of 128..130 vertices, the long cycle) and as wrong bounds in stream_big_pairs,
            # through the functions the statement is about; here the difference is a correspondence break only.
            suff = isinstance(code, int) and v <= 2 ** (code - 1) - 1
            bad = (isinstance(code, str) and v <= 2 ** 63 - 1) or (isinstance(code, int) and not suff)
            report(ctx, "determine_optimal_int_type(%d): code=%s model=%s%s" % (v, code, model,
                          " (the chosen type cannot hold the value)" if bad else ""),
                          {"op": "inttype", "value": v}, found_input=False, correspondence="gr.inttype")
            if stop(ctx):
                return


def stream_limits(ctx):
    """[T] a DOCUMENTED LIMIT of the model, shown on the real code: scipy's dense reader treats |x| <= 1e-8, NaN and inf as
    "no edge" while a sparse matrix counts every STORED entry (even an explicit 0) as an edge.  The model's input is the
    matrix of entries with `non-zero = edge`; such inputs are outside it (ASSUMPTIONS) and the two containers of the same
    numbers legitimately differ.  Nothing here is a violation; a change of scipy's behaviour is only counted."""
    n = 2
    tiny_dense = np.array([[0, 1e-9], [0, 0]])
    tiny_csr = sps.csr_matrix(tiny_dense)
    stored0 = sps.csr_matrix((np.array([0.0]), (np.array([0]), np.array([1]))), shape=(n, n))
    above = np.array([[0, 2e-8], [0, 0]])
    # BSR with scipy's automatic 2x2 blocks: the path 1-2-0-3 (edges 0-2, 0-3, 1-2); the zero entries (1,3)/(3,1) lie
    # inside stored blocks, so the code sees the extra edge 1-3 and d(1,3) = 1 instead of 3
    P = np.array([[0, 0, 1, 1], [0, 0, 1, 0], [1, 1, 0, 0], [1, 0, 0, 0]])
    bsr_auto = sps.bsr_matrix(P)
    seen = {"dense 1e-9": run_dist(tiny_dense), "csr 1e-9": run_dist(tiny_csr), "csr stored 0": run_dist(stored0),
            "dense 2e-8": run_dist(above), "bsr auto blocks %s" % (bsr_auto.blocksize,): run_dist(bsr_auto),
            "same entries dense": run_dist(P)}
    edge, noedge = [[0, 1], [1, 0]], [[0]]
    as_documented = (seen["dense 1e-9"][:2] == ("ok", noedge) and warned_any(seen["dense 1e-9"][5])
                     and seen["csr 1e-9"][:2] == ("ok", edge) and seen["csr stored 0"][:2] == ("ok", edge)
                     and seen["dense 2e-8"][:2] == ("ok", edge))
    bsr_differs = bsr_auto.blocksize != (1, 1) and seen["bsr auto blocks %s" % (bsr_auto.blocksize,)] != seen["same entries dense"]
    ctx.count("documented_limit:bsr_block_zeros_%s" % ("become_edges" if bsr_differs else "are_ignored"))
    ctx.case({"op": "documented_limit", "entries": tiny_dense.tolist()}, nontrivial=False)
    ctx.test("documented_limit_dense_tolerance_and_stored_zero_as_described", as_documented)
    ctx.count("documented_limit:%s" % ("as_described" if as_documented else "scipy_behaviour_changed"))
    ctx.extra["documented_limit_scipy_reader"] = {k: short(canon_dist(v), 120) for k, v in seen.items()}


def relabel_sym(r, U):
    n = len(U)
    p = list(range(n))
    r.shuffle(p)
    return [[1 if (U[p[a]][p[b]] or U[p[b]][p[a]]) else 0 for b in range(n)] for a in range(n)]


def stream_big_pairs(ctx):
    """[T] graphs with >= 128 vertices (int8 / int16 distance matrices, the find_lb index arithmetic of /repo a42e80a)
    through the PUBLIC gromov_hausdorff with a small mapping_sample_size_order: no exception, lb <= ub, both
    non-negative multiples of 1/2, and lb = 0 for isomorphic (relabelled) pairs"""
    r = ctx.rng
    P128, S129, C128, C129 = g_path(128), g_star(129), g_cycle(128), g_cycle(129)
    jobs = [("path128~relabelled", P128, relabel_sym(r, P128), True), ("star129~relabelled", S129, relabel_sym(r, S129), True),
            ("cycle128|cycle129", C128, C129, False), ("path129|star128", g_path(129), g_star(128), False)]
    if ctx.thorough:
        jobs += [("cycle129~relabelled", C129, relabel_sym(r, C129), True), ("path129~relabelled", g_path(129), relabel_sym(r, g_path(129)), True)]
    f = gh().gromov_hausdorff
    for name, U1, U2, iso in jobs:
        seed = r.randrange(2 ** 31)
        order = r.choice([[0.0, 0.0], [0.25, 0.0]])
        cont = r.choice(["int", "csr", "list", "int:T", "int:F", "int:fancy", "bool:strided", "float:roF"])
        case = {"op": "bigpair", "name": name, "seed": seed, "order": order, "container": cont, "entries": [U1, U2], "isomorphic": iso}
        ok, why = big_pair_ok(case)
        ctx.case({"op": "bigpair", "name": name, "seed": seed, "order": order, "container": cont}, nontrivial=True, sample_every=10 ** 9)
        ctx.count("bigpair:" + name)
        ctx.test("big_graphs_no_raise_lb_le_ub_iso_zero", ok)
        if not ok:
            ctx.violation("gromov_hausdorff on graphs with >= 128 vertices (%s): %s" % (name, why),
                          {k: v for k, v in case.items()}, law="bigpair")
            if stop(ctx):
                return


def stream_relabel_lb(ctx):
    """[T] "valid brackets under any vertex relabelling": a connected graph against a random relabelling of itself has
    mGH = 0, so the lower bound computed from the two distance matrices must be exactly 0 - an exact oracle at sizes
    (7-11 vertices, thousands of pairs) where the exhaustive mGH oracle is out of reach.  Catches unsound lower bounds
    that depend on the vertex order of the second graph."""
    r = ctx.rng
    m = gh()
    for _ in range(ctx.n(1500, 15000)):
        n = r.randint(7, 11)
        _, U1 = g_connected(r, n)
        U2 = relabel_sym(r, U1)
        # the relabelled graph as the array a user's own relabelling produces (`A[p][:, p]`, `A.T`, Fortran order, ...)
        cont = r.choice(["int", "int:fancy", "int:fancy", "int:T", "int:F", "bool:strided", "float:ro"])
        ctx.count("relabel_lb:container=" + cont)
        with np.errstate(all="ignore"), warnings.catch_warnings():
            warnings.simplefilter("ignore")
            try:
                lb = float(m.find_lb(m.make_distance_matrix_from_adjacency_matrix(np.array(U1)),
                                     m.make_distance_matrix_from_adjacency_matrix(pack(U2, cont))))
                why = None if lb == 0.0 else "lower bound %s/2 for a graph and a relabelling of itself (mGH = 0)" % lb
            except Exception as e:                      # noqa: a raise on a well-formed connected graph is a failing input
                why = "raised %s: %s" % (type(e).__name__, e)
        ctx.test("relabelled_self_pair_lb_zero", why is None)
        ctx.count("relabel_lb:n=%d" % n)
        if why:
            # find_lb / make_distance_matrix are called here with the harness's own convention: the claim is made through
            # the PUBLIC entry point (the same case, which is also what the replay runs); only a failure there is a
            # failing input
            case = {"op": "bigpair", "name": "relabelled %d-vertex graph" % n, "seed": 0, "order": [0.0, 0.0], "container": cont,
                    "entries": [U1, U2], "isomorphic": True}
            ok_pub, why_pub = big_pair_ok(case)
            if not ok_pub:
                ctx.violation("relabelling changes the bracket: %s; gromov_hausdorff on the pair: %s" % (why, why_pub), case, law="bigpair")
                return
            report(ctx, "find_lb called directly: %s, but gromov_hausdorff on the same pair is fine %s" % (why, why_pub), case,
                   found_input=False, correspondence="find_lb (direct call)")


def big_pair_ok(c):
    U1, U2 = c["entries"]
    np.random.seed(c["seed"])
    with np.errstate(all="ignore"):
        st, v, w = call_w(gh().gromov_hausdorff, pack(U1, c["container"]), pack(U2, c["container"]),
                          mapping_sample_size_order=np.array(c["order"]))
    if st == "err":
        return False, "raised " + str(v)
    lb, ub = float(v[0]), float(v[1])
    if warned_disconnected(w):
        return False, "warned about a disconnected graph although both graphs are connected: %s" % wnames(w)
    if not (0 <= lb <= ub) or (2 * lb) % 1 != 0 or (2 * ub) % 1 != 0:
        return False, "bounds (%s, %s) are not 0 <= lb <= ub in multiples of 1/2" % (lb, ub)
    if c["isomorphic"] and lb != 0:
        return False, "lower bound %s for isomorphic graphs" % lb
    return True, "(%s, %s)" % (lb, ub)


def small_space(E):
    sp, disc, largest = o_space(E)
    return sp, disc, largest


def check_brackets(ctx, E1, E2, lb, ub, case, limit):
    """[T] lb <= mGH <= ub against exhaustive enumeration when both (fallback) spaces are small.
    With a tie between non-isometric largest components the statement leaves the choice open: the bounds are
    accepted if they bracket the distance for SOME choice of largest components (the first ones, like the model,
    are tried first)."""
    S1, S2 = o_spaces(E1), o_spaces(E2)
    s1, s2 = S1[0], S2[0]
    if len(s1) > limit or len(s2) > limit or len(s1) ** len(s2) > 50000 or len(s2) ** len(s1) > 50000:
        # beyond the exhaustive oracle.  One exact value is still known: identical spaces are at distance 0, so the lower
        # bound must be 0 (with several largest components the choice is open: checked only when it is unique)
        if s1 == s2 and len(S1) == 1 and len(S2) == 1:
            ctx.count("brackets_checked:identical_spaces_beyond_exhaustive_range")
            ok = lb == 0 and ub >= 0
            ctx.test("brackets_valid", ok)
            if not ok:
                ctx.violation("bounds do not bracket the mGH distance of two identical spaces: lb=%s ub=%s mGH=0" % (lb, ub),
                              dict(case, mgh=0.0), law="brackets")
            return ok
        ctx.count("brackets_skipped:spaces_beyond_exhaustive_range")
        return True
    ctx.count("brackets_checked:exhaustive")
    d = o_mgh(s1, s2)
    ok = lb <= d <= ub
    if not ok and len(S1) * len(S2) > 1:
        for a in S1:
            for b in S2:
                if not ok and (a is not s1 or b is not s2):
                    ok = lb <= o_mgh(a, b) <= ub
        if ok:
            ctx.count("brackets_valid_for_another_tied_component")
    ctx.test("brackets_valid", ok)
    if not ok:
        ctx.violation("bounds do not bracket the mGH distance: lb=%s ub=%s exhaustive mGH=%s" % (lb, ub, d),
                      dict(case, mgh=d), law="brackets")
    return ok


def stream_pairs(ctx):
    """public gromov_hausdorff(AG, AH): dispatch vs gr.gh, formats, relabelling, brackets"""
    r = ctx.rng
    nmax = ctx.n(8, 14)
    todo = []
    fixed = [(g_complete(4), _empty(1)), (g_path(2), g_cycle(5)), (g_union(r, [g_star(3), g_path(2)], False), g_path(3)),
             (g_union(r, [g_path(2), g_path(2)], False), _empty(2))]
    for i in range(ctx.n(260, 3000)):
        if i < len(fixed):
            U1, U2 = fixed[i]
        else:
            U1, U2 = gen_graph(ctx, nmax)[1], gen_graph(ctx, nmax)[1]
        todo.append((U1, U2))
    lines, recs = [], []
    for U1, U2 in todo:
        seed = r.randrange(2 ** 31)
        variants = []
        for v in range(3):
            if v == 0:
                m1 = {"container": "list", "entries": U1, "perm": None}; o1 = [list(x) for x in U1]
                m2 = {"container": "list", "entries": U2, "perm": None}; o2 = [list(x) for x in U2]
            else:
                m1, o1 = rand_rep(ctx, U1, relabel=(v == 2))
                m2, o2 = rand_rep(ctx, U2, relabel=(v == 2))
            st, val, w, calls = run_gh([o1, o2], True, seed=seed)
            variants.append((m1, m2, st, val, w, calls))
            lines.append("gr.gh pair %s %s" % (enc([m1["entries"], m2["entries"]]), calls_token(calls)))
        recs.append((U1, U2, seed, variants))
    answers = iter(ask(lines))
    for U1, U2, seed, variants in recs:
        lb0 = None
        for v, (m1, m2, st, val, w, calls) in enumerate(variants):
            ans = next(answers)
            case = {"op": "pair", "seed": seed, "containers": [m1["container"], m2["container"]],
                    "entries": [m1["entries"], m2["entries"]]}
            ctx.case(case, nontrivial=len(U1) >= 3 and len(U2) >= 2, sample_every=173)
            disc = o_space(U1)[1] or o_space(U2)[1]
            # graceful degradation on the real code: no exception; a disconnected graph comes with a warning (any); the
            # disconnected-graph warning is not raised when every graph is connected (unrelated warnings may be)
            okr = st == "ok" and warning_verdict(w, disc) is None
            ctx.test("pair_no_raise_and_warns_iff_disconnected", okr)
            if not okr:
                ctx.violation("gromov_hausdorff(AG, AH) on well-formed graphs: %s, warnings %s, disconnected=%s"
                              % ("raised " + str(val) if st == "err" else "returned; " + str(warning_verdict(w, disc)), wnames(w), disc),
                              case, law="graceful")
                if stop(ctx):
                    return
                continue
            lb, ub = float(val[0]), float(val[1])
            code = [lb, ub, len(calls)]
            model = ans if isinstance(ans, str) else [float(ans[0]), float(ans[1]), int(ans[2])]
            if code != model:
                good = check_brackets(ctx, m1["entries"], m2["entries"], lb, ub, case, 6)
                report(ctx, "pair dispatch differs from the model: code=%s model=%s" % (code, model), case,
                              found_input=not good, correspondence="gr.gh pair")
                if stop(ctx):
                    return
                continue
            okb = lb <= ub
            ctx.test("lb_le_ub", okb)
            check_brackets(ctx, m1["entries"], m2["entries"], lb, ub, case, ctx.n(5, 6))
            if v == 0:
                lb0, ub0 = lb, ub
            elif v == 1:
                # identical labelling, other formats: identical LOWER bounds is what the statement promises.  The upper
                # bound (same RNG seed) is identical in the model; a difference there is a correspondence matter - both
                # upper bounds still have to bracket the distance (check_brackets above).
                ok = lb == lb0
                ctx.test("lower_bound_identical_across_formats", ok)
                if not ok:
                    ctx.violation("lower bound changes with the representation of identically labelled graphs: %s vs %s"
                                  % ((lb0, ub0), (lb, ub)), dict(case, other_entries=[U1, U2]), law="formats")
                elif ub != ub0:
                    report(ctx, "upper bound (same RNG seed) changes with the representation of identically labelled graphs: "
                           "%s vs %s; the statement promises this only for lower bounds" % ((lb0, ub0), (lb, ub)),
                           dict(case, other_entries=[U1, U2]), found_input=False, correspondence="ub across formats")
            if not okb:
                ctx.violation("lower bound above upper bound", case, law="lb_le_ub")
            if stop(ctx):
                return


def stream_collections(ctx):
    """public gromov_hausdorff(As): symmetric, zero diagonal, entries are the pair results under the same RNG state"""
    r = ctx.rng
    nmax = ctx.n(7, 12)
    lines, recs = [], []
    for i in range(ctx.n(110, 1000)):
        N = r.choice([2, 3, 3, 4, 4, 5, 6])
        Us = [gen_graph(ctx, nmax)[1] for _ in range(N)]
        if i % 5 == 1:                       # larger, asymmetric graphs (the heuristic upper bound is not tight there)
            N = r.choice([2, 3])
            Us = [g_connected(r, r.randint(8, ctx.n(14, 20)))[1] for _ in range(N)]
            ctx.count("collection:large_graphs")
        if i == 0:
            Us = [g_complete(4), _empty(1), g_path(2), g_cycle(5)]
        if r.random() < 0.3:
            Us[r.randrange(len(Us))] = list(Us[0])       # repeated graph -> zero off-diagonal entries
        reps = [rand_rep(ctx, U) for U in Us]
        metas, objs = [m for m, _ in reps], [o for _, o in reps]
        if r.random() < 0.3:
            objs = tuple(objs)
        seed = r.randrange(2 ** 31)
        st, val, w, calls = run_gh(objs, False, seed=seed)
        lines.append("gr.gh coll %s %s" % (enc([m["entries"] for m in metas]), calls_token(calls)))
        lines.append("gr.symm %d %s" % (len(Us), enc([c["lb"] for c in calls])))
        recs.append((Us, metas, objs, seed, st, val, w, calls))
    # fewer than two graphs
    few = [[], [g_path(3)]]
    for As in few:
        lines.append("gr.gh coll %s []" % enc(As))
    answers = ask(lines)
    for k, (Us, metas, objs, seed, st, val, w, calls) in enumerate(recs):
        ans, ans_symm = answers[2 * k], answers[2 * k + 1]
        N = len(Us)
        case = {"op": "coll", "seed": seed, "containers": [m["container"] for m in metas],
                "entries": [m["entries"] for m in metas]}
        ctx.case(case, nontrivial=N >= 3, sample_every=29)
        ctx.count("collection:N=%d" % N)
        disc = any(o_space(m["entries"])[1] for m in metas)
        okr = st == "ok" and warning_verdict(w, disc) is None
        ctx.test("collection_no_raise_and_warns_iff_disconnected", okr)
        if not okr:
            ctx.violation("gromov_hausdorff(As): %s, warnings %s, disconnected=%s"
                          % ("raised " + str(val) if st == "err" else "returned; " + str(warning_verdict(w, disc)), wnames(w), disc),
                          case, law="graceful")
            if stop(ctx):
                return
            continue
        lbs, ubs = np.asarray(val[0]), np.asarray(val[1])
        why, attribution = coll_property(ctx, metas, objs, lbs, ubs, calls, case)
        code = [lbs.tolist(), ubs.tolist(), len(calls)]
        model = ans if isinstance(ans, str) else [[[float(x) for x in row] for row in ans[0]],
                                                   [[float(x) for x in row] for row in ans[1]], int(ans[2])]
        symm = ans_symm if isinstance(ans_symm, str) else [[float(x) for x in row] for row in ans_symm]
        if why is not None:
            ctx.violation("gromov_hausdorff(As), N=%d: %s" % (N, why), case, law="collection")
        elif attribution is not None:
            # HOW the entries are computed (one estimate call per pair, right after that pair's two distance matrices, each
            # entry equal to the pair call from the RNG state reached there) is the model's dispatch, not the statement
            report(ctx, "collection entries are valid but not computed as in the model: %s" % attribution, case,
                   found_input=False, correspondence="gr.gh coll (entry = pair call from the recorded RNG state)")
        elif code != model or symm != code[0]:
            report(ctx, "collection dispatch differs from the model although the statement's laws hold on the code: "
                          "code=%s model=%s" % (short(code), short(model)), case, found_input=False,
                          correspondence="gr.gh coll")
        if stop(ctx):
            return
    for As, ans in zip(few, answers[2 * len(recs):]):
        st, val, w, calls = run_gh(As, False, seed=1)
        code = "err:" + val if st == "err" else "ok"
        ctx.case({"op": "coll", "entries": As, "seed": 1, "containers": ["list"] * len(As)}, nontrivial=False)
        if code != ans:
            report(ctx, "collection of %d graphs: code=%s model=%s" % (len(As), code, ans),
                   {"op": "few", "entries": As, "code": code, "model": ans}, found_input=False,
                   correspondence="gr.gh coll (fewer than two graphs)")


def coll_property(ctx, metas, objs, lbs, ubs, calls, case):
    """the statement's laws for a collection result, on the real code.  Returns (why, attribution):
    `why`         None or how the STATEMENT fails: N x N, symmetric, zero diagonal, lb <= ub, every entry brackets the
                  pairwise distance (exhaustive oracle for small spaces; 0 for identical spaces), and the lower bound is the
                  one the pair call gives for the same two inputs in any RNG state (identical lower bounds for identical
                  labelings);
    `attribution` None or how the result differs from the MODEL's dispatch (entry (i,j) equals the pair call started from
                  the RNG state of the estimate call recorded right after the distance matrices of inputs i and j were
                  made).  An implementation that makes the distance matrices once, outside the pair loop, or draws its random
                  maps in another order is not against the statement: correspondence only."""
    N = len(metas)
    why = None
    ok = lbs.shape == (N, N) and ubs.shape == (N, N)
    ctx.test("collection_shape", ok)
    if not ok:
        return "result shapes %s %s" % (lbs.shape, ubs.shape), None
    ok = bool((lbs == lbs.T).all() and (ubs == ubs.T).all())
    ctx.test("collection_symmetric", ok)
    if not ok:
        why = "result matrices are not symmetric"
    ok = bool((np.diag(lbs) == 0).all() and (np.diag(ubs) == 0).all())
    ctx.test("collection_zero_diagonal", ok)
    if not ok:
        why = why or "diagonal is not zero"
    ok = bool((lbs <= ubs).all() and (lbs >= 0).all())
    ctx.test("collection_lb_le_ub", ok)
    if not ok:
        why = why or "an entry has lower bound above upper bound (or negative)"
    pairs = [(i, j) for i in range(N) for j in range(i + 1, N)]
    # --- the statement, pair by pair
    for (i, j) in pairs:
        # the lower bound does not consume the RNG: the pair call in any state gives the same lb
        st2, val2, _, _ = run_gh([objs[i], objs[j]], True, seed=ctx.rng.randrange(2 ** 31))
        ok = st2 == "ok" and float(val2[0]) == lbs[i, j]
        ctx.test("lb_deterministic", ok)
        if not ok:
            why = why or ("lower bound of pair (%d,%d) is %s in the collection but the pair call gives %s"
                          % (i, j, lbs[i, j], val2[0] if st2 == "ok" else "error " + str(val2)))
        okb = check_brackets(ctx, metas[i]["entries"], metas[j]["entries"], float(lbs[i, j]), float(ubs[i, j]),
                             dict(case, pair=[i, j]), ctx.n(5, 6))
        if not okb:
            why = why or "entry (%d,%d) does not bracket the mGH distance" % (i, j)
    # --- the model's dispatch (correspondence): a recorded estimate call belongs to the pair (i, j) of the two input
    # objects whose distance matrices were made just before it
    attribution = None
    states = {}

    def index_of(o):
        hits = [k for k, x in enumerate(objs) if x is o]
        return hits[0] if len(hits) == 1 else None
    for c in calls:
        if len(c["from"]) == 2:
            key = (index_of(c["from"][0]), index_of(c["from"][1]))
            if key in pairs and key not in states:
                states[key] = c["state"]
    ctx.count("collection_calls_%s" % ("as_modelled" if len(calls) == len(pairs) else "differ"))
    for (i, j) in pairs:
        if (i, j) not in states:
            ctx.test("collection_entry_is_pair_result", False)
            attribution = attribution or "no estimate call could be attributed to the pair (%d,%d); entry is (%s,%s)" \
                % (i, j, lbs[i, j], ubs[i, j])
            continue
        st, val, w, pc = run_gh([objs[i], objs[j]], True, state=states[(i, j)])
        ok = st == "ok" and float(val[0]) == lbs[i, j] and float(val[1]) == ubs[i, j]
        ctx.test("collection_entry_is_pair_result", ok)
        if not ok:
            attribution = attribution or "entry (%d,%d) = (%s,%s) but the pair call under the recorded RNG state gives %s" \
                % (i, j, lbs[i, j], ubs[i, j], val if st == "ok" else "error " + str(val))
    return why, attribution


def short(x, n=300):
    s = repr(x)
    return s if len(s) <= n else s[:n] + "…"


# source translator (DESIGN.md 3.2): part of the model is regenerated from the source text on every run
TRUSTED = list(TRUSTED) + [py2lean.trusted_note("graph"), py2lean.trusted_note("ghentry")]
# Props/C05C17.lean (the composition with C05's model of `estimate`, 8 of the CORE_THEOREMS) stays in the list that
# check.py builds and axiom-audits
HAND_FILES = ["PersimVerif/Props/C17.lean", "PersimVerif/Props/C05C17.lean"]
# key "ghentry" (py2lean_ghentry.py): the WHOLE of gromov_hausdorff / make_distance_matrix_from_adjacency_matrix / the int-type
# cast, statement by statement (Generated/SrcGHEntry.lean), and its composition with the `estimate` that key "mgh" translates
# (Lemmas/SrcGHEntryPublic.lean imports Generated/SrcMGH.lean, which check.py regenerates with the import closure)
PROP_FILES = HAND_FILES + py2lean.prop_files("graph") + py2lean.prop_files("ghentry")


def pre_build(ctx):
    """source translator: regenerate Generated/Src*.lean from PERSIM_ROOT's source"""
    py2lean.pre_build(ctx, ("graph", "ghentry", "mgh"))


DEFAULT_FILTER_STMT = "persim.gromov_hausdorff(np.array([[0,1,0,0],[1,0,0,0],[0,0,0,1],[0,0,1,0]]), np.array([[0,1],[1,0]]))"


def default_filter_probe(ctx):
    """[T] `a disconnected graph is handled WITH A WARNING` as the caller experiences it: in a fresh interpreter under
    Python's own warning filters (the other streams record with simplefilter("always"), which would hide a filter that
    `import persim` installs), the call must deliver a warning"""
    for prelude in (None, common.WARN_PRELUDE):          # alone, and after other public persim calls in the same process
        res = common.warnings_under_default_filters(DEFAULT_FILTER_STMT, prelude)
        if res is None:
            ctx.count("default_filter_probe:not_run")
            continue
        ctx.test("warning_reaches_caller_under_default_filters", res[0] >= 1)
        if res[0] < 1:
            ctx.violation("no warning reaches the caller under the interpreter's default warning filters%s for: %s"
                          % (" after other persim calls in the same process" if prelude else "", DEFAULT_FILTER_STMT),
                          {"op": "default_filter_probe", "stmt": DEFAULT_FILTER_STMT, "prelude": prelude}, found_input=True)
            return


def run(ctx):
    # Lemmas/SrcGHEntryPublic.lean imports Generated/SrcMGH.lean (C05's translator output): an edit of `estimate` or below breaks
    # the build there, so those obligations are named in this report too (they are audited under C05, not counted here)
    py2lean.report_broken(ctx, PROP_FILES + [f for f in py2lean.prop_files("mgh") if f not in PROP_FILES])
    default_filter_probe(ctx)
    warnings.filterwarnings("ignore", category=sps.SparseEfficiencyWarning)
    ctx.extra["source_digest"] = common.source_digest(
        "persim/gromov_hausdorff.py", ["gromov_hausdorff", "make_distance_matrix_from_adjacency_matrix",
                                       "cast_distance_matrix_to_optimal_int_type", "determine_optimal_int_type"])
    with common.LineCov(["persim/gromov_hausdorff.py"]) as cov:
        cov_probe()
    summ = cov.summary()
    for v in summ.values():      # the anchored functions are lines 116-265 (dispatch, make_distance_matrix, int type)
        v["missed_lines_in_anchored_range_116_265"] = [x for x in v.pop("missed_lines") if 116 <= x <= 265]
    ctx.extra["line_coverage_probe"] = summ
    corethm.record(ctx, CORE_THEOREMS, HAND_FILES)     # a core name not declared in those files is an internal error
    for stream in (stream_dist, stream_inttype, stream_limits, stream_big_pairs, stream_relabel_lb, stream_pairs, stream_collections):
        stream(ctx)
        if stop(ctx):
            return


def cov_probe():
    """a handful of calls under line tracing: which lines of the anchored functions the streams reach"""
    f = gh().gromov_hausdorff
    np.random.seed(0)
    with warnings.catch_warnings():
        warnings.simplefilter("ignore")
        call(f, [[0, 1, 0], [0, 0, 1], [0, 0, 0]], sps.csr_matrix(np.array([[0, 1, 0, 0], [0, 0, 0, 0], [0, 0, 0, 1], [0, 0, 0, 0]])))
        call(f, [[[0, 1], [0, 0]], np.array([[0]]), [[0, 1, 1], [0, 0, 1], [0, 0, 0]]])
        call(f, [[[0]]])
        call(gh().determine_optimal_int_type, 2 ** 63)


# ----------------------------------------------------------------------------- replay

def replay(ctx, rep):
    c = rep["case"]
    op = c.get("op")
    if op == "default_filter_probe":
        res = common.warnings_under_default_filters(c["stmt"], c.get("prelude"))
        print("warnings delivered under default filters:", res)
        return res is None or res[0] >= 1
    if op == "dist":
        obj = pack(c["entries"], c.get("container", "list")) if well_formed(c["entries"]) else c["entries"]
        code = run_dist(obj)
        print("code:", short(canon_dist(code), 600))
        if not well_formed(c["entries"]):
            return code[0] == "err"
        why = dist_property(c["entries"], code)
        ok = why is None
        if ok and "other_entries" in c:
            other = run_dist(pack(c["other_entries"], c.get("other_container", "list")))
            if c.get("perm") and other[0] == "ok" and o_space(c["other_entries"])[1]:
                ok = relabelled_block_ok(c["other_entries"], c["perm"], canon_dist(code),
                                         warned=code[0] == "ok" and warned_any(code[5]))[0]
            elif c.get("perm"):
                p = c["perm"]
                ok = code[0] == "ok" and other[0] == "ok" and \
                    code[1] == [[other[1][p[a]][p[b]] for b in range(len(p))] for a in range(len(p))]
            else:
                ok = law_canon(other) == law_canon(code)
            why = None if ok else "representations disagree"
        print("statement:", why or "holds")
        return ok
    if op == "bigpair":
        ok, why = big_pair_ok(c)
        print("code:", why)
        return ok
    if op == "inttype":
        v = c["value"]
        st, t, _ = call(gh().determine_optimal_int_type, v)
        print("code:", t, "(a private helper's dtype choice: correspondence only, the statement cannot fail here)")
        return True
    if op in ("pair", "coll"):
        objs = [pack(E, k) for E, k in zip(c["entries"], c["containers"])]
        st, val, w, calls = run_gh(objs, op == "pair", seed=c["seed"])
        print("code:", st, short(val, 600), wnames(w))
        disc = any(o_space(E)[1] for E in c["entries"])
        if st != "ok" or warning_verdict(w, disc) is not None:
            return False
        before = len(ctx.violations)
        if op == "pair":
            lb, ub = float(val[0]), float(val[1])
            ok = lb <= ub and check_brackets(ctx, c["entries"][0], c["entries"][1], lb, ub, c, 6)
            if ok and "other_entries" in c:
                st2, val2, _, _ = run_gh(c["other_entries"], True, seed=c["seed"])
                ok = st2 == "ok" and float(val2[0]) == lb            # identical LOWER bounds are what is promised
            return ok and before == len(ctx.violations)
        metas = [{"entries": E, "container": k} for E, k in zip(c["entries"], c["containers"])]
        why, attribution = coll_property(ctx, metas, objs, np.asarray(val[0]), np.asarray(val[1]), calls, c)
        print("statement:", why or "holds", "| model's dispatch:", attribution or "as modelled")
        return why is None and before == len(ctx.violations)
    print("correspondence-only replay (no failing input was found): re-run `./check.py C17` with VERIF_SEED=%s" % rep.get("seed"))
    return True


MANIFEST = {
    "text": "Proof: 45 Lean theorems (30 of them core: each carries a clause of the statement; the rest are helper steps, the "
            "labelling contract, and concrete instances such as old_fallback_not_square, tie_relabel_selects_other_component, "
            "int_type_thresholds; Props/C17.lean is core Lean, no Mathlib needed; the 12 of Props/C05C17.lean compose it with C05's "
            "Mathlib-based model of `estimate`) about the model of the representation layer of gromov_hausdorff "
            "over Nat matrices, for graphs of every size: the result depends on the input only through the undirected unweighted "
            "adjacency `adjOf` (so upper-triangular, strictly upper, symmetric, re-weighted, bool/int/float and list/dense/sparse forms of "
            "one labelled graph agree; self-loops never matter); the model's level-BFS with fuel n computes exactly the shortest-walk "
            "lengths (none = no walk) and commutes with every vertex permutation; a connected graph gives the full matrix without "
            "warning and equivariantly under relabelling; a disconnected one gives - warning flag set iff disconnected - the square, "
            "finite, symmetric, zero-diagonal, positive, triangle-inequality block of shortest-walk lengths of its FIRST largest "
            "component (labels in order of first vertex, first maximum of the counts), and no well-formed graph raises; when one "
            "component is strictly larger than all others (relabel_unique_largest; every connected graph qualifies) the relabelled "
            "graph yields, for EVERY relabelling, the relabelled block of the same original vertices, same warning, same dtype. "
            "THE TIE EXCEPTION: with several largest components the statement's 'its largest connected component' is not unique; "
            "the code takes the one with the smallest vertex and a relabelling can select another, non-isometric one "
            "(tie_relabel_selects_other_component: path+triangle) - 'under any vertex relabelling' holds up to that choice, and the "
            "harness accepts every tied component for the property verdict. The dtype is the "
            "smallest signed width holding every entry and every difference; for every `estimate`, every N >= 2 and every RNG state the "
            "collection result is N x N, symmetric, zero-diagonal, entry (i,j) is exactly the pair result in the RNG state reached at that "
            "point; `lb_deterministic` is a statement about the DISPATCH only: its hypothesis (two estimators always agree on the "
            "lower-bound component, i.e. find_lb is a function of (DX, DY) alone) IS the statement's clause for find_lb itself, which "
            "C17.lean alone does not prove - find_lb is owned by C05 - and which is tested here on the real code ([T] lb_deterministic). "
            "THAT HYPOTHESIS IS NOW DISCHARGED (Props/C05C17.lean): instantiating `est` with C05's model of `estimate` on the matrices "
            "makeDist returns (MGHPublic.publicGH; NumPy's generator and mapping_sample_size_order are one `Sampler` parameter) gives "
            "public_lb_deterministic without hypothesis, because find_lb takes no draws. The bracket of the PUBLIC entry point - every "
            "returned (lo, hi) has lo <= mGH(X', Y') <= hi in halves for the shortest-path metrics X', Y' of the kept blocks "
            "(public_pair_brackets, public_collection_brackets; also public_iso_lb_zero, public_never_raises), for inputs of every size, "
            "connected or not, and every sampler meeting NumPy's contract - is a theorem about that COMPOSED MODEL; its tie to the real "
            "code stays the two correspondences, C17's (here) and C05's. "
            "2*mGH <= c is invariant under relabelling (spec level); "
            "the pre-fix rows-only fallback is shown non-square by `decide`. The model is tied to the code on every run by exact comparison "
            "(distance matrix, warning, dtype, error kind, component labels, dispatch with the recorded estimate calls replayed into the "
            "model) on generated graphs in 33 containers (nested lists / tuples, ndarray int / bool / float, np.matrix, 9 sparse kinds, and "
            "dense arrays that are not C-contiguous or not writable: transposed view, Fortran order, fancy-indexed relabelling, strided "
            "view, read-only, each as int / bool / float - the layouts behind /repo fc69e2e, which an earlier harness of C-contiguous "
            "arrays only had missed) x orientations x weights x relabellings. What the statement does not fix "
            "(dtype, warning category, upper bounds across formats, the order/attribution of estimate calls inside a collection "
            "call) is compared with the model only and reported as no-failing-input-found; a failing input is claimed for wrong "
            "distances / non-metrics, raising, a missing warning, a disconnected-graph warning on connected graphs, differing lower "
            "bounds, asymmetric / non-zero-diagonal / non-bracketing collection entries.",
    "note": "Trusted: Lean kernel, axioms propext/Classical.choice/Quot.sound; the correspondence harness; scipy csgraph "
            "shortest_path/connected_components and numpy unique/argmax/mask indexing/astype as contracts (compared exactly with the model "
            "on every case). In Props/C17.lean `estimate` is a parameter (its soundness is C05); Props/C05C17.lean instantiates it with C05's model, "
            "so the composed theorems additionally trust C05's correspondence (estimate downwards, recorded draws replayed), not a new one. [T] only: bracket validity against the exhaustive mGH oracle "
            "(<= 6 vertices; for SOME choice among tied largest components; pairs beyond that range are counted as skipped, except "
            "identical spaces whose lower bound must be 0), container unpacking, warnings raised by the real code, "
            "NumPy's dtype promotion, the pairs of 128/129-vertex graphs through the public entry point (no exception, lb <= ub, lb = 0 "
            "for isomorphic pairs). DOCUMENTED LIMIT (one [T] case shows it on the real code): scipy's dense reader treats |x| <= 1e-8, "
            "NaN and inf as 'no edge', while a sparse matrix counts every stored entry - even an explicit 0 - as an edge, so a dense "
            "and a sparse container of such numbers are different graphs to the code; in particular a BSR matrix with automatic 2x2 "
            "blocks turns the zeros inside a stored block into edges (shown for the path 1-2-0-3: d(1,3) = 1 instead of 3). The "
            "model's input is 'non-zero = edge' and these inputs are outside it (ASSUMPTIONS); whether the BSR behaviour should be "
            "repaired in the code (eliminate_zeros after tocsr) is reported to the maintainers of known_findings.txt.",
    "technique": "Lean 4 theorems over a hand-written model + differential correspondence with the real code",
}
MANIFEST["note"] += " " + py2lean.manifest_note("graph") + " " + py2lean.manifest_note("ghentry")
