"""C19 — the public API is pure, repeatable and representation-independent.

Theorems: lean/PersimVerif/Props/C19.lean over the memory-level IR of lean/PersimVerif/Model/IR.lean
(`points_to_sound`, `no_owned_write`, `checked_no_owned_write`, `wellFormed_*`, `deterministic_of_no_global`,
`result_function_of_arguments`, `seeded_result_function_of_arguments`, `second_call_same_result`, …).
Model: REGENERATED FROM THE SOURCE on every run by harness/translator/py2ir.py (`pre_build`): one IR program, one
solution and the obligations `safe_<entry>` / `glob_<entry>` / `wf_<entry>` (and `repeat_<entry>` where a literal second call
provably returns an equal result) per public entry point, in lean/PersimVerif/Generated/ApiIR.lean and its shards.  The
translator and its classification table are TRUSTED.
[T]: the translator self-test on a seeded snippet corpus (each known-bad snippet must be rejected by the Lean checker,
no known-good one may be, each "refused" one must raise TranslatorError; every translation must be well-formed), the check
of the `out` / `copy` / `overwrite_input` positions of the classification table against the installed numpy, the DYNAMIC
PROBE of every function / method the table calls "fresh" (`fresh_probe`: identity, np.shares_memory, in-place write to the
result, on real / complex / integer arrays, lists, sparse matrices), and the DYNAMIC SWEEP over every public entry point (the list the
translator enumerates plus the public methods inherited from scikit-learn): arguments byte-compared before/after, calls
repeated / interleaved / rebuilt and compared — for plotting functions the "result" is what was drawn (the data of the new
artists, and on which axes) —, seeded reproducibility of the mGH upper bound, and representation independence (nested lists /
int arrays / float arrays, also for arguments that are lists of diagrams).
The sweep is also the failing-input search when a generated obligation no longer builds.
"""
import copy
import contextlib, copy, io, math, os, random, re, warnings
import numpy as np
from .. import common
from ..common import HarnessError
from ..translator import py2ir, tables

LEVEL = "proof"
RULE = ("every public entry point enumerated by the translator (functions, methods, constructors, property getters/setters, "
        "dunder operators) is called on arguments built from one PRNG: diagrams of 1-8 points from lattice/half/dyadic/decimal/"
        "uniform coordinate modes (ties, duplicates, infinite deaths where the routine filters them), graphs of 3-7 vertices as "
        "dense/nested-list/sparse adjacency matrices, exact and approximate landscapes built from such diagrams, grids, kernels, "
        "weights and matplotlib axes on Agg (the axes handed over as ax= is pyplot's current axes in half of the cases and not in the "
        "other half); each case = (entry point, argument seed); non-trivial = the call returned without an "
        "exception on arguments holding at least one array/list with >= 2 elements; distinct by digest of (entry, seed). "
        "Representation forms: float64 / int64 / nested list / uint8 / int8 / int16 / int32 of every diagram argument (a single diagram or "
        "a list of diagrams), integer forms only where they hold the same values exactly")
ASSUMPTIONS = [
    "the IR programs over-approximate the Python functions: this is the translator's job (trusted, validated by the snippet corpus and the sweep)",
    "diagram / matrix arrays have a numeric dtype, so np.copy / astype / arithmetic results hold no references to their inputs",
    "caller-supplied callables — ONLY the parameters / instance attributes named `weight` and `kernel` (tables.CALLER_CALLABLES) — do not "
    "mutate their arguments; persim's own kernels and weights are entry points themselves. A call through any other value the translator "
    "cannot resolve is an unknown call that may write everything reachable from its arguments and its receiver",
    "a method name that some persim class defines, called on a receiver of unknown class, is taken to be one of those persim methods (or, "
    "if the name is also in a table, the table's meaning)",
    "an instance is not also passed as another argument of its own method; attribute tables of instances may be updated (lazy caches, fit)",
    "library routines listed as read-only in the classification table (numpy/scipy/sklearn/matplotlib/hopcroftkarp) do not mutate their inputs "
    "(exercised by the byte comparison of the sweep on every run)",
    "matplotlib Axes/Figure arguments and pyplot's global state are drawing targets, not 'arrays or lists': the IR does not protect them. "
    "The sweep compares WHAT IS DRAWN (data of the new line / collection / image / text / patch artists; not colours, sizes, limits) "
    "between repeats, and demands that a call given ax= explicitly adds no artist to any other axes",
    "a representation form that raises where the float form works is outside the property ('wherever the function accepts those forms'): "
    "known limits are listed in FORMS_NOT_ACCEPTED, anything else is reported as a correspondence break (no failing input claimed)",
]
TRUSTED = [
    "harness/translator/py2ir.py and harness/translator/tables.py: the source -> IR translator and its classification table (printed into the "
    "evidence as classification_table); policy.json / dynamic_only.json / expected_obligations.json (committed, never written at run time): "
    "policy.json holds, word for word, the only `_VERIF_*` hook statements left out of the model, the reviewed class decorators, the "
    "`class` line and resolved bases of every persim class (class_lines), the reviewed subclass hooks of persim base classes "
    "(base_hooks_reviewed, none) and the reviewed writes of the entry points without a safety obligation",
    "the theorems are about IR programs: what ties them to persim is the translator, not a proof",
]
PROP_FILES = ["PersimVerif/Props/C19.lean"] + py2ir.shard_files(common.REPO)

_STATE = {}


def pre_build(ctx):
    """the TRANSLATOR: regenerate lean/PersimVerif/Generated/ApiIR*.lean from PERSIM_ROOT's current source"""
    with warnings.catch_warnings():
        warnings.simplefilter("ignore")
        try:
            project, tr, results = py2ir.generate(common.REPO, common.LEAN_DIR)
        except py2ir.TranslatorError as e:
            raise HarnessError("translator cannot handle the source: %s" % e)
    _STATE.update(project=project, translator=tr, results=results)
    want = sorted(py2ir.shard_files(common.REPO))
    if sorted(PROP_FILES[1:]) != want:
        raise HarnessError("generated shard list changed while running")


# ----------------------------------------------------------------------------------------------- snapshots and comparison

def _is_instance(o):
    return hasattr(o, "__dict__") and type(o).__module__.split(".")[0] == "persim"


def _sparse_state(o):
    """a scipy sparse matrix as its caller sees it: the dense view AND the stored structure (explicitly stored zeros,
    index arrays), which csgraph routines and `.nnz` expose"""
    parts = [type(o).__name__, o.shape, o.toarray().tobytes(), int(getattr(o, "nnz", -1))]
    for name in ("data", "indices", "indptr", "row", "col", "offsets"):
        v = getattr(o, name, None)
        if isinstance(v, np.ndarray):
            parts.append((name, v.dtype.str, v.tobytes()))
    return tuple(parts)


class Snap:
    """a deep snapshot of an argument that keeps references to the original objects, so that `changed()` can re-read them"""

    def __init__(self, obj, depth=0, seen=None):
        seen = {} if seen is None else seen
        self.obj, self.kind, self.kids, self.frozen = obj, "other", [], None
        if id(obj) in seen or depth > 8:
            self.kind = "seen"
            return
        seen[id(obj)] = self
        if isinstance(obj, np.ndarray):
            self.kind = "array"
            self.frozen = (obj.dtype.str, obj.shape, obj.tobytes() if obj.dtype != object else repr(obj.tolist()))
        elif isinstance(obj, (list, tuple)):
            self.kind = "seq"
            self.frozen = (type(obj).__name__, [id(x) for x in obj] if len(obj) < 64 else len(obj))
            self.kids = [Snap(x, depth + 1, seen) for x in obj[:64]]
            if len(obj) >= 64:
                self.frozen = (type(obj).__name__, len(obj), repr(obj))
        elif isinstance(obj, dict):
            self.kind = "dict"
            self.frozen = sorted((repr(k), id(v)) for k, v in obj.items())
            self.kids = [Snap(v, depth + 1, seen) for v in obj.values()]
        elif _is_instance(obj):
            self.kind = "instance"               # attribute tables may be updated; what they referenced must not be mutated
            self.kids = [Snap(v, depth + 1, seen) for v in vars(obj).values()]
        elif isinstance(obj, (int, float, complex, str, bool, np.generic)) or obj is None:
            self.kind = "scalar"
            self.frozen = repr(obj)
        elif hasattr(obj, "toarray") and hasattr(obj, "tocsr"):
            self.kind = "sparse"
            self.frozen = _sparse_state(obj)

    def changed(self, path="arg"):
        """None, or a description of the first difference between the snapshot and the objects now"""
        if self.kind == "array":
            o = self.obj
            now = (o.dtype.str, o.shape, o.tobytes() if o.dtype != object else repr(o.tolist()))
            if now != self.frozen:
                return "%s: ndarray changed (was dtype %s shape %s)" % (path, self.frozen[0], self.frozen[1])
        elif self.kind == "seq":
            o = self.obj
            now = (type(o).__name__, [id(x) for x in o] if len(o) < 64 else len(o))
            if len(self.frozen) == 3:
                now = (type(o).__name__, len(o), repr(o))
            if now != self.frozen:
                return "%s: %s changed (length / identity of items)" % (path, type(o).__name__)
        elif self.kind == "dict":
            if sorted((repr(k), id(v)) for k, v in self.obj.items()) != self.frozen:
                return "%s: dict changed" % path
        elif self.kind == "scalar":
            pass
        elif self.kind == "sparse":
            o = self.obj
            if _sparse_state(o) != self.frozen:
                return "%s: sparse matrix changed (dense view or stored structure: nnz / data / indices)" % path
        for i, k in enumerate(self.kids):
            d = k.changed("%s[%d]" % (path, i))
            if d:
                return d
        return None


def same(a, b, depth=0):
    """exact, NaN-aware equality of results (matplotlib objects and callables are not 'results')"""
    if depth > 8:
        return True
    if isinstance(a, np.ndarray) or isinstance(b, np.ndarray):
        try:
            a1, b1 = np.asarray(a), np.asarray(b)
        except Exception:
            return False
        if a1.shape != b1.shape:
            return False
        if a1.dtype == object or b1.dtype == object:
            return all(same(x, y, depth + 1) for x, y in zip(a1.ravel().tolist(), b1.ravel().tolist()))
        try:
            return bool(np.array_equal(a1, b1, equal_nan=True))
        except TypeError:
            return bool(np.array_equal(a1, b1))
    if isinstance(a, (list, tuple)) and isinstance(b, (list, tuple)):
        return len(a) == len(b) and all(same(x, y, depth + 1) for x, y in zip(a, b))
    if isinstance(a, dict) and isinstance(b, dict):
        return sorted(map(repr, a)) == sorted(map(repr, b)) and all(same(a[k], b[k], depth + 1) for k in a)
    if _is_instance(a) and _is_instance(b):
        da, db = vars(a), vars(b)
        keys = [k for k in da if not callable(da[k])]
        return type(a) is type(b) and all(k in db and same(da[k], db[k], depth + 1) for k in keys)
    if type(a).__module__.startswith("matplotlib") or type(b).__module__.startswith("matplotlib"):
        return True
    if callable(a) and callable(b):
        return True
    if isinstance(a, (float, np.floating)) and isinstance(b, (float, np.floating)):
        return (math.isnan(a) and math.isnan(b)) or a == b
    try:
        r = a == b
        return bool(r) if not isinstance(r, np.ndarray) else bool(r.all())
    except Exception:
        return repr(a) == repr(b)


def close(a, b, tol=1e-9, depth=0):
    """same structure, numbers within tol (used only to tell rounding apart from a real difference)"""
    try:
        if isinstance(a, (list, tuple)) and isinstance(b, (list, tuple)) and not isinstance(a, np.ndarray):
            return len(a) == len(b) and all(close(x, y, tol, depth + 1) for x, y in zip(a, b))
        if _is_instance(a) and _is_instance(b):
            return all(close(vars(a)[k], vars(b).get(k), tol, depth + 1) for k in vars(a) if not callable(vars(a)[k]))
        if a is None or b is None or isinstance(a, str):
            return a == b
        a1, b1 = np.asarray(a, dtype=float), np.asarray(b, dtype=float)
        return a1.shape == b1.shape and bool(np.allclose(a1, b1, rtol=tol, atol=tol, equal_nan=True))
    except Exception:
        return same(a, b)


# ----------------------------------------------------------------------------------------------- argument factories

class Case:
    def __init__(self, fn, args, kwargs=None, dgm_args=(), seeded=False, plot=False, updates_self=False, check=None):
        self.fn, self.args, self.kwargs = fn, list(args), dict(kwargs or {})
        self.check = check                   # optional: result -> None | text; a relation BETWEEN the calls the case makes inside
                                             # one result (a query repeated on the same object after another query, against
                                             # the same query on a fresh object) that the generic comparisons cannot express
        self.updates_self = updates_self     # a setter whose purpose is to change its object: not repeated on the same object
        self.dgm_args = tuple(dgm_args)      # indices of arguments that are diagrams (representation variants)
        self.seeded, self.plot = seeded, plot


BUILDERS = {}


def case(*names):
    def deco(f):
        for n in names:
            BUILDERS[n] = f
        return f
    return deco


def P(name):
    return common.pm(name)


def g_dgm(r, nmin=1, nmax=6, integer=False, inf=False, wide=False):
    G = common.Gen(r.randint(0, 2 ** 30))
    mode = "lattice" if integer else r.choice(["lattice", "half", "dec", "unif"] + (["dyadic"] if wide else []))
    pts = G.diagram(nmax, mode=mode, allow_diag=False, allow_empty=False)
    while len(pts) < nmin:
        pts.append(G.bar(mode or "half"))
    a = np.array(pts, dtype=float)
    if mode == "lattice" and r.random() < 0.5:
        a = a * 20.0                    # integer coordinates up to 120: squares and sums leave the narrow integer dtypes
    a = a[np.lexsort((-a[:, 1], a[:, 0]))] if r.random() < 0.3 else a
    if inf and r.random() < 0.4:
        a = np.vstack([a, [[float(r.randint(0, 3)), np.inf]]])
    return np.ascontiguousarray(a)


def g_dgms(r, integer=False):
    return [g_dgm(r, 2, 6, integer), g_dgm(r, 2, 6, integer)]


def g_graph(r, n=None):
    n = n or r.randint(3, 7)
    A = np.zeros((n, n), dtype=int)
    for i in range(1, n):                       # random tree, then extra edges: connected
        j = r.randint(0, i - 1)
        A[i, j] = A[j, i] = 1
    for _ in range(r.randint(0, n)):
        i, j = r.randint(0, n - 1), r.randint(0, n - 1)
        if i != j:
            A[i, j] = A[j, i] = 1
    return A


def g_dist(r, n=None):
    return P("gromov_hausdorff").make_distance_matrix_from_adjacency_matrix(g_graph(r, n))


def mk_exact(r, integer=False, hom=None):
    return P("landscapes.exact").PersLandscapeExact(dgms=g_dgms(r, integer), hom_deg=r.choice([0, 1]) if hom is None else hom)


def mk_exact_lazy(r):
    return P("landscapes.exact").PersLandscapeExact(dgms=g_dgms(r), hom_deg=r.choice([0, 1]), compute=False)


def mk_approx(r, grid=None, compute=True, hom=None):
    start, stop, n = grid or (0.0, 12.0, r.choice([13, 25, 49]))
    d = [np.clip(g_dgm(r, 2, 6), 0, 12), np.clip(g_dgm(r, 2, 6), 0, 12)]
    return P("landscapes.approximate").PersLandscapeApprox(start=start, stop=stop, num_steps=n, dgms=d, hom_deg=r.choice([0, 1]) if hom is None else hom,
                                                            compute=compute)


def mk_imager(r):
    I = P("images").PersistenceImager
    kw = {}
    if r.random() < 0.7:
        kw["birth_range"] = (0.0, float(r.randint(2, 8)))
        kw["pers_range"] = (0.0, float(r.randint(2, 8)))
        kw["pixel_size"] = r.choice([0.5, 1.0, 0.7])
    if r.random() < 0.5:
        kw["kernel_params"] = {"sigma": r.choice([1.0, 0.5, [[1.0, 0.0], [0.0, 1.0]], [[1.0, 0.3], [0.3, 2.0]]])}
    if r.random() < 0.3:
        kw["weight"] = "linear_ramp"
        kw["weight_params"] = {"low": 0.0, "high": 1.0, "start": 0.0, "end": 3.0}
    if r.random() < 0.2:
        kw["kernel"] = "uniform"
        kw["kernel_params"] = {"width": 1.0, "height": 2.0}
    return I(**kw)


def new_ax(projection=None):
    import matplotlib
    matplotlib.use("Agg")
    import matplotlib.pyplot as plt
    fig = plt.figure()
    return fig.add_subplot(projection=projection) if projection else fig.add_subplot()


def given_ax(r):
    """the axes handed to a plotting function as `ax=`: in half of the cases it is NOT pyplot's current axes (another figure
    was opened after it, as in `fig, (left, right) = plt.subplots(1, 2)` or after any other plotting call)"""
    ax = new_ax()
    if r.random() < 0.5:
        new_ax()
    return ax


# ----------------------------------------------------------------------------------------------- what a plotting call drew

def _is_axes(o):
    return type(o).__module__.startswith("matplotlib") and hasattr(o, "lines") and hasattr(o, "collections") and hasattr(o, "figure")


def _axes_given(c):
    out = []
    for a in list(c.args) + [v for k, v in sorted(c.kwargs.items())]:
        for x in (a if isinstance(a, (list, tuple)) else [a]):
            if _is_axes(x) and not any(x is y for y in out):
                out.append(x)
    return out


_ARTIST_LISTS = ("lines", "collections", "images", "texts", "patches")


def _fingerprint(kind, art):
    """the DATA of one artist (no colours, sizes or styles: those follow matplotlib's cycles and the figure size)"""
    def arr(x):
        try:
            a = np.ma.filled(np.ma.asarray(x, dtype=float), np.nan)
            return [list(a.shape), a.ravel().tolist()]
        except Exception:
            return repr(type(x))
    try:
        if kind == "lines":
            return ["line", arr(art.get_data_3d()) if hasattr(art, "get_data_3d") else arr(art.get_xydata())]
        if kind == "collections":
            segs = art.get_segments() if hasattr(art, "get_segments") else []
            vec = getattr(art, "_vec", None)                      # Poly3DCollection: the polygons' vertices
            return ["collection", type(art).__name__, arr(art.get_offsets()), [arr(sg) for sg in segs][:200],
                    arr(vec) if vec is not None else None, arr(art.get_array()) if art.get_array() is not None else None]
        if kind == "images":
            return ["image", arr(art.get_array())]
        if kind == "texts":
            return ["text", art.get_text(), arr(art.get_position())]
        if kind == "patches":
            return ["patch", type(art).__name__, arr(art.get_path().vertices)]
    except Exception as e:
        return [kind, "unreadable:" + type(e).__name__]
    return [kind]


def _open_axes():
    import matplotlib.pyplot as plt
    out = []
    for n in plt.get_fignums():
        out += list(plt.figure(n).axes)
    return out


class Drawing:
    """artists per axes before a plotting call, so that what the call ADDED can be read off afterwards"""

    def __init__(self, c):
        import matplotlib.pyplot as plt
        self.given = _axes_given(c)
        self.before = {}
        self.figs = set(plt.get_fignums())
        for ax in self.given + _open_axes():
            self.before.setdefault(id(ax), (ax, {k: len(getattr(ax, k)) for k in _ARTIST_LISTS}))

    def delta(self):
        """{"given": [...], "elsewhere": [...]}: the data of the artists added to the axes the call was handed / to any other axes
        (pre-existing ones and those of figures the call opened); labels and titles of the given axes"""
        out = {"given": [], "elsewhere": []}
        seen = set()
        for ax in self.given + _open_axes():
            if id(ax) in seen:
                continue
            seen.add(id(ax))
            n0 = self.before.get(id(ax), (ax, {}))[1]
            new = []
            for k in _ARTIST_LISTS:
                for art in list(getattr(ax, k))[n0.get(k, 0):]:
                    new.append(_fingerprint(k, art))
            given = any(ax is g for g in self.given)
            if given:
                idx = [i for i, g in enumerate(self.given) if g is ax][0]
                out["given"].append([idx, new, ax.get_title(), ax.get_xlabel(), ax.get_ylabel()])
            else:
                out["elsewhere"] += new
        out["elsewhere"] = sorted(out["elsewhere"], key=repr)
        out["explicit_axes"] = bool(self.given)
        return out


# --- distances, kernels, entropy
@case("bottleneck.bottleneck")
def _(r):
    return Case(P("bottleneck").bottleneck, [g_dgm(r, inf=True, integer=True), g_dgm(r, inf=True, integer=True)],
                {"matching": r.random() < 0.5}, dgm_args=(0, 1))


@case("wasserstein.wasserstein")
def _(r):
    return Case(P("wasserstein").wasserstein, [g_dgm(r, inf=True, integer=True), g_dgm(r, inf=True, integer=True)],
                {"matching": r.random() < 0.5}, dgm_args=(0, 1))


@case("heat.heat")
def _(r):
    return Case(P("heat").heat, [g_dgm(r, integer=True), g_dgm(r, integer=True)], {"sigma": r.choice([0.4, 1.0])}, dgm_args=(0, 1))


@case("heat.evalHeatKernel")
def _(r):
    return Case(P("heat").evalHeatKernel, [g_dgm(r, integer=True), g_dgm(r, integer=True), r.choice([0.4, 1.0])], dgm_args=(0, 1))


@case("sliced_wasserstein.sliced_wasserstein")
def _(r):
    return Case(P("sliced_wasserstein").sliced_wasserstein, [g_dgm(r, integer=True), g_dgm(r, integer=True)], {"M": r.choice([5, 10])},
                dgm_args=(0, 1))


@case("persistent_entropy.persistent_entropy")
def _(r):
    pe = P("persistent_entropy").persistent_entropy
    if r.random() < 0.5:
        return Case(pe, [g_dgm(r, 2, integer=True, inf=True)], {"normalize": r.random() < 0.5}, dgm_args=(0,))
    integer = r.random() < 0.5
    return Case(pe, [[g_dgm(r, 2, integer=integer, inf=True), g_dgm(r, 2, integer=integer)]], {"keep_inf": True, "val_inf": 20.0}, dgm_args=(0,))


@case("images_kernels.uniform")
def _(r):
    return Case(P("images_kernels").uniform, [np.linspace(0, 3, 7), np.linspace(0, 2, 7)], {"mu": np.array([1.0, 0.5]), "width": 1.0, "height": 2.0})


@case("images_kernels.gaussian")
def _(r):
    sig = r.choice([np.array([[1.0, 0.0], [0.0, 2.0]]), np.array([[1.0, 0.5], [0.5, 2.0]]), [[1.0, 0.95], [0.95, 1.0]]])
    return Case(P("images_kernels").gaussian, [np.linspace(-1, 3, 9), np.linspace(0, 2, 9)], {"mu": np.array([1.0, 0.5]), "sigma": sig})


@case("images_kernels.norm_cdf")
def _(r):
    return Case(P("images_kernels").norm_cdf, [np.linspace(-3, 3, 11)])


@case("images_kernels.sbvn_cdf")
def _(r):
    return Case(P("images_kernels").sbvn_cdf, [np.linspace(-3, 3, 11), np.linspace(-1, 1, 11)], {"mu_x": 0.5, "sigma_y": 2.0})


@case("images_kernels.bvn_cdf")
def _(r):
    return Case(P("images_kernels").bvn_cdf, [np.linspace(-3, 3, 11), np.linspace(-1, 1, 11)],
                {"sigma_xy": r.choice([0.0, 0.5, -0.5, 0.95, -0.97]), "sigma_xx": 1.0, "sigma_yy": 1.0})


@case("images_kernels.gauss_legendre_quad")
def _(r):
    return Case(P("images_kernels").gauss_legendre_quad, [r.choice([0.1, 0.5, 0.9, -0.8])])


@case("images_weights.linear_ramp")
def _(r):
    b = np.linspace(0, 3, 6)
    return Case(P("images_weights").linear_ramp, [b, b[::-1].copy()], {"low": 0.0, "high": 2.0, "start": 0.5, "end": 2.0})


@case("images_weights.persistence")
def _(r):
    return Case(P("images_weights").persistence, [np.linspace(0, 3, 6), np.linspace(0, 2, 6)], {"n": r.choice([1.0, 2.0])})


# --- imagers
@case("images.PersImage.__init__")
def _(r):
    C = P("images").PersImage
    def make(pixels, specs):
        with warnings.catch_warnings():
            warnings.simplefilter("ignore")
            o = C(pixels=pixels, spread=1.0, specs=specs, verbose=False)
        return vars(o)
    return Case(make, [(r.randint(3, 6), r.randint(3, 6)), {"maxBD": 8.0, "minBD": 0.0}])


def mk_persimage(r, specs=True):
    with warnings.catch_warnings():
        warnings.simplefilter("ignore")
        return P("images").PersImage(pixels=(5, 5), spread=1.0, specs={"maxBD": 8.0, "minBD": 0.0} if specs else None, verbose=False)


@case("images.PersImage.transform")
def _(r):
    C = P("images").PersImage
    if r.random() < 0.5:
        return Case(C.transform, [mk_persimage(r, r.random() < 0.5), g_dgm(r, integer=True)], dgm_args=(1,))
    integer = r.random() < 0.5
    return Case(C.transform, [mk_persimage(r), [g_dgm(r, integer=integer), g_dgm(r, integer=integer)]], dgm_args=(1,))


@case("images.PersImage.weighting")
def _(r):
    return Case(lambda o, l: o.weighting(l)(np.array([1.0, 2.0])), [mk_persimage(r), g_dgm(r, 2)])


@case("images.PersImage.kernel")
def _(r):
    return Case(lambda o, data, pix: o.kernel(2.0)(data, pix), [mk_persimage(r), np.array([[0.0, 1.0], [1.0, 1.0]]), np.array([0.5, 0.5])])


@case("images.PersImage.to_landscape")
def _(r):
    return Case(P("images").PersImage.to_landscape, [g_dgm(r, 2)])


@case("images.PersImage.show")
def _(r):
    o = mk_persimage(r)
    img = o.transform(g_dgm(r, 2))
    return Case(lambda o, imgs, ax: o.show(imgs, ax=ax), [o, img if r.random() < 0.5 else [img, img], given_ax(r)], plot=True)


@case("images.PersistenceImager.__init__")
def _(r):
    I = P("images").PersistenceImager
    def make(br, pr, ps, wp, kp):
        o = I(birth_range=br, pers_range=pr, pixel_size=ps, weight_params=wp, kernel_params=kp)
        return {k: v for k, v in vars(o).items()}
    return Case(make, [(0.0, float(r.randint(2, 6))), (0.0, 3.0), r.choice([0.5, 0.7]), {"n": 2.0}, {"sigma": [[1.0, 0.0], [0.0, 1.0]]}])


for _prop in ("width", "height", "resolution", "pixel_size", "birth_range", "pers_range"):
    def _mk(prop):
        def b(r):
            return Case(lambda o: getattr(o, prop), [mk_imager(r)])
        return b
    BUILDERS["images.PersistenceImager.%s.get" % _prop] = _mk(_prop)


def _setter(prop, values):
    def b(r):
        def f(o, v):
            setattr(o, prop, v)
            return {k: x for k, x in vars(o).items()}
        return Case(f, [mk_imager(r), r.choice(values)], updates_self=True)
    return b


BUILDERS["images.PersistenceImager.pixel_size.set"] = _setter("pixel_size", [0.25, 0.3, 1.0])
BUILDERS["images.PersistenceImager.birth_range.set"] = _setter("birth_range", [(0.0, 2.0), (-1.0, 3.7)])
BUILDERS["images.PersistenceImager.pers_range.set"] = _setter("pers_range", [(0.0, 2.0), (0.5, 3.7)])


@case("images.PersistenceImager.__repr__")
def _(r):
    return Case(repr, [mk_imager(r)])


def _imager_input(r):
    """one diagram, or a list of diagrams (both are documented inputs of fit / transform / fit_transform)"""
    if r.random() < 0.5:
        return g_dgm(r, 2, integer=True)
    integer = r.random() < 0.5
    return [g_dgm(r, 2, integer=integer), g_dgm(r, 2, integer=integer)]


@case("images.PersistenceImager.fit")
def _(r):
    def f(o, d, skew):
        o.fit(d, skew=skew)
        return {k: x for k, x in vars(o).items()}
    d = _imager_input(r)
    return Case(f, [mk_imager(r), d, r.random() < 0.7], dgm_args=(1,))


@case("images.PersistenceImager.transform")
def _(r):
    I = P("images").PersistenceImager
    d = _imager_input(r)
    return Case(I.transform, [mk_imager(r), d], {"skew": r.random() < 0.7, "n_jobs": r.choice([None, None, 1])}, dgm_args=(1,))


@case("images.PersistenceImager.fit_transform")
def _(r):
    I = P("images").PersistenceImager
    d = _imager_input(r)
    return Case(I.fit_transform, [mk_imager(r), d], {"skew": r.random() < 0.7}, dgm_args=(1,))


@case("images.PersistenceImager.plot_diagram")
def _(r):
    return Case(lambda o, d, skew, ax: o.plot_diagram(d, skew=skew, ax=ax), [mk_imager(r), g_dgm(r, 2, integer=True), r.random() < 0.5, given_ax(r)],
                dgm_args=(1,), plot=True)


@case("images.PersistenceImager.plot_image")
def _(r):
    o = mk_imager(r)
    return Case(lambda o, img, ax: o.plot_image(img, ax=ax), [o, o.transform(g_dgm(r, 2)), given_ax(r)], plot=True)


@case("images._transform")
def _(r):
    o = mk_imager(r)
    return Case(P("images")._transform, [g_dgm(r, 2, integer=True)],
                dict(skew=r.random() < 0.7, resolution=o.resolution, weight=o.weight, weight_params=o.weight_params, kernel=o.kernel,
                     kernel_params=o.kernel_params, _bpnts=o._bpnts, _ppnts=o._ppnts), dgm_args=(0,))


# --- modified Gromov–Hausdorff
GH = "gromov_hausdorff."


@case(GH + "gromov_hausdorff")
def _(r):
    f = P("gromov_hausdorff").gromov_hausdorff
    form = r.choice(["dense", "list", "sparse", "many"])
    A, B = g_graph(r), g_graph(r)
    if form == "many":
        return Case(f, [[A, B, g_graph(r)]], seeded=True)
    if form == "list":
        A, B = A.tolist(), B.tolist()
    if form == "sparse":
        import scipy.sparse as sps
        A, B = sps.coo_matrix(A), sps.csr_matrix(B)
        if r.random() < 0.5:
            # an explicitly STORED zero in the CSR matrix (a non-edge written as 0: what `B[i, j] = 0` leaves behind);
            # persim's documented limit is that it counts as an edge - whatever it does with it, the caller's matrix stays as it is
            Bd = np.array(B.toarray())
            zi = [(i, j) for i in range(len(Bd)) for j in range(len(Bd)) if i != j and Bd[i, j] == 0]
            if zi:
                i, j = r.choice(zi)
                rows, cols = np.nonzero(Bd)
                B = sps.csr_matrix((np.append(Bd[rows, cols], 0), (np.append(rows, i), np.append(cols, j))), shape=Bd.shape)
    return Case(f, [A, B], seeded=True)


@case(GH + "make_distance_matrix_from_adjacency_matrix")
def _(r):
    A = g_graph(r)
    if r.random() < 0.3:
        A = A.tolist()
    return Case(P("gromov_hausdorff").make_distance_matrix_from_adjacency_matrix, [A])


@case(GH + "cast_distance_matrix_to_optimal_int_type")
def _(r):
    return Case(P("gromov_hausdorff").cast_distance_matrix_to_optimal_int_type, [g_dist(r).astype(float)])


@case(GH + "determine_optimal_int_type")
def _(r):
    return Case(P("gromov_hausdorff").determine_optimal_int_type, [r.choice([3, 200, 70000])])


@case(GH + "estimate")
def _(r):
    return Case(P("gromov_hausdorff").estimate, [g_dist(r), g_dist(r)], seeded=True)


@case(GH + "find_lb")
def _(r):
    return Case(P("gromov_hausdorff").find_lb, [g_dist(r), g_dist(r)])


@case(GH + "find_largest_size_bounded_curvature")
def _(r):
    D = g_dist(r)
    return Case(P("gromov_hausdorff").find_largest_size_bounded_curvature, [D, np.max(D), max(1, int(np.max(D)) - r.randint(0, 1))])


def _confirm_args(r):
    m = P("gromov_hausdorff")
    DX, DY = g_dist(r), g_dist(r)
    dX, dY = np.max(DX), np.max(DY)
    d = max(1, int(dX))
    K = m.find_largest_size_bounded_curvature(DX, dX, d)
    return [d, K, DY, max(dX, dY)]


@case(GH + "confirm_lb_using_bounded_curvature")
def _(r):
    return Case(P("gromov_hausdorff").confirm_lb_using_bounded_curvature, _confirm_args(r))


@case(GH + "confirm_lb_using_bounded_curvature_row")
def _(r):
    return Case(P("gromov_hausdorff").confirm_lb_using_bounded_curvature_row, _confirm_args(r))


@case(GH + "represent_distance_matrix_rows_as_distributions")
def _(r):
    D = g_dist(r)
    return Case(P("gromov_hausdorff").represent_distance_matrix_rows_as_distributions, [D, np.max(D)])


@case(GH + "find_unique_max_distributions")
def _(r):
    m = P("gromov_hausdorff")
    D = g_dist(r)
    return Case(m.find_unique_max_distributions, [m.represent_distance_matrix_rows_as_distributions(D, np.max(D))])


@case(GH + "check_assignment_feasibility")
def _(r):
    m = P("gromov_hausdorff")
    D1, D2 = g_dist(r), g_dist(r)
    md = max(np.max(D1), np.max(D2))
    v = m.represent_distance_matrix_rows_as_distributions(D1, md)[r.randint(0, len(D1) - 1)].copy()
    u = m.represent_distance_matrix_rows_as_distributions(D2, md)[r.randint(0, len(D2) - 1)].copy()
    return Case(m.check_assignment_feasibility, [v, u, r.randint(1, 3)])


@case(GH + "find_ub")
def _(r):
    return Case(P("gromov_hausdorff").find_ub, [g_dist(r), g_dist(r)], {"double_lb": r.randint(0, 1)}, seeded=True)


@case(GH + "find_ub_of_min_distortion")
def _(r):
    return Case(P("gromov_hausdorff").find_ub_of_min_distortion, [g_dist(r), g_dist(r)], {"goal_distortion": r.randint(0, 1)}, seeded=True)


@case(GH + "construct_mapping")
def _(r):
    D = g_dist(r)
    pi = list(range(len(D)))
    r.shuffle(pi)
    return Case(P("gromov_hausdorff").construct_mapping, [D, g_dist(r), np.array(pi)], seeded=True)


# --- landscapes
LA, LE, LB, LX, LT, LR, LV = ("landscapes.approximate.PersLandscapeApprox.", "landscapes.exact.PersLandscapeExact.",
                              "landscapes.base.PersLandscape.", "landscapes.auxiliary.", "landscapes.tools.",
                              "landscapes.transformer.PersistenceLandscaper.", "landscapes.visuals.")


def state(o):
    return {k: v for k, v in vars(o).items()}


@case(LE + "__init__")
def _(r):
    C = P("landscapes.exact").PersLandscapeExact
    if r.random() < 0.7:
        d = g_dgms(r, True)
        if r.random() < 0.5:                       # nested lists, the last bar infinite (compute_landscape pops it)
            d = [x[np.argsort(x[:, 0], kind="stable")].tolist() for x in d]
            for x in d:
                if r.random() < 0.5:
                    x.append([x[-1][0] + 1.0, np.inf])
        h = r.choice([0, 1])
        if r.random() < 0.2:                       # the selected degree holds only the essential class (H0 of a connected cloud)
            d[h] = [[float(r.randint(0, 3)), np.inf]] if isinstance(d[h], list) else np.array([[float(r.randint(0, 3)), np.inf]])
        return Case(lambda d, h, c: state(C(dgms=d, hom_deg=h, compute=c)), [d, h, r.random() < 0.7],
                    dgm_args=(0,) if all(isinstance(x, np.ndarray) for x in d) else ())
    cp = mk_exact(r).critical_pairs
    return Case(lambda cp, h: state(C(critical_pairs=cp, hom_deg=h)), [cp, 0])


@case(LA + "__init__")
def _(r):
    C = P("landscapes.approximate").PersLandscapeApprox
    if r.random() < 0.7:
        d = [np.clip(g_dgm(r, 2), 0, 12), np.clip(g_dgm(r, 2), 0, 12)]
        integer = r.random() < 0.5
        if integer:
            d = [np.clip(g_dgm(r, 2, integer=True), 0, 12), np.clip(g_dgm(r, 2, integer=True), 0, 12)]
        return Case(lambda d, h, c: state(C(start=0.0, stop=12.0, num_steps=25, dgms=d, hom_deg=h, compute=c)), [d, r.choice([0, 1]), r.random() < 0.7],
                    dgm_args=(0,) if integer else ())
    v = mk_approx(r).values
    return Case(lambda v: state(C(start=0.0, stop=12.0, num_steps=v.shape[1], values=v)), [v])


@case(LB + "__init__")
def _(r):
    B = P("landscapes.base").PersLandscape
    def f(o, d, h):
        B.__init__(o, dgms=d, hom_deg=h)
        return state(o)
    return Case(f, [mk_exact(r), g_dgms(r), 1])


for _cls, _mk in ((LE, mk_exact), (LA, mk_approx)):
    def _reg(prefix, mk):
        BUILDERS[prefix + "__repr__"] = lambda r: Case(repr, [mk(r)])
        BUILDERS[prefix + "__neg__"] = lambda r: Case(lambda a: -a, [mk(r)])
        BUILDERS[prefix + "__add__"] = lambda r: Case(lambda a, b: a + b, [mk(r, hom=0), mk(r, hom=0)])
        BUILDERS[prefix + "__sub__"] = lambda r: Case(lambda a, b: a - b, [mk(r, hom=1), mk(r, hom=1)])
        BUILDERS[prefix + "__mul__"] = lambda r: Case(lambda a, c: a * c, [mk(r), r.choice([2.0, -0.5, 3])])
        BUILDERS[prefix + "__rmul__"] = lambda r: Case(lambda a, c: c * a, [mk(r), r.choice([2.0, -0.5, 3])])
        BUILDERS[prefix + "__truediv__"] = lambda r: Case(lambda a, c: a / c, [mk(r), r.choice([2.0, -0.5, 4])])
        BUILDERS[prefix + "__getitem__"] = lambda r: Case(lambda a, k: a[k], [mk(r), r.choice([0, slice(0, 2), slice(None)])])
        BUILDERS[prefix + "p_norm"] = lambda r: Case(lambda a, p: a.p_norm(p=p), [mk(r), r.choice([1, 2, 3])])
        BUILDERS[prefix + "sup_norm"] = lambda r: Case(lambda a: a.sup_norm(), [mk(r)])
    _reg(_cls, _mk)


def _same_grid_pair(r):
    g = (0.0, 12.0, r.choice([13, 25]))
    return [mk_approx(r, g, hom=0), mk_approx(r, g, hom=0)]


BUILDERS[LA + "__add__"] = lambda r: Case(lambda a, b: a + b, _same_grid_pair(r))
BUILDERS[LA + "__sub__"] = lambda r: Case(lambda a, b: a - b, _same_grid_pair(r))


@case(LE + "compute_landscape")
def _(r):
    def f(o):
        o.compute_landscape()
        return state(o)
    return Case(f, [mk_exact_lazy(r)])


@case(LE + "compute_landscape_by_depth")
def _(r):
    return Case(lambda o, d: o.compute_landscape_by_depth(d), [mk_exact(r), 0])


@case(LA + "compute_landscape")
def _(r):
    def f(o):
        o.compute_landscape()
        return state(o)
    return Case(f, [mk_approx(r, compute=False)])


@case(LA + "values_to_pairs")
def _(r):
    return Case(lambda o: o.values_to_pairs(), [mk_approx(r)])


@case(LB + "p_norm")
def _(r):
    B = P("landscapes.base").PersLandscape
    return Case(lambda o, p: B.p_norm(o, p), [mk_exact_lazy(r), r.choice([2, -1])])


@case(LB + "sup_norm", LB + "__neg__")
def _(r):
    B = P("landscapes.base").PersLandscape
    return Case(lambda o: (B.sup_norm(o), B.__neg__(o)), [mk_exact(r)])


@case(LB + "__add__", LB + "__sub__")
def _(r):
    B = P("landscapes.base").PersLandscape
    a = mk_exact(r)
    b = mk_exact(r)
    b.hom_deg = a.hom_deg
    return Case(lambda a, b: (B.__add__(a, b), B.__sub__(a, b)), [a, b])


@case(LB + "__mul__", LB + "__truediv__")
def _(r):
    B = P("landscapes.base").PersLandscape
    return Case(lambda a, c: (B.__mul__(a, c), B.__truediv__(a, c)), [mk_exact(r), 2.0])


@case(LX + "union_vals")
def _(r):
    return Case(P("landscapes.auxiliary").union_vals, [np.arange(6.0).reshape(2, 3), np.arange(12.0).reshape(4, 3)][:: r.choice([1, -1])])


@case(LX + "union_crit_pairs")
def _(r):
    a, b = mk_exact(r), (mk_exact(r) if r.random() < 0.5 else mk_exact_lazy(r))
    return Case(P("landscapes.auxiliary").union_crit_pairs, [a, b])


def _cp(r):
    return copy.deepcopy(mk_exact(r, True).critical_pairs[0])


@case(LX + "pos_to_slope_interp")
def _(r):
    return Case(P("landscapes.auxiliary").pos_to_slope_interp, [_cp(r)])


@case(LX + "slope_to_pos_interp")
def _(r):
    m = P("landscapes.auxiliary")
    return Case(m.slope_to_pos_interp, [m.pos_to_slope_interp(_cp(r))])


@case(LX + "sum_slopes")
def _(r):
    m = P("landscapes.auxiliary")
    return Case(m.sum_slopes, [m.pos_to_slope_interp(_cp(r)), m.pos_to_slope_interp(_cp(r))])


@case(LX + "ndsnap_regular")
def _(r):
    g = np.linspace(0, 12, 13)
    return Case(P("landscapes.auxiliary").ndsnap_regular, [np.clip(g_dgm(r, 2, integer=r.random() < 0.5), 0, 12), g, g.copy()], dgm_args=(0,))


@case(LX + "_p_norm")
def _(r):
    return Case(P("landscapes.auxiliary")._p_norm, [r.choice([1, 2, 3]), copy.deepcopy(mk_exact(r, True).critical_pairs)])


@case(LT + "death_vector")
def _(r):
    return Case(P("landscapes.tools").death_vector, [g_dgms(r, True)], {"hom_deg": 0}, dgm_args=(0,))


def _pls(r):
    return [mk_approx(r, (0.0, 12.0, 13), hom=1), mk_approx(r, (1.0, 11.0, 25), hom=1), mk_approx(r, (0.0, 12.0, 13), hom=1)][: r.randint(2, 3)]


@case(LT + "snap_pl")
def _(r):
    kw = {} if r.random() < 0.5 else {"start": 0.0, "stop": 12.0, "num_steps": 25}
    return Case(P("landscapes.tools").snap_pl, [_pls(r)], kw)


@case(LT + "lc_approx")
def _(r):
    pls = _pls(r)
    return Case(P("landscapes.tools").lc_approx, [pls, [r.choice([1.0, 0.5, -2.0]) for _ in pls]])


@case(LT + "average_approx")
def _(r):
    return Case(P("landscapes.tools").average_approx, [_pls(r)])


@case(LT + "vectorize")
def _(r):
    return Case(P("landscapes.tools").vectorize, [mk_exact(r) if r.random() < 0.6 else mk_exact_lazy(r)], {"num_steps": r.choice([10, 33])})


def mk_landscaper(r):
    kw = {"hom_deg": r.choice([0, 1]), "num_steps": r.choice([13, 25]), "flatten": r.random() < 0.5}
    if r.random() < 0.5:
        kw.update(start=0.0, stop=12.0)
    return P("landscapes.transformer").PersistenceLandscaper(**kw)


@case(LR + "__init__")
def _(r):
    C = P("landscapes.transformer").PersistenceLandscaper
    return Case(lambda h, s, t, n, f: state(C(hom_deg=h, start=s, stop=t, num_steps=n, flatten=f)), [1, r.choice([None, 0.0]), r.choice([None, 9.0]), 20, True])


for _prop in ("start", "stop"):
    def _mkp(prop):
        def g(r):
            return Case(lambda o: getattr(o, prop), [mk_landscaper(r)])
        def s(r):
            def f(o, v):
                setattr(o, prop, v)
                return state(o)
            return Case(f, [mk_landscaper(r), r.choice([None, 1.5, 7.0])])
        return g, s
    BUILDERS[LR + _prop + ".get"], BUILDERS[LR + _prop + ".set"] = _mkp(_prop)


@case(LR + "__repr__")
def _(r):
    return Case(repr, [mk_landscaper(r)])


def _clipped(r):
    integer = r.random() < 0.5
    return [np.clip(g_dgm(r, 2, integer=integer), 0, 12), np.clip(g_dgm(r, 2, integer=integer), 0, 12)]


@case(LR + "fit")
def _(r):
    def f(o, X):
        o.fit(X)
        return state(o)
    return Case(f, [mk_landscaper(r), _clipped(r)], dgm_args=(1,))


@case(LR + "transform")
def _(r):
    o = mk_landscaper(r)
    X = _clipped(r)
    if r.random() < 0.75:
        o.fit(X)
        return Case(lambda o, X: o.transform(X), [o, X], dgm_args=(1,))
    # a never-fitted transformer (the grid, where not given, comes from the transformed diagram itself): transform is a
    # query here too, so the object must look the same afterwards and a second data set must not see the first one's grid
    Y = _clipped(r)
    mk = lambda: P("landscapes.transformer").PersistenceLandscaper(**o.get_params())

    def f(o, X, Y):
        a = o.transform(X)
        return a, o.transform(Y), mk().transform(Y)

    def chk(res):
        return None if same(res[1], res[2]) else "transform(Y) after transform(X) on a never-fitted transformer differs from transform(Y) on a fresh one"
    return Case(f, [o, X, Y], dgm_args=(1,), check=chk)


@case(LR + "get_params")
def _(r):
    o = mk_landscaper(r)
    if r.random() < 0.5:
        o.fit(_clipped(r))
    return Case(lambda o, deep: o.get_params(deep=deep), [o, r.random() < 0.5])


# --- public methods INHERITED from scikit-learn's mixins (no persim source, hence no IR program: dynamic sweep only)
INHERITED = ["images.PersImage.fit_transform", LR + "fit_transform", LR + "set_params"]


@case("images.PersImage.fit_transform")
def _(r):
    # TransformerMixin.fit_transform calls self.fit, which PersImage does not define: the call raises, every time
    return Case(lambda o, d: o.fit_transform(d), [mk_persimage(r), g_dgm(r, integer=True)], dgm_args=(1,))


@case(LR + "fit_transform")
def _(r):
    def f(o, X):
        v = o.fit_transform(X)
        return v, state(o)
    return Case(f, [mk_landscaper(r), _clipped(r)], dgm_args=(1,))


@case(LR + "set_params")
def _(r):
    def f(o, kw):
        o.set_params(**kw)
        return state(o), o.get_params()
    kw = r.choice([{"num_steps": 17}, {"hom_deg": 1, "flatten": True}, {"start": 1.0, "stop": 9.0}, {}])
    return Case(f, [mk_landscaper(r), kw], updates_self=True)


def _plot_kw(r):
    return {"num_steps": r.choice([8, 15]), "title": r.choice([None, "t"]), "depth_range": r.choice([None, range(0, 2)])}


@case(LV + "plot_landscape")
def _(r):
    return Case(P("landscapes.visuals").plot_landscape, [mk_exact(r) if r.random() < 0.5 else mk_approx(r)], _plot_kw(r), plot=True)


@case(LV + "plot_landscape_simple")
def _(r):
    kw = _plot_kw(r)
    kw["ax"] = given_ax(r)
    return Case(P("landscapes.visuals").plot_landscape_simple, [mk_exact(r) if r.random() < 0.5 else mk_approx(r)], kw, plot=True)


@case(LV + "plot_landscape_exact")
def _(r):
    return Case(P("landscapes.visuals").plot_landscape_exact, [mk_exact(r) if r.random() < 0.7 else mk_exact_lazy(r)], _plot_kw(r), plot=True)


@case(LV + "plot_landscape_approx")
def _(r):
    return Case(P("landscapes.visuals").plot_landscape_approx, [mk_approx(r)], _plot_kw(r), plot=True)


@case(LV + "plot_landscape_exact_simple")
def _(r):
    kw = _plot_kw(r)
    kw.pop("num_steps")
    kw["ax"] = given_ax(r)
    return Case(P("landscapes.visuals").plot_landscape_exact_simple, [mk_exact(r)], kw, plot=True)


@case(LV + "plot_landscape_approx_simple")
def _(r):
    kw = _plot_kw(r)
    kw["ax"] = given_ax(r)
    return Case(P("landscapes.visuals").plot_landscape_approx_simple, [mk_approx(r)], kw, plot=True)


# --- diagram plots
@case("visuals.plot_diagrams")
def _(r):
    d = [g_dgm(r, 2, inf=True), g_dgm(r, 2)] if r.random() < 0.6 else g_dgm(r, 2, inf=True)
    if r.random() < 0.3:
        d = [x.astype(np.float32) for x in d] if isinstance(d, list) else d.astype(np.float32)
    kw = {"ax": given_ax(r), "lifetime": r.random() < 0.4, "legend": r.random() < 0.5}
    if isinstance(d, list) and r.random() < 0.3:
        kw["plot_only"] = [1]
    if r.random() < 0.3:
        kw["labels"] = ["a", "b"] if isinstance(d, list) else "a"
    return Case(P("visuals").plot_diagrams, [d], kw, plot=True)


@case("visuals.plot_a_bar")
def _(r):
    new_ax()
    return Case(P("visuals").plot_a_bar, [np.array([0.0, 1.0]), [2.0, 3.0]], plot=True)


def _matching_case(r, which):
    integer = r.random() < 0.5
    d1, d2 = g_dgm(r, 2, integer=integer), g_dgm(r, 2, integer=integer)
    dist = P("bottleneck").bottleneck if which == "bottleneck" else P("wasserstein").wasserstein
    _, m = dist(d1, d2, matching=True)
    f = getattr(P("visuals"), which + "_matching")
    return Case(f, [d1, d2, m], {"ax": given_ax(r), "labels": ["x", "y"]}, dgm_args=(0, 1), plot=True)


BUILDERS["visuals.bottleneck_matching"] = lambda r: _matching_case(r, "bottleneck")
BUILDERS["visuals.wasserstein_matching"] = lambda r: _matching_case(r, "wasserstein")


# ----------------------------------------------------------------------------------------------- the sweep

def _call(c, seed):
    import matplotlib.pyplot as plt
    if c.seeded:
        np.random.seed(seed % (2 ** 31))
    with warnings.catch_warnings(), contextlib.redirect_stdout(io.StringIO()):
        warnings.simplefilter("ignore")
        with np.errstate(all="ignore"):
            try:
                before = Drawing(c) if c.plot else None
                v = c.fn(*c.args, **c.kwargs)
                if c.plot:
                    v = before.delta()         # the "result" of a plotting call is what it drew (plain data), and where
                else:
                    # freeze what was returned NOW: a result that aliases state a later call modifies (a mutable
                    # default argument, a cache) must not be compared with its own later self
                    try:
                        v = copy.deepcopy(v)
                    except Exception:
                        pass
                return ("ok", v)
            except Exception as e:            # the code's own errors are part of its behaviour: they must repeat, too
                return ("err", type(e).__name__)
            finally:
                if c.plot and len(plt.get_fignums()) > 6:
                    plt.close("all")


def _build(name, seed):
    with warnings.catch_warnings(), contextlib.redirect_stdout(io.StringIO()):
        warnings.simplefilter("ignore")
        with np.errstate(all="ignore"):
            return BUILDERS[name](random.Random(seed))


# integer arrays of every width (float32 arrays are NOT included: computing in single precision legitimately
# changes results at the 1e-7 level, and the property speaks of equal-valued list / integer / floating-point forms)
NARROW_FORMS = {"uint8": np.uint8, "int8": np.int8, "int16": np.int16, "int32": np.int32}


def _as_form(a, form):
    if isinstance(a, list) and a and all(isinstance(x, np.ndarray) for x in a):
        return [_as_form(x, form) for x in a]             # a list of diagrams (one per homological degree)
    if form == "list":
        return np.asarray(a).tolist()
    if form == "int":
        return np.asarray(a).astype(np.int64)
    if form in NARROW_FORMS:
        return np.asarray(a).astype(NARROW_FORMS[form])
    return np.asarray(a, dtype=float)


def _has_inf(a):
    if isinstance(a, list) and a and all(isinstance(x, np.ndarray) for x in a):
        return any(_has_inf(x) for x in a)
    return bool(np.any(np.isinf(np.asarray(a, dtype=float))))


def _fits(a, form):
    """the values survive the conversion exactly (so every representation denotes the same diagram)"""
    if isinstance(a, list) and a and all(isinstance(x, np.ndarray) for x in a):
        return all(_fits(x, form) for x in a)
    f = np.asarray(a, dtype=float)
    if not np.all(np.isfinite(f)):
        return False
    with np.errstate(all="ignore"):
        return bool(np.array_equal(f.astype(NARROW_FORMS.get(form, np.int64)).astype(float), f))


# Known, documented limits of the forms a function accepts ON THE UNCHANGED TREE: (entry, "list" | "integer") -> the exception
# classes it raises for that form while the float-array form works.  Anything outside this list is reported as a
# correspondence break (a regression that stops accepting nested lists or integer arrays is noticed), never as a failing input:
# the property speaks of the forms the function accepts.
FORMS_NOT_ACCEPTED = {
    # built from the `form_not_accepted:*` counters of seeds 0-7 on the unchanged tree (every integer form is accepted everywhere)
    ("landscapes.approximate.PersLandscapeApprox.__init__", "list"): {
        "raises": ["AxisError"], "why": "approximate.py:137 `self.dgms == np.inf` on a nested list is a scalar; np.any(..., axis=1) rejects it"},
    ("landscapes.transformer.PersistenceLandscaper.transform", "list"): {
        "raises": ["AxisError"], "why": "builds PersLandscapeApprox (above); the docstring asks for a list of (-,2) numpy.ndarrays"},
    ("landscapes.transformer.PersistenceLandscaper.fit_transform", "list"): {
        "raises": ["AxisError"], "why": "sklearn's fit(X).transform(X): transform as above (fit alone accepts nested lists)"},
    ("landscapes.auxiliary.ndsnap_regular", "list"): {
        "raises": ["TypeError"], "why": "auxiliary.py:142 `points[:, i]` needs an ndarray"},
    ("landscapes.tools.death_vector", "list"): {
        "raises": ["TypeError"], "why": "tools.py `dgms[hom_deg][:, 1]` needs an ndarray"},
    ("persistent_entropy.persistent_entropy", "list"): {
        "raises": ["IndexError"], "why": "a nested list is read as a LIST OF DIAGRAMS (documented), so a single diagram given as a nested "
                                          "list becomes 1-D 'diagrams' [b, d]; a list of diagrams given as nested lists is accepted"},
    ("sliced_wasserstein.sliced_wasserstein", "list"): {
        "raises": ["AttributeError"], "why": "sliced_wasserstein.py:32 `PD1.shape` needs an ndarray"},
    ("visuals.bottleneck_matching", "list"): {
        "raises": ["AttributeError"], "why": "visuals.py `dgm1.size` needs an ndarray (after plot_diagrams, which also needs `.astype`)"},
    ("visuals.wasserstein_matching", "list"): {
        "raises": ["AttributeError"], "why": "visuals.py `dgm1.size` needs an ndarray"},
}


def _nontrivial(c):
    def big(o, d=0):
        if isinstance(o, np.ndarray):
            return o.size >= 2
        if isinstance(o, (list, tuple)):
            return len(o) >= 2 or any(big(x, d + 1) for x in o) if d < 3 else False
        if _is_instance(o):
            return True
        return False
    return any(big(a) for a in c.args)


def exercise(ctx, name, seed, kind, others=()):
    """all dynamic checks of one case; returns a list of (check, description)"""
    import matplotlib.pyplot as plt
    problems = []
    c = _build(name, seed)
    snaps = [Snap(a) for a in c.args] + [Snap(v) for k, v in sorted(c.kwargs.items())]
    res1 = _call(c, seed)
    ctx.case({"entry": name, "seed": seed}, nontrivial=res1[0] == "ok" and _nontrivial(c), sample_every=211)
    ctx.count("sweep:" + ("ok" if res1[0] == "ok" else "raises:%s:%s" % (res1[1], name)))
    diffs = [d for d in (s.changed("arg%d" % i) for i, s in enumerate(snaps)) if d]
    if c.check is not None and res1[0] == "ok":
        msg = c.check(res1[1])
        ctx.test("query_sequence_independent", msg is None)
        if msg:
            problems.append(("history", "%s: %s" % (name, msg)))
    if kind == "inplace_by_contract":
        ctx.count("inplace_by_contract:%s" % ("argument_converted" if diffs else "argument_bytes_unchanged(birth=0)"))
        plt.close("all")
        return problems
    ctx.test("arguments_unchanged", not diffs)
    if diffs:
        problems.append(("mutation", "%s modified its argument: %s" % (name, diffs[0])))
        c = _build(name, seed)                # continue on unmodified arguments
    # repeat on the same objects
    if not c.updates_self:
        res2 = _call(c, seed)
        ok = res1[0] == res2[0] and same(res1[1], res2[1])
        ctx.test("repeat_identical", ok)
        if not ok:
            problems.append(("repeat", "%s: repeating the call on the same arguments gives a different result" % name))
    if c.plot and res1[0] == "ok" and res1[1]["explicit_axes"]:
        # "no function modifies objects it was not passed": with an explicit ax=, nothing may appear on any other axes
        ok = not res1[1]["elsewhere"]
        ctx.test("plots_draw_only_on_given_axes", ok)
        if not ok:
            problems.append(("stray_artists", "%s was given ax= explicitly and drew %d artist(s) on axes it was not given"
                             % (name, len(res1[1]["elsewhere"]))))
    # interleave calls to other entry points and to the same one on other arguments, then call again
    for oname, oseed in others:
        _call(_build(oname, oseed), oseed)
    _call(_build(name, seed + 1), seed + 1)
    if c.plot:
        new_ax()            # … and "another plotting call" that leaves a different figure current
    if c.updates_self:
        c = _build(name, seed)
    res3 = _call(c, seed)
    ok = res1[0] == res3[0] and same(res1[1], res3[1])
    ctx.test("interleaved_identical", ok)
    if not ok:
        problems.append(("history", "%s: the result changes after calls to %s" % (name, [o for o, _ in others] + [name])))
    # rebuild equal arguments from scratch (fresh objects, fresh instance)
    c4 = _build(name, seed)
    res4 = _call(c4, seed)
    ok = res1[0] == res4[0] and same(res1[1], res4[1])
    ctx.test("fresh_objects_identical", ok)
    if not ok:
        problems.append(("fresh", "%s: equal arguments in fresh objects give a different result" % name))
    if c.seeded:
        ra, rb = _call(_build(name, seed), 12345), _call(_build(name, seed), 12345)
        ok = ra[0] == rb[0] and same(ra[1], rb[1])
        ctx.test("seed_reproducible", ok)
        if not ok:
            problems.append(("seed", "%s is not reproducible under np.random.seed(12345)" % name))
    # representation independence [T only]
    if c.dgm_args and res1[0] == "ok" and not any(p[0] in ("repeat", "history", "fresh") for p in problems):
        # (a call whose result already differs between repeats cannot be compared across forms)
        base = None
        for form in ("float", "int", "list") + tuple(NARROW_FORMS):
            cf = _build(name, seed)
            if form == "int" and any(_has_inf(cf.args[i]) for i in c.dgm_args):
                continue                      # an integer array cannot hold an infinite death
            if form not in ("float", "list") and not all(_fits(cf.args[i], form) for i in c.dgm_args):
                continue                      # integer dtypes only where they hold the same values exactly
            if form in NARROW_FORMS:
                ctx.count("representation_form:" + form)
            for i in c.dgm_args:
                cf.args[i] = _as_form(cf.args[i], form)
            fs = [Snap(a) for a in cf.args]
            rf = _call(cf, seed)
            if any(s.changed() for s in fs) and not diffs:
                problems.append(("mutation", "%s modified its %s-form argument" % (name, form)))
            if form == "float":
                base = rf
                continue
            if rf[0] != "ok":
                ctx.count("form_not_accepted:%s:%s:%s" % (name, form, rf[1]))
                if rf[1] not in FORMS_NOT_ACCEPTED.get((name, "list" if form == "list" else "integer"), {}).get("raises", ()):
                    # the float form works and this form raises, outside the committed list of known limits: the function
                    # stopped accepting a form it used to accept (or raises differently).  The property only speaks about
                    # forms the function accepts, so this is a correspondence break, not a failing input.
                    ctx.test("form_acceptance_as_committed", False)
                    problems.append(("form_acceptance", "%s: the %s form of the diagrams raises %s where the float form works; not in "
                                     "the committed list FORMS_NOT_ACCEPTED" % (name, form, rf[1])))
                else:
                    ctx.test("form_acceptance_as_committed", True)
                continue
            if base is None or base[0] != "ok":
                continue
            if same(base[1], rf[1]):
                ctx.test("representation_independent", True)
            elif close(base[1], rf[1], 1e-9):
                ctx.test("representation_independent", True)
                ctx.count("representation:equal_up_to_1e-9_only:%s:%s" % (name, form))
            else:
                ctx.test("representation_independent", False)
                problems.append(("representation", "%s: %s-form diagrams give a different result than float arrays" % (name, form)))
    plt.close("all")
    return problems


def fresh_process_result(name, seed):
    """the result of one case in a fresh interpreter (no call history): ('ok', value) / ('err', kind) / None if not transferable"""
    import base64, pickle, subprocess, sys
    code = ("import sys, pickle, base64; sys.path.insert(0, %r); from harness import common; common.import_persim(); "
            "from harness.props import c19; c = c19._build(%r, %d); r = c19._call(c, %d); "
            "sys.stdout.write('RESULT:' + base64.b64encode(pickle.dumps(r)).decode())" % (common.VERIF, name, seed, seed))
    env = dict(os.environ, PERSIM_ROOT=common.REPO, MPLBACKEND="Agg", PYTHONDONTWRITEBYTECODE="1")
    p = subprocess.run([sys.executable, "-W", "ignore", "-c", code], stdout=subprocess.PIPE, stderr=subprocess.PIPE, env=env, timeout=600)
    out = p.stdout.decode(errors="replace")
    if p.returncode != 0 or "RESULT:" not in out:
        return None
    try:
        return pickle.loads(base64.b64decode(out.split("RESULT:")[1]))
    except Exception:
        return None


def find_polluter(name, seed, candidates, per=150):
    """in a fresh interpreter: the first call (entry, seed) after which the result of case (name, seed) differs from its
    result at process start; None if no candidate call changes it"""
    import base64, pickle, subprocess, sys
    code = ("import sys, pickle, base64, random; sys.path.insert(0, %r); from harness import common; common.import_persim(); "
            "from harness.props import c19\n"
            "def go():\n"
            "    base = c19._call(c19._build(%r, %d), %d)\n"
            "    rr = random.Random(%d)\n"
            "    for cand in %r:\n"
            "        for _ in range(%d):\n"
            "            s = rr.randint(0, 2 ** 31 - 2)\n"
            "            try:\n"
            "                c19._call(c19._build(cand, s), s)\n"
            "            except Exception:\n"
            "                continue\n"
            "            now = c19._call(c19._build(%r, %d), %d)\n"
            "            if not (now[0] == base[0] and c19.same(now[1], base[1])):\n"
            "                return [cand, s]\n"
            "    return None\n"
            "sys.stdout.write('RESULT:' + base64.b64encode(pickle.dumps(go())).decode())"
            % (common.VERIF, name, seed, seed, seed, list(candidates), per, name, seed, seed))
    env = dict(os.environ, PERSIM_ROOT=common.REPO, MPLBACKEND="Agg", PYTHONDONTWRITEBYTECODE="1")
    p = subprocess.run([sys.executable, "-W", "ignore", "-c", code], stdout=subprocess.PIPE, stderr=subprocess.PIPE, env=env, timeout=900)
    out = p.stdout.decode(errors="replace")
    if p.returncode != 0 or "RESULT:" not in out:
        return None
    try:
        return pickle.loads(base64.b64decode(out.split("RESULT:")[1]))
    except Exception:
        return None


def history_check(ctx, name, kind, n):
    """[T] for entry points the analysis flags for module-level state: compare the result after an arbitrary call history in this
    process with the result of the same call in a fresh interpreter"""
    problems = []
    for _ in range(n):
        seed = ctx.rng.randint(0, 2 ** 31 - 2)
        for k in range(1, 4):
            _call(_build(name, seed + k), seed + k)
        here = _call(_build(name, seed), seed)
        fresh = fresh_process_result(name, seed)
        if fresh is None:
            ctx.count("history_check:not_transferable:" + name)
            continue
        ok = here[0] == fresh[0] and same(here[1], fresh[1])
        ctx.test("fresh_process_identical", ok)
        if not ok:
            problems.append((seed, "%s: the result depends on the calls made before it in the same process (differs from a fresh interpreter)" % name))
            if len(problems) >= 2:
                break
    return problems


def self_test(ctx):
    """[T] the translator on the seeded snippet corpus, judged by the Lean checker (driver `ir.check`) and by the mirror"""
    lines, expect = [], []
    for sn in py2ir.SNIPPETS:
        exp, entry, src = sn[:3]
        policy = sn[3] if len(sn) > 3 else None
        try:
            r = py2ir.translate_snippet(src, entry, policy)
        except py2ir.TranslatorError as e:
            # "refused": source the translator must NOT read as if the unmodelled part were absent (decorators, rebinding,
            # conditional definitions …): the entry point then gets a deliberately failing obligation
            ctx.test("snippet_corpus:refused", exp == "refused")
            ctx.count("snippets:refused")
            if exp != "refused":
                raise HarnessError("translator self-test: cannot translate snippet %r: %s" % (src, e))
            continue
        if exp == "refused":
            ctx.test("snippet_corpus:refused", False)
            raise HarnessError("translator self-test failed: snippet %r must be refused (TranslatorError), it was translated" % (src,))
        lines.append("ir.check %s %s" % (r.prog.protocol(), py2ir.sol_protocol(r.sol)))
        lines.append("ir.fix %s %s" % (r.prog.protocol(), py2ir.sol_protocol(r.sol)))
        lines.append("ir.globals %s [%s] [%s] %s" % (r.prog.protocol(), ",".join(map(str, r.allowed_globals)),
                                                     ",".join(map(str, r.allowed_globals)), "T" if r.allow_rng else "F"))
        lines.append("ir.wf %s %s" % (r.prog.protocol(), py2ir.sol_protocol(r.sol)))
        expect.append((exp, entry, src, r))
    # a program with a dropped defining instruction must be rejected by `wellFormed` although `safe` accepts it
    lines.append("ir.check [[0],[[4,1,0]]] [1,16,[1],[1]]")
    lines.append("ir.wf [[0],[[4,1,0]]] [1,16,[1],[1]]")
    ans = common.ask(lines)
    if ans[-2] is not True or ans[-1] is not False:
        raise HarnessError("`wellFormed` does not reject a program that writes through a variable nothing defines: %r %r" % (ans[-2], ans[-1]))
    ctx.test("wellformed_rejects_dropped_definition", True)
    for k, (exp, entry, src, r) in enumerate(expect):
        safe, fix, glob, wf = ans[4 * k], ans[4 * k + 1], ans[4 * k + 2], ans[4 * k + 3]
        if fix is not True:
            raise HarnessError("the solver's solution is not a post-fixpoint for snippet %r" % src)
        if wf is not True or not r.wf:
            raise HarnessError("the translation of snippet %r is not well-formed (Lean %r, mirror %r)" % (src, wf, r.wf))
        verdict = "good" if (safe is True and glob is True) else "bad"
        mirror = "good" if (r.safe and r.globals_ok) else "bad"
        ctx.test("snippet_corpus:" + exp, verdict == exp)
        ctx.count("snippets:%s" % exp)
        if verdict != exp or mirror != verdict:
            raise HarnessError("translator self-test failed: snippet %r expected %s, Lean checker says %s, mirror says %s"
                               % (src, exp, verdict, mirror))
    # an obligation of the committed list must not disappear silently (process item of audit 3): an entry point that is no
    # longer repeatable keeps its `repeat_` theorem (which then fails), a name that is no longer generated is listed
    pol = {"constants": [], "expected_obligations": ["repeat_snippet_C_m", "safe_snippet_C_m", "safe_snippet_gone"]}
    r = py2ir.translate_snippet("class C:\n    def m(self, a):\n        self.n = len(a)\n        return self.n\n", "C.m", pol)
    missing = py2ir.translation_problems(py2ir.Project(sources={}), [r], pol)
    ok = (not r.repeatable) and r.repeat_expected and ("theorem repeat_snippet_C_m" in r.lean()) and missing == ["missing obligation safe_snippet_gone"]
    ctx.test("missing_obligation_reported", ok)
    if not ok:
        raise HarnessError("translator self-test failed: a `repeat_` theorem of the committed list that no longer holds / an expected "
                           "obligation that is no longer generated is not reported (%r, %r, %r)" % (r.repeatable, r.repeat_expected, missing))
    pol = {"constants": [], "expected_obligations": [], "dynamic_only": {"snippet.f": "test"}, "reviewed_unsafe_writes": {"snippet.f": ["a[0] = 1"]}}
    r = py2ir.translate_snippet("def f(a):\n    a[0] = 1\n    a.sort()\n", "f", pol)
    probs = py2ir.translation_problems(py2ir.Project(sources={}), [r], pol)
    ok = r.kind == "dynamic_only" and len(probs) == 1 and "a.sort()" in probs[0]
    ctx.test("unreviewed_write_in_dynamic_only_reported", ok)
    if not ok:
        raise HarnessError("translator self-test failed: an unreviewed write in a dynamic-only entry point is not reported: %r" % (probs,))


def cross_check(ctx, results):
    """the executable Lean checker and the Python mirror must agree on every translated entry point; every translated program
    (with its solution) must be well-formed — also the dynamic-only one, which has no generated obligation"""
    lines = []
    for r in results:
        lines.append("ir.check %s %s" % (r.prog.protocol(), py2ir.sol_protocol(r.sol)))
        lines.append("ir.globals %s [%s] [%s] %s" % (r.prog.protocol(), ",".join(map(str, r.allowed_globals)),
                                                     ",".join(map(str, r.allowed_globals)), "T" if r.allow_rng else "F"))
        lines.append("ir.wf %s %s" % (r.prog.protocol(), py2ir.sol_protocol(r.sol)))
    ans = common.ask(lines)
    for k, r in enumerate(results):
        if (ans[3 * k] is True) != r.safe or (ans[3 * k + 1] is True) != r.globals_ok or (ans[3 * k + 2] is True) != r.wf:
            raise HarnessError("Lean checker and Python mirror disagree on %s: %r/%r/%r vs %r/%r/%r"
                               % (r.name, ans[3 * k], ans[3 * k + 1], ans[3 * k + 2], r.safe, r.globals_ok, r.wf))
        if not r.wf and not r.untranslatable:
            raise HarnessError("the translator produced an ill-formed program for %s (a variable is read that nothing defines, or a "
                               "write target has an empty points-to set)" % r.name)
        ctx.count("ir.check:" + ("safe" if r.safe else "unsafe"))
        ctx.count("ir.wf:" + ("well_formed" if r.wf else "ill_formed"))


# ----------------------------------------------------------------------------------------------- dynamic probe of the FRESH tables

_PROBE_SCALARS = (int, float, complex, str, bytes, bool, type(None), np.generic, type, range, slice, np.dtype)


def _probe_parts(o, depth=0):
    """the mutable objects a value consists of (itself included), to depth 4: ndarrays (data and mask), the buffers of a sparse
    matrix, the members of lists / tuples / sets / dicts"""
    if isinstance(o, _PROBE_SCALARS) or depth > 4:
        return
    if isinstance(o, np.ndarray):
        yield o
        if isinstance(o, np.ma.MaskedArray):
            yield np.ma.getdata(o)
            if o.mask is not np.ma.nomask:
                yield np.ma.getmaskarray(o)
        if o.dtype == object:
            for e in o.flat:
                yield from _probe_parts(e, depth + 1)
    elif isinstance(o, (list, tuple, set, frozenset)):
        if not isinstance(o, (tuple, frozenset)):
            yield o
        for e in o:
            yield from _probe_parts(e, depth + 1)
    elif isinstance(o, dict):
        yield o
        for k, v in o.items():
            yield from _probe_parts(v, depth + 1)
    else:
        yield o
        for attr in ("data", "indices", "indptr", "row", "col", "rows", "coords"):
            if type(o).__module__.startswith("scipy.sparse") and hasattr(o, attr):
                yield from _probe_parts(getattr(o, attr), depth + 1)


def _probe_snap(o, depth=0):
    """the content of a sample, for the before / after comparison"""
    if isinstance(o, np.ndarray):
        return ("nd", o.shape, str(o.dtype), o.tobytes() if o.dtype != object else repr(o.tolist()))
    if isinstance(o, (list, tuple)) and depth < 4:
        return (type(o).__name__,) + tuple(_probe_snap(e, depth + 1) for e in o)
    if isinstance(o, dict) and depth < 4:
        return ("dict",) + tuple((k, _probe_snap(v, depth + 1)) for k, v in o.items())
    if type(o).__module__.startswith("scipy.sparse"):
        return ("sparse", type(o).__name__, o.shape, o.toarray().tobytes())
    return repr(o)


def _probe_alias(res, X):
    """why `res` is not fresh with respect to the sample `X`, or None: some mutable part of it IS a part of X, shares memory
    with one, or — the decisive test — an in-place write to it changes the content of X"""
    xparts = list(_probe_parts(X))
    rparts = list(_probe_parts(res))
    for rp in rparts:
        for xp in xparts:
            if rp is xp:
                return "the result holds the very object (%s) it was given" % type(xp).__name__
            if isinstance(rp, np.ndarray) and isinstance(xp, np.ndarray) and rp.dtype != object and xp.dtype != object \
                    and np.shares_memory(rp, xp):
                return "the result shares memory with its argument"
    before = _probe_snap(X)
    for rp in rparts:
        if isinstance(rp, np.ndarray) and rp.flags.writeable and rp.size and rp.dtype.kind in "biufc":
            try:
                if rp.dtype.kind == "b":
                    np.logical_not(rp, out=rp)
                else:
                    np.add(rp, 1, out=rp, casting="unsafe")
            except Exception:
                continue
        elif isinstance(rp, list) and rp:
            rp.reverse(); rp.append(None)
    if _probe_snap(X) != before:
        return "an in-place write to the result changed the argument"
    return None


_PROBE_A = np.array([[0.5, 2.0, 1.0], [3.0, 1.5, 4.0], [2.5, 0.25, 3.5]])
_PROBE_ARRAYS = {
    "f8": lambda A: A.copy(), "f4": lambda A: A.astype(np.float32), "i8": lambda A: np.array([[3, 1, 2], [0, 5, 4], [7, 6, 8]]),
    "c16": lambda A: A + 1j * A.T, "bool": lambda A: A > 1, "v8": lambda A: np.array([0.5, 2.0, 1.0]), "vi": lambda A: np.array([2, 0, 1]),
    "fortran": lambda A: np.asfortranarray(A), "view": lambda A: A.copy()[:, ::-1], "0d": lambda A: np.array(1.5),
    "nested list": lambda A: [[0.5, 2.0], [1.0, 3.0]], "list of arrays": lambda A: [A[:2].copy(), A[1:].copy()],
    "list of lists of arrays": lambda A: [[A[0].copy()], [A[1].copy()]]}
_PROBE_OTHERS = {
    "str": lambda A: "a,b", "bytes": lambda A: b"ab", "dict": lambda A: {"k": A.copy()},
    "csr": lambda A: __import__("scipy.sparse").sparse.csr_matrix(A), "coo": lambda A: __import__("scipy.sparse").sparse.coo_matrix(A),
    "lil": lambda A: __import__("scipy.sparse").sparse.lil_matrix(A), "csc": lambda A: __import__("scipy.sparse").sparse.csc_matrix(A)}


def _probe_sample(name):
    return (_PROBE_ARRAYS.get(name) or _PROBE_OTHERS[name])(_PROBE_A)


def _probe_resolve(d):
    import builtins, importlib
    if "." not in d:
        return getattr(builtins, d, None)
    parts = canon_parts = d.split(".")
    head = {"np": "numpy", "plt": "matplotlib.pyplot", "mpl": "matplotlib"}.get(parts[0], parts[0])
    parts = head.split(".") + parts[1:]
    for k in range(len(parts) - 1, 0, -1):
        try:
            o = importlib.import_module(".".join(parts[:k]))
        except Exception:
            continue
        for a in parts[k:]:
            o = getattr(o, a, None)
            if o is None:
                break
        return o
    return None


def _probe_call(f, args):
    with warnings.catch_warnings(), np.errstate(all="ignore"), contextlib.redirect_stdout(io.StringIO()), \
            contextlib.redirect_stderr(io.StringIO()):
        warnings.simplefilter("ignore")
        return f(*args)


def _func_patterns(X):
    return [(X,), (X, X), (X, 1), (X, 0), (X, 0, 1), ((X, X),), (X, X, X), (X, 50), (X, 0.5), (X, []), (X, 1, 0), ([X, X],)]


def _method_patterns(R):
    first = R[0] if isinstance(R, (list, str, bytes)) and len(R) else 0
    return [(), (0,), (1,), (float,), (R,), (0, 1), ("a",), ("a", "b"), (["x", "y"],), (first,), (0, 0)]


def probe_fresh_function(f, max_args=99):
    """call `f` on every sample with every argument pattern of at most `max_args` arguments (the positions of `out` / `copy` /
    `overwrite_input` are the tables' business: OUT_POS, COPY_POS, INPLACE_POS); returns (number of calls that returned, first
    reason why a result is not fresh or an argument was modified)"""
    ok = 0
    for name in _PROBE_ARRAYS:
        for k in range(len(_func_patterns(None))):
            X = _probe_sample(name)
            args = _func_patterns(X)[k]
            if len(args) > max_args:
                continue
            before = _probe_snap(X)
            try:
                res = _probe_call(f, args)
            except Exception:
                continue
            ok += 1
            if _probe_snap(X) != before:
                return ok, "the call modified its argument (%s, pattern %d)" % (name, k)
            why = _probe_alias(res, X)
            if why:
                return ok, "%s (sample %s, argument pattern %d)" % (why, name, k)
    return ok, None


def probe_fresh_method(m, max_args=99):
    ok = 0
    for name in list(_PROBE_ARRAYS) + list(_PROBE_OTHERS):
        for k in range(len(_method_patterns(0))):
            R = _probe_sample(name)
            if not hasattr(R, m) or (m == "copy" and isinstance(R, (list, dict))):     # list.copy / dict.copy keep the elements:
                break                                                                    # modelled (store of the receiver's elements)
            args = _method_patterns(R)[k]
            if len(args) > max_args:
                continue
            before = _probe_snap(R)
            try:
                res = _probe_call(getattr(R, m), args)
            except Exception:
                continue
            ok += 1
            if _probe_snap(R) != before:
                return ok, "the call modified its receiver (%s, pattern %d)" % (name, k)
            why = _probe_alias(res, R)
            if why:
                return ok, "%s (receiver %s, argument pattern %d)" % (why, name, k)
    return ok, None


def fresh_probe(ctx):
    """[T] DYNAMIC probe of tables.FRESH_FUNCS / FRESH_METHODS / READONLY-free producers against the INSTALLED numpy / scipy
    (audit R1 / R2): every entry is called on real / complex / integer / boolean / Fortran-ordered / 0-d arrays, nested lists and
    lists of arrays (methods: also on str, bytes, dict and CSR / COO / LIL / CSC matrices); no result may be its argument, hold
    it, share memory with it, or pass an in-place write on to it, and no call may modify what it was given.  An entry no call
    of which returns must be listed in tables.PROBE_EXEMPT (with the reason).  The probe itself is checked on functions known
    to return their argument or a view."""
    for what, f, meth in (("np.float64", np.float64, None), ("np.asarray", np.asarray, None), ("np.diff", np.diff, None),
                          ("np.ravel", np.ravel, None), ("sum", sum, None), ("conj", None, "conj"), ("tocoo", None, "tocoo"),
                          ("reshape", None, "reshape"), ("T-view", lambda a: a.T, None), ("tuple-holder", lambda a: (1, [a]), None)):
        n, why = probe_fresh_function(f) if f is not None else probe_fresh_method(meth)
        ctx.test("fresh_probe:detects_known_alias", why is not None)
        if why is None:
            raise HarnessError("the dynamic table probe does not detect that %s can return its argument / a view of it" % what)
    for d in sorted(tables.FRESH_FUNCS):
        f = _probe_resolve(d)
        if f is None:
            raise HarnessError("classification table: FRESH_FUNCS entry %s does not exist in the installed libraries" % d)
        n, why = probe_fresh_function(f, min(t.get(d, 99) for t in (tables.OUT_POS, tables.COPY_POS, tables.INPLACE_POS)))
        ctx.count("fresh_probe:calls", n)
        if why:
            ctx.test("fresh_probe:functions", False)
            raise HarnessError("classification table: %s is listed as returning a FRESH result, but in the installed library %s — "
                               "move it to ALIAS_OR_FRESH_FUNCS / VIEW_FUNCS" % (d, why))
        if n == 0 and d not in tables.PROBE_EXEMPT:
            raise HarnessError("classification table: no probe call of the FRESH_FUNCS entry %s returned; list it in "
                               "tables.PROBE_EXEMPT with the reason, or extend the probe's argument patterns" % d)
        if n:
            ctx.test("fresh_probe:functions", True)
        else:
            ctx.count("fresh_probe:exempt")
    for m in sorted(tables.FRESH_METHODS):
        n, why = probe_fresh_method(m, min(t.get(m, 99) for t in (tables.METHOD_OUT_POS, tables.METHOD_COPY_POS)))
        ctx.count("fresh_probe:calls", n)
        if why:
            ctx.test("fresh_probe:methods", False)
            raise HarnessError("classification table: method %s is listed as returning a FRESH result, but in the installed library "
                               "%s — move it to ALIAS_OR_FRESH_METHODS / VIEW_METHODS" % (m, why))
        if n == 0 and "." + m not in tables.PROBE_EXEMPT:
            raise HarnessError("classification table: no probe call of the FRESH_METHODS entry %s returned; list it as .%s in "
                               "tables.PROBE_EXEMPT with the reason" % (m, m))
        if n:
            ctx.test("fresh_probe:methods", True)
        else:
            ctx.count("fresh_probe:exempt")


def table_check(ctx):
    """[T] the positions of `out` / `copy` in tables.OUT_POS / COPY_POS / METHOD_OUT_POS / METHOD_COPY_POS against the installed
    numpy's own signatures (ufuncs: number of inputs; functions: inspect.signature; ndarray methods: first line of the docstring);
    the positions of `overwrite_input` & co. (tables.INPLACE_POS); and the dynamic probe of the FRESH tables (`fresh_probe`)"""
    import inspect
    fresh_probe(ctx)
    def resolve(d):
        o = np
        for part in d.split(".")[1:]:
            o = getattr(o, part, None)
            if o is None:
                return None
        return o
    def position(o, what):
        if isinstance(o, np.ufunc):
            return o.nin if what == "out" and o.nout == 1 else None
        try:
            names = [n for n, q in inspect.signature(o).parameters.items() if q.kind in (q.POSITIONAL_ONLY, q.POSITIONAL_OR_KEYWORD)]
        except (TypeError, ValueError):
            return "unknown"
        return names.index(what) if what in names else None
    for d in sorted(tables.FRESH_FUNCS | set(tables.OUT_POS) | set(tables.COPY_POS)):
        if not d.startswith("np.") or d.startswith("np.random."):
            continue
        o = resolve(d)
        if o is None or isinstance(o, type):
            continue
        for what in sorted(tables.INPLACE_KW):
            pos = position(o, what)
            if pos not in (None, "unknown") or d in tables.INPLACE_POS and pos is None and not any(
                    position(o, w) not in (None, "unknown") for w in tables.INPLACE_KW):
                ok = pos == tables.INPLACE_POS.get(d)
                ctx.test("table_out_positions", ok)
                if not ok:
                    raise HarnessError("classification table: `%s` of %s is positional argument %r in the installed numpy, "
                                       "tables.INPLACE_POS says %r" % (what, d, pos, tables.INPLACE_POS.get(d)))
        for what, tab in (("out", tables.OUT_POS), ("copy", tables.COPY_POS)):
            pos = position(o, what)
            if pos == "unknown":
                ctx.count("table_positions:signature_not_available:%s" % d)
                continue
            ok = pos == tab.get(d)
            ctx.test("table_out_positions", ok)
            if not ok:
                raise HarnessError("classification table: `%s` of %s is positional argument %r in the installed numpy, the table says %r"
                                   % (what, d, pos, tab.get(d)))
    for what, tab in (("out", tables.METHOD_OUT_POS), ("copy", tables.METHOD_COPY_POS)):
        for m in sorted(tables.FRESH_METHODS):
            meth = getattr(np.ndarray, m, None)
            doc = (getattr(meth, "__doc__", "") or "").strip().split("\n")[0]
            if meth is None or not doc.startswith("a." + m + "("):
                continue
            names = [x.strip().split("=")[0].strip() for x in doc[doc.index("(") + 1: doc.rindex(")")].split(",")]
            names = [x for x in (names[: names.index("*")] if "*" in names else names) if x != "/"]
            pos = names.index(what) if what in names else None
            ok = pos == tab.get(m)
            ctx.test("table_out_positions", ok)
            if not ok:
                raise HarnessError("classification table: `%s` of ndarray.%s is positional argument %r in the installed numpy, the "
                                   "table says %r" % (what, m, pos, tab.get(m)))


def run(ctx):
    results = _STATE.get("results")
    if results is None:                                   # run() without pre_build (not through check.py)
        with warnings.catch_warnings():
            warnings.simplefilter("ignore")
            project, tr, results = py2ir.translate_all(common.REPO)
        _STATE.update(results=results, translator=tr, project=project)
    tr = _STATE["translator"]
    kinds = {r.name: r.kind for r in results}
    # --- evidence about the translation
    ctx.extra["classification_table"] = [{"rule": a, "constructs": b} for a, b in tables.TABLE_DOC]
    ctx.extra["entry_points"] = {
        "with_generated_obligation": [r.name for r in results if r.kind == "obligation"],
        "in_place_by_contract": {r.name: py2ir.load_policy()["inplace_by_contract"][r.name] for r in results if r.kind == "inplace_by_contract"},
        "dynamic_only": {r.name: py2ir.load_policy()["dynamic_only"][r.name] for r in results if r.kind == "dynamic_only"},
    }
    ctx.extra["global_state_classification"] = {r.name: r.classification for r in results if r.classification != "pure"}
    ctx.extra["second_call_theorem_applies"] = {
        "what": "entry points with the generated theorem repeat_<entry> (pureCall and no global / RNG): Props/C19.lean "
                "second_call_same_result — a literal second call on the heap the first call left returns an equal result",
        "entry_points": [r.name for r in results if r.repeatable],
        "not_covered": {r.name: ("updates attributes of its object (lazy cache / fit / setter)" if r.classification == "pure" else r.classification)
                        for r in results if r.kind == "obligation" and not r.repeatable}}
    ctx.extra["ir_programs"] = {"entry_points": len(results), "instructions": sum(len(r.prog.instrs) for r in results),
                             "allocation_sites": sum(r.sol["nObj"] - 1 for r in results)}
    ctx.extra["unknown_calls"] = sorted(tr.unknown_calls)
    # what the generated obligation `expected_obligations_present` is about (empty on the unchanged tree)
    policy = py2ir.load_policy()
    problems = py2ir.translation_problems(_STATE["project"], results, policy)
    ctx.extra["translation_problems"] = problems
    ctx.extra["expected_obligation_names"] = {"committed_list": len(policy["expected_obligations"]),
                                "generated_not_in_committed_list": sorted({n for r in results for n in r.obligation_names()}
                                                                          - set(policy["expected_obligations"]))}
    if problems:
        print("translation problems (obligation expected_obligations_present): %s" % "; ".join(problems[:4]), flush=True)
    ctx.extra["source_digest"] = {m.path: common.source_digest(m.path) for m in _STATE["project"].modules.values()} if "project" in _STATE else {}
    flagged = {r.name: {"unsafe_writes": r.unsafe[:4], "global_state": r.classification,
                        "why": (py2ir.explain(r.prog, r.sol, int(r.unsafe[0]["instr"].split()[1])) if r.unsafe else [])}
               for r in results if r.kind == "obligation" and (not r.safe or not r.globals_ok)}
    if flagged:
        ctx.extra["flagged_by_the_analysis"] = flagged
        print("analysis flags: %s" % ", ".join(sorted(flagged)), flush=True)
        for n, f in sorted(flagged.items()):
            for u in f["unsafe_writes"][:2]:
                print("   %s: %s  <- %s" % (n, u["instr"], u["origin"]), flush=True)
    self_test(ctx)
    table_check(ctx)
    cross_check(ctx, results)
    for r in results:
        if r.kind == "inplace_by_contract":
            if r.safe:
                raise HarnessError("%s is listed as in place by contract but the analysis finds it safe: update policy.json" % r.name)
            for kind, text in common.known_findings("C19"):
                if kind == "known" and r.name.split(".")[-1] in text:
                    ctx.known(r.name, "%s converts its argument in place (documented contract)" % r.name)
        if r.kind == "dynamic_only" and r.safe:
            raise HarnessError("%s is listed in dynamic_only.json but the analysis proves it safe: remove it from the list" % r.name)
    # --- the dynamic sweep, concentrated on the entry points whose obligation broke
    names = [r.name for r in results]
    inherited = [n for n in INHERITED if n not in names]        # public methods inherited from scikit-learn: no IR, sweep only
    for n in inherited:
        kinds[n] = "inherited"
    ctx.extra["entry_points"]["inherited_from_sklearn_dynamic_only"] = inherited
    names = names + inherited
    missing = [n for n in names if n not in BUILDERS]
    if missing:
        ctx.extra["entry_points_without_argument_factory"] = missing
        ctx.count("sweep:no_factory", len(missing))
    broken_text = " ".join(getattr(ctx, "proof_broken", []) or [])
    suspects = sorted(set(flagged) | {r.name for r in results if r.ident in broken_text}
                      | {r.name for r in results if any(q.startswith(r.name + " ") or q.endswith("_" + r.ident) for q in problems)})
    callers = sorted({r.name for r in results if any(s.split(".")[-1] in (o.get("origin", "")) for s in suspects for o in r.unsafe)} - set(suspects))
    base, focus = ctx.n(30, 200), ctx.n(150, 1500)
    # calls interleaved between two calls of the case: every entry point, the (slow, 3-D) landscape plots at a third of the weight
    pool = [n for n in names if n in BUILDERS and kinds[n] != "inplace_by_contract"]
    pool = [n for n in pool if not n.startswith("landscapes.visuals")] * 3 + [n for n in pool if n.startswith("landscapes.visuals")]
    order = [n for n in suspects if n in BUILDERS] + [n for n in names if n in BUILDERS and n not in suspects]
    nviol = 0
    forms_reported = set()
    for name in suspects:                                  # module-level state: compare with a fresh interpreter
        r0 = [r for r in results if r.name == name][0]
        if name in BUILDERS and not r0.globals_ok and "pyplot" not in r0.classification.split() and kinds[name] == "obligation":
            for seed, text in history_check(ctx, name, kinds[name], ctx.n(6, 20)):
                nviol += 1
                ctx.violation(text, {"entry": name, "seed": seed, "check": "fresh_process", "others": [(name, seed + k) for k in range(1, 4)]},
                              found_input=True, obligation_broken=True)
    for name in order:
        reps = focus if name in suspects else base
        if name.startswith("landscapes.visuals.plot_landscape") and name not in suspects:
            reps = max(1, reps // 3)
        for _ in range(reps):
            seed = ctx.rng.randint(0, 2 ** 31 - 2)
            others = [(ctx.rng.choice(pool), ctx.rng.randint(0, 2 ** 31 - 2)) for _ in range(ctx.rng.randint(0, 2))]
            try:
                problems = exercise(ctx, name, seed, kinds[name], others)
            except HarnessError:
                raise
            except Exception as e:
                # building the arguments runs persim code too (constructors, distances for the matchings): not a harness failure
                ctx.count("sweep:case_not_buildable:%s:%s" % (name, type(e).__name__))
                if os.environ.get("C19_DEBUG"):
                    raise
                continue
            for check, text in problems:
                if check == "form_acceptance":                 # a correspondence break: reported once per message, the search goes on
                    if text not in forms_reported:
                        forms_reported.add(text)
                        ctx.violation(text, {"entry": name, "seed": seed, "check": check, "others": others,
                                             "correspondence": "representation forms accepted", "line": name},
                                      found_input=False, correspondence="FORMS_NOT_ACCEPTED")
                    continue
                nviol += 1
                ctx.violation(text, {"entry": name, "seed": seed, "check": check, "others": others,
                                     "reproduce": "VERIF_SEED=%d ./check.py C19  (or: ./check.py C19 --replay <this file>)" % ctx.seed},
                              found_input=True, obligation_broken=name in suspects)
            if nviol > 5:
                return
    if suspects and nviol == 0:
        # obligations broke and the in-process sweep found nothing: state that leaks ONCE and then stays (a mutable default
        # argument filled by some earlier call) repeats identically from then on; compare, after the whole history of this
        # process, with the same call in a fresh interpreter
        for name in [n for n in suspects if n in BUILDERS and kinds[n] == "obligation" and not n.startswith("landscapes.visuals")][:16]:
            for seed, text in history_check(ctx, name, kinds[name], ctx.n(3, 10)):
                nviol += 1
                cands = [n for n in suspects if n in BUILDERS and not n.startswith("landscapes.visuals")]
                cands.sort(key=lambda n: (not n.endswith("__init__"), n))      # constructors first
                pol = find_polluter(name, seed, cands)
                ctx.violation(text + (": after the single call %s(seed %d)" % tuple(pol) if pol else ""),
                              {"entry": name, "seed": seed, "check": "fresh_process",
                               "others": [tuple(pol)] if pol else [(name, seed + k) for k in range(1, 4)],
                               "note": None if pol else "after the call history of a whole sweep in one process; ./check.py C19 reproduces it"},
                              found_input=True, obligation_broken=True)
            if nviol > 3:
                break
    ctx.extra["suspect_entry_points"] = suspects


def replay(ctx, rep):
    c = rep["case"]
    if "entry" not in c:
        print("no concrete call recorded: %s" % rep.get("what"))
        return True
    with warnings.catch_warnings():
        warnings.simplefilter("ignore")
        _, _, results = py2ir.translate_all(common.REPO)
    kinds = {r.name: r.kind for r in results}
    if c.get("check") == "fresh_process":
        for o, s in c.get("others", []):
            _call(_build(o, s), s)
        here, fresh = _call(_build(c["entry"], c["seed"]), c["seed"]), fresh_process_result(c["entry"], c["seed"])
        print("  after the recorded history: %r\n  in a fresh interpreter:     %r" % (here, fresh))
        return fresh is None or (here[0] == fresh[0] and same(here[1], fresh[1]))
    problems = exercise(ctx, c["entry"], c["seed"], kinds.get(c["entry"], "obligation"), [tuple(o) for o in c.get("others", [])])
    for check, text in problems:
        print("  %s: %s" % (check, text))
    # a form that is no longer accepted is outside the property's quantifier ("wherever the function accepts those forms")
    return not [p for p in problems if p[0] != "form_acceptance"]


MANIFEST = {
    "text": "Proof over a memory-level IR that is regenerated from persim's source on every run. Lean theorems (no bound on program size, "
            "path, loop count or call sequence): points_to_sound (every solution of the inclusion constraints abstracts every execution, "
            "instructions taken in any order any number of times), no_owned_write / checked_no_owned_write (if the decidable checker `safe` "
            "accepts, every caller-owned buffer keeps its data and element slots in every execution), wellFormed_defined / _nonempty / "
            "_inRange with unbound_of_undefined (the decidable guard `wellFormed`: no instruction reads a variable nothing defines, no write "
            "is judged on an empty points-to set, no table lookup falls back on a default), deterministic_of_no_global (equal visible states "
            "give equal visible results whatever the module-level state), result_function_of_arguments / seeded_result_function_of_arguments "
            "(a program with no readGlobal and no rng — resp. with rng from the same stream position — run from two heaps that agree only on "
            "what the arguments reach, up to a renaming of addresses, gives every variable the same value to every depth) and "
            "second_call_same_result (for a `pureCall` program — safe and no attribute update of a caller-owned object — a literal second "
            "call on the heap the first call left returns an equal result). The translator "
            "harness/translator/py2ir.py emits one IR program per public entry point (117: functions, methods, constructors, properties, dunder "
            "operators; persim-internal calls inlined per call site) plus the obligations safe_<entry>, glob_<entry>, wf_<entry> (115 each) "
            "and repeat_<entry> (57: the entry points to which second_call_same_result applies; methods that cache on their object are "
            "not among them), each discharged by kernel evaluation (decide +kernel, no native_decide), and expected_obligations_present "
            "(every obligation of the committed list expected_obligations.json is still generated — a repeat_ theorem of the list is emitted "
            "whether or not it still holds —, no module has unmodelled module-level code without an entry point to fail, and the entry points "
            "without a safety obligation have no flagged write beyond the reviewed ones). One entry point is dynamic-only "
            "(check_assignment_feasibility, see dynamic_only.json) and one is in place by documented contract (PersImage.to_landscape: "
            "obligation unsafe_<entry>: post-fixpoint, well-formed and not safe). Every run also executes the dynamic sweep on all entry "
            "points and on the three public methods inherited from scikit-learn (no persim source, no IR).",
    "note": "Trusted: Lean kernel; the translator py2ir.py with its classification table tables.py and policy.json (the tie between source and "
            "IR is the translator, validated by a seeded corpus of 158 known-bad / 58 known-good / 50 to-be-refused snippets, by the check of its "
            "out/copy/overwrite_input positions against the installed numpy, by a dynamic probe of every function / method it calls fresh "
            "(identity, shared memory, write-through, on the installed numpy / scipy), and by the sweep, not proved). The translator "
            "over-approximates what it cannot resolve: calls through unresolved callables are unknown calls that may write everything "
            "reachable; only `weight` / `kernel` are assumed read-only caller-supplied callables; source it does not model (decorators, "
            "module-level rebinding, conditional definitions, code in __init__.py or _version.py, unreviewed `_VERIF_*` hooks, a `class` line or "
            "base list other than the reviewed one of policy.json class_lines, a persim base class with __init_subclass__ / __set_name__ / "
            "metaclass / attribute-lookup hooks) is refused or translated, never skipped; every *.py file under persim/ is parsed. [T] only: "
            "argument byte-comparison, repeat / interleave / fresh-object equality (for plots: of what was drawn, and no artist on axes that "
            "were not passed), np.random.seed reproducibility of the mGH upper bound, and "
            "representation independence (nested lists / int arrays / float arrays) — the IR has no values or dtypes. Attribute tables of "
            "instances (lazy caches, fit) and matplotlib handles are outside 'arrays or lists'; the address-blind-driver hypothesis "
            "(`Respects`) of the repeat theorems is a modelling assumption about Python code (results do not depend on id()).",
    "technique": "Lean 4 soundness proof of a points-to analysis over a translated IR + per-entry-point kernel-checked obligations + dynamic sweep",
}
