"""C12 — the imager's geometry stays self-consistent under any configuration history.

Theorems: lean/PersimVerif/Props/C12.lean about lean/PersimVerif/Model/Imager.lean (state machine over any
linear ordered floor field; `inv_reachable` by induction over the operation list).
Tie: random histories over {ctor, birth_range=, pers_range=, pixel_size=, fit} on the real
`PersistenceImager`; after every operation the public attributes, the mesh and the shape of a real
`transform` output are compared with the same model executed at `Rat` on the exact rationals of the
same floats (driver ops `img.hist`, `img.from`).
[T]: the invariant itself is evaluated on the real code after every operation of every history and on a
float-stress stream (0.3/0.1, 0.7/0.1, 1/3, n*ps for n <= 400, 37.3 with 0.2 ...) — rounding defects are
invisible to exact-arithmetic theorems and show only there.  The invariant's verdict uses the public attributes
and `transform` only: the imagers are built with unit weight and a Gaussian kernel of 0.002 pixels, and after
every operation one-point diagrams 0.02 pixels inside the corner pixels (and a random one) of the REPORTED
geometry must put their mass into exactly that pixel of the image ("positions where a single narrow-kernel point
lands": a transform that works from a stale or mis-stepped mesh while the attributes are right shows here).
Correspondence only (never a claimed failing input): how the padding is distributed, the range of the axis an
assignment did not touch, the private meshes `_bpnts`/`_ppnts`, what `transform([])` returns, the constructor's
defaults (read from the class under test: signature, else the `if x is None: x = ...` literals of its body).
"""
import math
from fractions import Fraction
import numpy as np
from .. import common
from ..common import enc, ask
from ..translator import py2lean

LEVEL = "proof"
TRUSTED = [py2lean.trusted_note("imager")]
PROP_FILES = ["PersimVerif/Props/C12.lean"] + py2lean.prop_files("imager")
RULE = ("histories generated from one PRNG: constructor (defaults / explicit ranges) followed by 0-12 operations drawn from "
        "{birth_range=, pers_range=, pixel_size=, fit(single|collection, skew T/F)}; value modes decimal (0.1,0.2,0.3,1/3,0.7 ... "
        "and ranges n*ps or two-decimal), decimal at large offsets (|b0| from 1e3 to 1e6 with the same pixel sizes), dyadic (exact "
        "float arithmetic, whole history scaled by 2^-20..2^20), uniform, and integer-typed (Python ints for ranges and pixel "
        "size, int64 arrays for the diagrams); after every operation transform is called on one diagram, an empty (0,2) array, "
        "[], a collection and a collection with an empty member, and every returned image must have the reported resolution; then "
        "six one-point diagrams (unit weight, kernel sd 0.002 pixels) 0.02 pixels inside the first / last pixel of each axis and a random "
        "pixel of the reported geometry, each of which must land in that pixel of the image; "
        "ranges that are / are not multiples of the pixel size; a malformed stream (pixel_size 0, reversed ranges, fit on "
        "no data / an empty diagram); non-trivial = at least one operation after the constructor and some range that is not "
        "an exact multiple of the pixel size; distinct by digest of the history")
ASSUMPTIONS = [
    "coordinates are finite floats; NaN/inf data and non-numeric arguments (constructor type validation) are outside the model",
    "numeric attributes are compared to 1e-9*scale (scale = largest magnitude in the state), the clauses of the invariant to "
    "1e-9*(largest extent) + 1e-12*(largest coordinate); resolutions, mesh lengths and image shapes exactly; where the code's float quotient extent/pixel_size differs from the exact quotient and the latter is within "
    "1e-9 of an integer, either neighbouring pixel count is accepted (razor-edge rule, counted) and the comparison continues "
    "from the code's own state (`img.from`)",
    "np.linspace(a, b, n, endpoint=False) = a + i*(b-a)/n; in-place += broadcasting rule of numpy (both exercised on every case)",
    "image[i][j] is the pixel [birth_range[0] + i*pixel_size, +pixel_size] x [pers_range[0] + j*pixel_size, +pixel_size] (C04's statement); "
    "the probe resolves a displacement of the pixel grid of 0.02 pixels or more — a smaller deviation of the private meshes from the "
    "reported geometry is reported as a correspondence break without a failing input",
    "the statement fixes neither how the excess over a request is distributed, nor the range of the axis an assignment did not touch, nor "
    "constructor defaults, nor the result of transform([]): differences from the model there are correspondence breaks only",
]
TOL = 1e-9
MAXV = 5
# theorems that carry a clause of the property (of 14 in Props/C12.lean); not listed: helpers / repackagings (driver_ceil_is_ceil,
# step_inv, run_inv, inv_reachable_inv) and the two decided instances about the pre-fix constructor (ctor_old_counterexample,
# ctor_new_same_input)
CORE_THEOREMS = ["PersimVerif.C12." + n for n in (
    "inv_reachable", "mesh_is_square", "covers_request", "covers_request_ctor", "covers_request_history", "shape_is_resolution",
    "reachable_image_shape", "reachable_image_shape_history")]

# the documented constructor defaults; used only if they cannot be read from the class under test (see `ctor_defaults`)
DOC_DEFAULTS = {"birth_range": (0.0, 1.0), "pers_range": (0.0, 1.0), "pixel_size": 0.2}
_DEFAULTS_CACHE = {}


def ctor_defaults():
    """what the constructor of the class UNDER TEST uses for an omitted birth_range / pers_range / pixel_size: the default in
       its signature (inspect.signature) or, where that is None, the literal of `if <name> is None: <name> = <literal>` in its
       body.  The statement does not mention defaults, so a changed default moves the 'request' of a default-constructed imager
       (and what the model is fed) instead of being reported as 'exceeds the request'."""
    if _DEFAULTS_CACHE:
        return _DEFAULTS_CACHE
    import inspect, ast, textwrap
    out, how = {}, {}
    init = PI().__init__
    try:
        sig = inspect.signature(init)
    except (TypeError, ValueError):
        sig = None
    body = {}
    try:
        tree = ast.parse(textwrap.dedent(inspect.getsource(init)))
        for node in ast.walk(tree):
            if (isinstance(node, ast.If) and isinstance(node.test, ast.Compare) and isinstance(node.test.left, ast.Name)
                    and len(node.test.ops) == 1 and isinstance(node.test.ops[0], ast.Is)
                    and isinstance(node.test.comparators[0], ast.Constant) and node.test.comparators[0].value is None
                    and len(node.body) == 1 and isinstance(node.body[0], ast.Assign) and len(node.body[0].targets) == 1
                    and isinstance(node.body[0].targets[0], ast.Name) and node.body[0].targets[0].id == node.test.left.id):
                try:
                    body[node.test.left.id] = ast.literal_eval(node.body[0].value)
                except (ValueError, SyntaxError):
                    pass
    except (OSError, TypeError, SyntaxError):
        pass
    for k, doc in DOC_DEFAULTS.items():
        v = None
        if sig is not None and k in sig.parameters and sig.parameters[k].default not in (None, inspect.Parameter.empty):
            v, how[k] = sig.parameters[k].default, "signature"
        elif k in body and body[k] is not None:
            v, how[k] = body[k], "constructor body"
        try:
            v = float(v) if k == "pixel_size" else (float(v[0]), float(v[1]))
        except (TypeError, ValueError, IndexError):
            v, how[k] = doc, "documented default (not readable from the class)"
        out[k] = v
    _DEFAULTS_CACHE.update(out)
    _DEFAULTS_CACHE["_how"] = how
    return _DEFAULTS_CACHE


class _Defaults:
    def __getitem__(self, k):
        return ctor_defaults()[k]


DEFAULTS = _Defaults()
ERRMAP = {  # model kind -> exception classes the code may raise for it
    "err:zeroPixel": {"ZeroDivisionError", "OverflowError", "ValueError"},
    "err:negCount": {"ValueError"},
    "err:emptyData": {"ValueError", "OverflowError", "IndexError"},
}


def PI():
    return common.pm("images").PersistenceImager


# ----------------------------------------------------------------------------- the real code

def to_input(kind, data, dtype=float):
    if kind == "s":
        return np.array(data, dtype=dtype).reshape(-1, 2)
    return [np.array(d, dtype=dtype).reshape(-1, 2) for d in data]


def unit_weight(b, p):
    """every point weighs 1 (the default weight is the persistence, which is 0 or negative on part of the generated ranges)"""
    return np.ones_like(np.asarray(b, dtype=float))


def probe_sd(case):
    """standard deviation of the probe kernel of a history: 0.002 x the smallest positive pixel size that occurs in it, so
       that in every state a point 0.02 pixels inside a pixel has its whole mass (10 sd) in that pixel"""
    c = case["ctor"]
    pss = [DEFAULTS["pixel_size"] if c.get("pixel_size") is None else c["pixel_size"]] + [o[1] for o in case["ops"] if o[0] == "px"]
    pss = [float(x) for x in pss if isinstance(x, (int, float)) and x > 0 and math.isfinite(x)]
    return 0.002 * (min(pss) if pss else 1.0)


def construct(c, sd=None):
    """the imager under test.  With `sd`: unit weight and an isotropic Gaussian kernel of standard deviation `sd` (neither
       touches the geometry), so that `transform` itself shows where a point lands (see `probe`)"""
    kw = {}
    if c.get("birth_range") is not None:
        kw["birth_range"] = tuple(c["birth_range"])
    if c.get("pers_range") is not None:
        kw["pers_range"] = tuple(c["pers_range"])
    if c.get("pixel_size") is not None:
        kw["pixel_size"] = c["pixel_size"]
    if sd is not None:
        pk = c.get("probe_kernel", "iso")
        if pk == "uniform":            # a box of half-width 5 sd: as concentrated as the Gaussian's 10 sd
            kw.update(weight=unit_weight, weight_params={}, kernel="uniform", kernel_params={"width": 10.0 * float(sd), "height": 8.0 * float(sd)})
        elif pk == "aniso":            # unequal variances, zero covariance: not the isotropic fast path
            kw.update(weight=unit_weight, weight_params={}, kernel="gaussian",
                      kernel_params={"sigma": np.array([[float(sd) ** 2, 0.0], [0.0, (0.8 * float(sd)) ** 2]])})
        else:
            kw.update(weight=unit_weight, weight_params={}, kernel="gaussian", kernel_params={"sigma": float(sd) ** 2})
    return PI()(**kw)


def apply_op(obj, op):
    k = op[0]
    if k == "sb":
        obj.birth_range = (op[1], op[2])
    elif k == "sp":
        obj.pers_range = (op[1], op[2])
    elif k == "px":
        obj.pixel_size = op[1]
    elif k == "fit":
        # a fifth element "int" = the diagrams are integer-typed arrays (the values are whole numbers)
        obj.fit(to_input(op[2], op[3], dtype=np.int64 if len(op) > 4 and op[4] == "int" else float), skew=op[1])
    else:
        raise common.HarnessError("unknown op %r" % (op,))


def mesh_summary(m, ps):
    if m is None:                      # the imager has no such private attribute (renamed / restructured): nothing to read
        return None
    m = np.asarray(m, dtype=float)
    if len(m) == 0:
        return [None, None, 0, 0.0]
    dev = float(np.max(np.abs(np.diff(m) - ps))) if len(m) > 1 else 0.0
    return [float(m[0]), float(m[-1]), int(len(m)), dev]


def snapshot(obj):
    """the public geometry of the object, as plain floats/ints, plus a summary of the PRIVATE corner meshes `_bpnts`/`_ppnts`
       where they exist (the present code's realisation of the pixels; see `invariant` for how far they count)"""
    b, p = obj.birth_range, obj.pers_range
    r = obj.resolution
    return {"b0": float(b[0]), "b1": float(b[1]), "p0": float(p[0]), "p1": float(p[1]), "ps": float(obj.pixel_size),
            "w": float(obj.width), "h": float(obj.height), "rx": int(r[0]), "ry": int(r[1]),
            "mb": mesh_summary(getattr(obj, "_bpnts", None), float(obj.pixel_size)),
            "mp": mesh_summary(getattr(obj, "_ppnts", None), float(obj.pixel_size))}


def probe(obj, snap, sd, rnd):
    """[anchor of the statement: 'positions where a single narrow-kernel point lands']  Through `transform` alone: a point
       placed 0.02 pixels inside the pixel [i][j] of the REPORTED geometry (birth_range[0] + i*pixel_size ..., public attributes
       only), with a kernel of 10 sd <= 0.02 pixels, must put its mass into image[i][j].  Probed: the first and the last
       pixel of each axis at both of their inner corners (a mesh whose step is off accumulates its error towards the far
       end) and one random pixel.  -> list of failures (empty = fine), or None when not probed (grid too large / degenerate)."""
    rx, ry, ps = snap["rx"], snap["ry"], snap["ps"]
    if sd is None or rx < 1 or ry < 1 or rx * ry > 250000 or not (ps > 0) or 10 * sd > 0.0201 * ps:
        return None
    lo, hi = 0.02, 0.98
    cells = [(rx - 1, ry - 1, lo, lo), (rx - 1, ry - 1, hi, hi)]
    if rx * ry <= 40000:                       # large grids: the far corner only (cost)
        cells += [(0, 0, lo, lo), (rx - 1, 0, lo, hi), (0, ry - 1, hi, lo),
                  (rnd.randrange(rx), rnd.randrange(ry), rnd.choice([lo, hi]), rnd.choice([lo, hi]))]
    pts = [np.array([[snap["b0"] + (i + fx) * ps, snap["p0"] + (j + fy) * ps]]) for i, j, fx, fy in cells]
    st, v, _ = common.call(obj.transform, pts, skew=False)
    if st == "err":
        return ["transform raised %s on one-point diagrams inside the reported ranges" % v]
    if not isinstance(v, (list, tuple)) or len(v) != len(pts):
        return ["transform of %d one-point diagrams did not give %d images" % (len(pts), len(pts))]
    bad = []
    for (i, j, fx, fy), pt, img in zip(cells, pts, v):
        a = np.asarray(img, dtype=float)
        if a.shape != (rx, ry):
            continue                                   # reported by the shape clause
        if not (a[i, j] > 0.9):
            k = np.unravel_index(int(np.argmax(a)), a.shape) if a.size and np.isfinite(a).any() else None
            bad.append("a unit-weight point at (%r, %r), %.2f/%.2f of a pixel inside pixel [%d][%d] of the reported geometry (kernel sd "
                       "%.3g = %.4f pixels), puts %.3g of its mass into image[%d][%d]; the mass is in image%s"
                       % (float(pt[0, 0]), float(pt[0, 1]), fx, fy, i, j, sd, sd / ps, float(a[i, j]), i, j,
                          "[%d][%d]" % (int(k[0]), int(k[1])) if k is not None else " nowhere"))
            break
    return bad


def real_shape(obj):
    """shape of an actual transform output for a one-point diagram inside the range (None if too large to bother)"""
    r = obj.resolution
    if r[0] < 0 or r[1] < 0 or r[0] * r[1] > 250000:
        return None
    b, p = obj.birth_range, obj.pers_range
    pt = np.array([[0.5 * (b[0] + b[1]), 0.5 * (p[0] + p[1])]])
    st, v, _ = common.call(obj.transform, pt, skew=False)
    if st == "err":
        return "err:" + v
    return [int(x) for x in np.shape(v)]


def extra_shapes(obj):
    """shapes of what transform returns for the OTHER call styles, each of which must consist of images of the reported
    resolution: an empty (0,2) array, an empty list, a collection of two diagrams, a collection with an empty member.
    -> {style: shape | [shape, ...] | 'err:Kind' | 'not a list'}; {} when the grid is too large to bother"""
    r = obj.resolution
    if r[0] < 0 or r[1] < 0 or r[0] * r[1] > 250000:
        return {}
    out = {}
    b, p = obj.birth_range, obj.pers_range
    pt = np.array([[0.5 * (b[0] + b[1]), 0.5 * (p[0] + p[1])]])
    pt2 = np.array([[b[0], p[1]], [b[1], p[0]]])
    styles = [("empty_array", np.zeros((0, 2)), False), ("empty_list", [], False)]
    if r[0] * r[1] <= 40000:
        styles += [("collection", [pt, pt2], True), ("collection_with_empty_member", [pt, np.zeros((0, 2)), pt2], True)]
    for name, arg, is_coll in styles:
        st, v, _ = common.call(obj.transform, arg, skew=False)
        if st == "err":
            out[name] = "err:" + v
        elif is_coll:
            out[name] = [[int(x) for x in np.shape(a)] for a in v] if isinstance(v, (list, tuple)) and len(v) == len(arg) else "not %d images" % len(arg)
        elif name == "empty_list" and isinstance(v, (list, tuple)) and len(v) == 0:
            out[name] = [0]                     # an empty sequence of images for an empty collection (see `invariant`)
        else:
            out[name] = [int(x) for x in np.shape(v)] if isinstance(v, np.ndarray) else "not an array"
    return out


def data_hull(op):
    """(minB, maxB, minP, maxP) of a fit's data as the code computes them (float skew), or None without data"""
    ds = [np.array(op[3], dtype=float).reshape(-1, 2)] if op[2] == "s" else [np.array(d, dtype=float).reshape(-1, 2) for d in op[3]]
    ds = [d for d in ds]
    if not ds or any(len(d) == 0 for d in ds):
        return None
    bs = np.concatenate([d[:, 0] for d in ds])
    ps_ = np.concatenate([(d[:, 1] - d[:, 0]) if op[1] else d[:, 1] for d in ds])
    return float(bs.min()), float(bs.max()), float(ps_.min()), float(ps_.max())


def request_of(step, pre, c):
    """what the operation asked the ranges to cover: ((rb0, rb1) | None, (rp0, rp1) | None); None = not touched"""
    if step[0] == "ctor":
        br = c.get("birth_range") or DEFAULTS["birth_range"]
        pr = c.get("pers_range") or DEFAULTS["pers_range"]
        return tuple(map(float, br)), tuple(map(float, pr))
    if step[0] == "sb":
        return (float(step[1]), float(step[2])), None
    if step[0] == "sp":
        return None, (float(step[1]), float(step[2]))
    if step[0] == "px":
        return (pre["b0"], pre["b1"]), (pre["p0"], pre["p1"])
    h = data_hull(step)
    if h is None:
        return None, None
    return (h[0], h[1]), (h[2], h[3])


def invariant(snap, req, pre, shape, extra=None, probed=None, soft=None):
    """the property on the real code, after one valid operation.  Returns the list of failed clauses OF THE STATEMENT.
       What the statement does not say is appended to `soft` (reported as a correspondence break, never as a failing input):
       how the excess over the request is distributed (the present code splits it evenly), what happens to the range of the
       axis an assignment did not touch, and the private corner meshes `_bpnts` / `_ppnts` — 'pixels are squares of the
       configured size' is decided through `transform` (`probed`: where narrow-kernel points land), the meshes are the present
       code's realisation of it and are compared with the model in the correspondence."""
    bad = []
    soft = soft if soft is not None else []
    ps = snap["ps"]
    # tolerances: relative to the EXTENTS (widths, pixel size) plus the rounding of the coordinates themselves (1e-12 of
    # their magnitude, i.e. ~1e4 ulp) - not 1e-9 of the offset, which at |b0| ~ 1e6 would be 1% of a 0.1 pixel
    scale_abs = max(abs(snap["b0"]), abs(snap["b1"]), abs(snap["p0"]), abs(snap["p1"]))
    scale_ext = max(snap["w"], snap["h"], ps, abs(snap["b1"] - snap["b0"]), abs(snap["p1"] - snap["p0"]))
    scale = max(scale_abs, scale_ext)
    tol = TOL * scale_ext + 1e-12 * scale_abs
    steptol = TOL * ps + 1e-13 * scale
    for ax, lo, hi, ext, n, mesh, r in (("birth", "b0", "b1", "w", "rx", "mb", req[0]), ("pers", "p0", "p1", "h", "ry", "mp", req[1])):
        cnt = snap[n]
        if cnt < 1:
            bad.append("%s: resolution %d < 1" % (ax, cnt))
        if abs(cnt * ps - snap[ext]) > tol:
            bad.append("%s: resolution*pixel_size %r != extent attribute %r" % (ax, cnt * ps, snap[ext]))
        if abs((snap[hi] - snap[lo]) - snap[ext]) > tol:
            bad.append("%s: range width %r != extent attribute %r" % (ax, snap[hi] - snap[lo], snap[ext]))
        m = snap[mesh]
        if m is None:
            soft.append(("private_mesh", "%s: the imager has no private mesh attribute to read" % ax))
        elif m[2] != cnt + 1:
            soft.append(("private_mesh", "%s: %d private mesh points for resolution %d" % (ax, m[2], cnt)))
        elif m[2] >= 1:
            if abs(m[0] - snap[lo]) > tol or abs(m[1] - snap[hi]) > tol:
                soft.append(("private_mesh", "%s: private mesh runs %r..%r, range is %r..%r" % (ax, m[0], m[1], snap[lo], snap[hi])))
            if m[3] > steptol:
                soft.append(("private_mesh", "%s: private mesh: |mesh step - pixel_size| = %.3g (pixel_size %r)" % (ax, m[3], ps)))
        if r is not None:
            if snap[lo] > r[0] + tol or snap[hi] < r[1] - tol:
                bad.append("%s: range %r..%r does not contain the requested %r..%r" % (ax, snap[lo], snap[hi], r[0], r[1]))
            exc = (snap[hi] - snap[lo]) - (r[1] - r[0])
            if exc > ps + tol:
                bad.append("%s: range exceeds the request by %r > one pixel %r" % (ax, exc, ps))
            if abs((r[0] - snap[lo]) - (snap[hi] - r[1])) > 2 * tol:
                soft.append(("padding_split", "%s: padding is not split evenly (%r below, %r above)" % (ax, r[0] - snap[lo], snap[hi] - r[1])))
        elif pre is not None:
            if abs(snap[lo] - pre[lo]) > tol or abs(snap[hi] - pre[hi]) > tol:
                soft.append(("untouched_axis", "%s: range moved (%r..%r -> %r..%r) though the operation did not touch it" % (ax, pre[lo], pre[hi], snap[lo], snap[hi])))
    if shape is not None and shape != [snap["rx"], snap["ry"]]:
        bad.append("transform output has shape %r, reported resolution is %r" % (shape, (snap["rx"], snap["ry"])))
    for name, sh in (extra or {}).items():
        if name == "empty_list" and sh == [0]:
            # `transform([])` — an empty COLLECTION — may as well give an empty list: the statement speaks of images produced
            soft.append(("empty_collection", "transform([]) returns an empty sequence, the model the zero image"))
            continue
        shapes = sh if (isinstance(sh, list) and sh and isinstance(sh[0], list)) else [sh]
        if any(x != [snap["rx"], snap["ry"]] for x in shapes):
            bad.append("transform(%s) returns %r, reported resolution is %r" % (name.replace("_", " "), sh, (snap["rx"], snap["ry"])))
    if probed:
        mesh_notes = [t for k, t in soft if k == "private_mesh"]
        bad.append("pixels are not the squares of the configured size that the attributes report: " + probed[0]
                   + (" [private meshes: %s]" % "; ".join(mesh_notes[:2]) if mesh_notes else ""))
    return bad


def op_valid(step, pre, c):
    """is the operation inside the property's quantifier (positive extents, positive pixel size, positive spread)?"""
    if step[0] == "ctor":
        br, pr = request_of(step, None, c)
        ps = c.get("pixel_size")
        ps = DEFAULTS["pixel_size"] if ps is None else ps
        return br[1] > br[0] and pr[1] > pr[0] and ps > 0
    if step[0] in ("sb", "sp"):
        return step[2] > step[1]
    if step[0] == "px":
        return step[1] > 0
    h = data_hull(step)
    return h is not None and h[1] > h[0] and h[3] > h[2]


def run_real(case, with_shape=True):
    """run the history on the real code.  Returns the per-step records: {'snap','pre','shape','inv','soft'} or {'err': kind}"""
    import random
    c, ops = case["ctor"], case["ops"]
    recs = []
    valid = True
    obj = None
    steps = [["ctor"]] + [list(o) for o in ops]
    pre = None
    sd = probe_sd(case) if with_shape else None
    rnd = random.Random(len(ops))                  # the random probe pixel: a function of the case, so a replay probes the same
    for st in steps:
        valid = valid and op_valid(st, pre, c)
        with np.errstate(all="ignore"):
            if st[0] == "ctor":
                res = common.call(construct, c, sd)
                if res[0] == "ok":
                    obj = res[1]
            else:
                res = common.call(apply_op, obj, st)
        if res[0] == "err":
            recs.append({"err": res[1], "valid": valid})
            break
        snap = snapshot(obj)
        shape = real_shape(obj) if with_shape else None
        extra = extra_shapes(obj) if with_shape and valid else {}
        with np.errstate(all="ignore"):
            probed = probe(obj, snap, sd, rnd) if with_shape and valid else None
        soft = []
        inv = invariant(snap, request_of(st, pre, c), pre, shape, extra, probed, soft) if valid else []
        recs.append({"snap": snap, "pre": pre, "shape": shape, "extra_shapes": extra, "probed": probed, "inv": inv, "soft": soft,
                     "valid": valid})
        pre = snap
    return recs


# ----------------------------------------------------------------------------- protocol

def enc_op(op):
    if op[0] == "fit":
        return "[fit,%s,%s,%s]" % (enc(bool(op[1])), op[2], enc(op[3]))       # ints and floats encode to the same rationals
    return "[" + ",".join([op[0]] + [enc(float(x)) for x in op[1:]]) + "]"


def line_hist(case):
    c = case["ctor"]
    br = c.get("birth_range") or DEFAULTS["birth_range"]
    pr = c.get("pers_range") or DEFAULTS["pers_range"]
    ps = DEFAULTS["pixel_size"] if c.get("pixel_size") is None else c["pixel_size"]
    return "img.hist %s %s %s [%s]" % (enc([float(x) for x in br]), enc([float(x) for x in pr]), enc(float(ps)),
                                        ",".join(enc_op(o) for o in case["ops"]))


def line_from(snap, ops):
    st = [snap[k] for k in ("b0", "b1", "p0", "p1", "ps", "w", "h")] + [snap["rx"], snap["ry"]]
    return "img.from %s [%s]" % (enc(st), ",".join(enc_op(o) for o in ops))


FIELDS = ("b0", "b1", "p0", "p1", "ps", "w", "h")


def float_quotients(step, pre, c):
    """the quotients extent/pixel_size exactly as the code's floats produce them (for the razor-edge rule)"""
    if step[0] == "ctor":
        br, pr = request_of(step, None, c)
        ps = DEFAULTS["pixel_size"] if c.get("pixel_size") is None else float(c["pixel_size"])
        return (br[1] - br[0]) / ps, (pr[1] - pr[0]) / ps
    if step[0] == "sb":
        return (float(step[2]) - float(step[1])) / pre["ps"], None
    if step[0] == "sp":
        return None, (float(step[2]) - float(step[1])) / pre["ps"]
    if step[0] == "px":
        return (pre["b1"] - pre["b0"]) / float(step[1]), (pre["p1"] - pre["p0"]) / float(step[1])
    h = data_hull(step)
    if h is None:
        return None, None
    return (h[1] - h[0]) / pre["ps"], (h[3] - h[2]) / pre["ps"]


def compare_entry(ctx, ent, rec, step, case_ctor):
    """one reached state: model entry vs code record.  Returns (status, text); status in ok|diverged|bad"""
    snap = rec["snap"]
    ctx.count("states_compared")
    vals = dict(zip(FIELDS, ent[:7]))
    mrx, mry = int(ent[7]), int(ent[8])
    qx, qy = ent[11], ent[12]
    with np.errstate(all="ignore"):
        try:
            fq = float_quotients(step, rec["pre"], case_ctor)
        except ZeroDivisionError:
            fq = (None, None)
    diverged = False
    for ax, m, cde, q, f in (("x", mrx, snap["rx"], qx, fq[0]), ("y", mry, snap["ry"], qy, fq[1])):
        if m == cde:
            continue
        if isinstance(q, Fraction) and f is not None and math.isfinite(f):
            exact = Fraction(f) == q
            n = round(q)
            near = abs(q - n) <= Fraction(1, 10**9) * max(1, abs(q))
            if (not exact) and near and cde in (n, n + 1):
                ctx.count("razor_edge_diverged")
                diverged = True
                continue
            if (not exact) and near:
                ctx.count("razor_edge_near_but_code_count_not_a_neighbour")
        return "bad", "resolution on %s: code %d, model %d (exact quotient %s, code's float quotient %r)" % (
            ax, cde, m, (float(q) if isinstance(q, Fraction) else q), f)
    for ax, q in (("x", qx), ("y", qy)):
        if isinstance(q, Fraction) and abs(q - round(q)) <= Fraction(1, 10**9) * max(1, abs(q)):
            ctx.count("razor_edge_seen")
    if diverged:
        return "diverged", ""
    scale = max([abs(float(v)) for v in vals.values()] + [abs(snap[k]) for k in FIELDS])
    tol = TOL * scale
    for k in FIELDS:
        if abs(float(vals[k]) - snap[k]) > tol:
            return "bad", "%s: code %r, model %r" % (k, snap[k], float(vals[k]))
    for name, mm, cm in (("_bpnts", ent[9], snap["mb"]), ("_ppnts", ent[10], snap["mp"])):
        if cm is None:
            return "bad", "the imager has no private mesh %s to compare with the model's" % name
        if int(mm[2]) != cm[2]:
            return "bad", "%s has %d points, model %d" % (name, cm[2], int(mm[2]))
        if cm[2] >= 1 and (abs(float(mm[0]) - cm[0]) > tol or abs(float(mm[1]) - cm[1]) > tol):
            return "bad", "%s runs %r..%r, model %r..%r" % (name, cm[0], cm[1], float(mm[0]), float(mm[1]))
        if abs(float(mm[3]) - cm[3]) > tol:
            return "bad", "%s: max |step - pixel_size| code %r, model %r" % (name, cm[3], float(mm[3]))
    if rec["shape"] is not None:
        msh = ent[13] if isinstance(ent[13], str) else [int(x) for x in ent[13]]
        csh = rec["shape"]
        if isinstance(csh, str) or isinstance(msh, str):
            if not (isinstance(csh, str) and isinstance(msh, str)):
                return "bad", "transform output shape: code %r, model %r" % (csh, msh)
        elif msh != csh:
            return "bad", "transform output shape: code %r, model %r" % (csh, msh)
    return "ok", ""


def correspond(ctx, cases, recs_all):
    """diff the model's trajectories against the recorded ones; returns [(case, step index, text)]"""
    disagreements = []
    pending = [(i, 0, line_hist(c)) for i, c in enumerate(cases)]
    rounds = 0
    while pending:
        rounds += 1
        if rounds > 20:
            raise common.HarnessError("razor-edge continuation did not terminate")
        answers = ask([p[2] for p in pending])
        nxt = []
        for (i, start, _), ans in zip(pending, answers):
            case, recs = cases[i], recs_all[i]
            steps = [["ctor"]] + [list(o) for o in case["ops"]]
            if not isinstance(ans, list):
                raise common.HarnessError("model driver answered %r for %r" % (ans, case))
            exp = recs[start:]
            for j, ent in enumerate(ans):
                k = start + j
                if k >= len(recs):
                    disagreements.append((i, k, "model goes on after the code raised %r" % recs[-1].get("err")))
                    break
                rec = recs[k]
                if isinstance(ent, str) or "err" in rec:
                    if isinstance(ent, str) and "err" in rec and rec["err"] in ERRMAP.get(ent, ()):
                        ctx.count("rejected:" + ent)
                    else:
                        disagreements.append((i, k, "code: %r, model: %r" % (rec.get("err", "no error"), ent if isinstance(ent, str) else "no error")))
                    break
                st, text = compare_entry(ctx, ent, rec, steps[k], case["ctor"])
                if st == "bad":
                    disagreements.append((i, k, text))
                    break
                if st == "diverged":
                    if k + 1 < len(recs):
                        if "err" in recs[k + 1] and k + 2 != len(recs):
                            raise common.HarnessError("records continue after an error")
                        nxt.append((i, k + 1, line_from(rec["snap"], case["ops"][k:])))
                    break
            else:
                if len(ans) < len(exp):
                    disagreements.append((i, start + len(ans), "model stops after %d states, code reached %d" % (len(ans), len(exp))))
        pending = nxt
    ctx.count("driver_rounds", rounds)
    n = ctx.counters.get("states_compared", 0)
    seen, div = ctx.counters.get("razor_edge_seen", 0), ctx.counters.get("razor_edge_diverged", 0)
    ctx.extra["razor_edge"] = {
        "states_compared": n, "axis_quotients_within_1e-9_of_an_integer": seen, "diverged_states": div,
        "diverged_per_state": round(div / n, 5) if n else None,
        "meaning": "a diverged state is one where the code's FLOAT quotient extent/pixel_size and the exact quotient of the same "
                   "floats fall on different sides of an integer (within 1e-9 of it), so code and exact model take neighbouring pixel "
                   "counts; either count is accepted there, the comparison restarts from the code's own state (img.from), and the "
                   "invariant itself is still evaluated on the code's state. These states are NOT covered by the correspondence of the "
                   "resolution on that axis."}
    return disagreements


# ----------------------------------------------------------------------------- generators

DEC_PS = [0.1, 0.2, 0.3, 0.25, 0.5, 0.7, 1.0 / 3.0, 0.15, 0.05, 1.0, 0.6, 0.35, 0.9]
DYA_PS = [0.125, 0.25, 0.5, 1.0, 2.0, 0.375, 0.75]


class HGen:
    def __init__(self, ctx):
        self.r = ctx.rng
        # "decoff": decimal histories far from the origin (|b0| ~ 1e3 .. 1e6 with pixel sizes ~ 0.1: the float quotient
        # extent/pixel_size is formed from coordinates that carry ~1e-10 of rounding); "int": every argument is
        # integer-typed (Python ints for ranges and pixel size, int64 arrays for the diagrams)
        self.mode = self.r.choice(["dec", "dec", "dec", "dya", "dya", "unif", "unif", "decoff", "decoff", "int"])
        self.L = 2.0 ** self.r.choice([-20, -7, -1, 0, 0, 0, 3, 11, 20]) if self.mode == "dya" else 1.0
        self.off = self.r.choice([-1.0, 1.0]) * self.r.choice([1e3, 1e4, 1e5, 1e6, self.r.uniform(1e3, 1e6)]) if self.mode == "decoff" else 0.0
        self.ps = 1 if self.mode == "int" else 0.2

    def pixel(self):
        r = self.r
        if self.mode == "int":
            return r.choice([1, 1, 2, 3, 5])
        if self.mode in ("dec", "decoff"):
            v = r.choice(DEC_PS)
        elif self.mode == "dya":
            v = r.choice(DYA_PS) * self.L
        else:
            v = r.uniform(0.03, 1.5)
        return v

    def rng_(self):
        """a range (lo, hi) of positive extent, ≤ 12 units, commensurable with the current pixel size or not"""
        r = self.r
        ps = self.ps
        if self.mode == "int":
            lo = r.randint(-20, 20)
            return lo, lo + (r.randint(1, 12) * ps if r.random() < 0.5 else r.randint(1, 30))
        if self.mode in ("dec", "decoff"):
            lo = r.choice([0.0, 0.0, round(r.uniform(-5, 5), 1), round(r.uniform(-5, 5), 2)])
            if self.mode == "decoff":
                lo = round(self.off + round(r.uniform(-5, 5), r.choice([0, 1, 2])), 2)
            if r.random() < 0.5:
                n = r.randint(1, max(1, min(40, int(12 / ps))))
                ext = n * ps if r.random() < 0.7 else round(n * ps, 6)
            else:
                ext = round(r.uniform(0.05, 8), r.choice([1, 2]))
            return lo, lo + max(ext, 0.01)
        if self.mode == "dya":
            lo = r.randint(-40, 40) / 8.0 * self.L
            unit = ps if r.random() < 0.5 and ps >= self.L / 64 else self.L / 8.0
            n = r.randint(1, max(1, min(60, int(12 * self.L / unit))))
            return lo, lo + n * unit
        lo = r.uniform(-5, 5)
        return lo, lo + r.uniform(0.05, 8)

    def point_cloud(self, skew):
        """1-3 diagrams of 1-6 points covering a hull of positive extent in birth and persistence"""
        r = self.r
        bl, bh = self.rng_()
        pl, ph = self.rng_()
        pl = abs(pl)
        ph = pl + (ph - pl if ph > pl else 1.0)
        if ph - pl > 8 * self.L:
            ph = pl + 8 * self.L
        if self.mode == "int":
            bl, bh, pl, ph = int(bl), int(bh), int(pl), int(ph)
        nd = r.randint(1, 3)
        dgms = []
        corners = [(bl, pl), (bh, ph)] if r.random() < 0.5 else [(bl, ph), (bh, pl)]
        for k in range(nd):
            pts = []
            for _ in range(r.randint(1, 6)):
                if self.mode == "dya":
                    b = bl + r.randint(0, 8) / 8.0 * (bh - bl)
                    p = pl + r.randint(0, 8) / 8.0 * (ph - pl)
                elif self.mode == "int":
                    b, p = r.randint(bl, bh), r.randint(pl, ph)
                else:
                    b, p = r.uniform(bl, bh), r.uniform(pl, ph)
                pts.append((b, p))
            dgms.append(pts)
        for cpt in corners:
            r.choice(dgms).append(cpt)
        out = []
        for pts in dgms:
            r.shuffle(pts)
            out.append([[b, (b + p) if skew else p] for b, p in pts])
        return out

    def op(self):
        r = self.r
        k = r.choice(["sb", "sp", "px", "fit", "fit"])
        if k == "px":
            self.ps = self.pixel()
            return ["px", self.ps]
        if k in ("sb", "sp"):
            lo, hi = self.rng_()
            return [k, lo, hi]
        skew = r.random() < 0.7
        dg = self.point_cloud(skew)
        tail = ["int"] if self.mode == "int" else []
        if len(dg) == 1 and r.random() < 0.6:
            return ["fit", skew, "s", dg[0]] + tail
        return ["fit", skew, "c", dg] + tail

    def history(self, nmax=12):
        r = self.r
        c = {"birth_range": None, "pers_range": None, "pixel_size": None}
        if r.random() < 0.8:
            self.ps = self.pixel()
            c["pixel_size"] = self.ps
        elif self.mode == "dya":
            self.ps = 0.25 * self.L
            c["pixel_size"] = self.ps
        elif self.mode == "int":
            c["pixel_size"] = self.ps
        if r.random() < 0.6 or self.mode in ("dya", "int", "decoff"):
            c["birth_range"] = list(self.rng_())
        if r.random() < 0.6 or self.mode in ("dya", "int", "decoff"):
            c["pers_range"] = list(self.rng_())
        n = r.choice([0, 1, 2, 3]) if r.random() < 0.35 else r.randint(0, nmax)
        # the probe kernel (it does not touch the geometry): the isotropic Gaussian takes the imager's fast path, the other two
        # its general kernel path, where the image is assembled differently
        c["probe_kernel"] = r.choice(["iso", "iso", "aniso", "uniform"])
        return {"ctor": c, "ops": [self.op() for _ in range(n)]}


def malformed(ctx):
    r = ctx.rng
    g = HGen(ctx)
    h = g.history(nmax=4)
    kind = r.choice(["px0", "rev", "nodata", "emptydgm", "degenerate", "ctor0", "ctorrev"])
    if kind == "px0":
        h["ops"].append(["px", 0.0])
    elif kind == "rev":
        lo, hi = g.rng_()
        h["ops"].append([r.choice(["sb", "sp"]), hi + 3 * g.ps, lo])
    elif kind == "nodata":
        h["ops"].append(["fit", True, r.choice(["c", "s"]), []])
    elif kind == "emptydgm":
        h["ops"].append(["fit", True, "c", [[[0.0, 1.0], [0.5, 2.0]], []]])
    elif kind == "degenerate":    # accepted by the code: zero extent gives resolution 0
        h["ops"].append(["fit", True, "s", [[1.0, 2.0]]])
        h["ops"].append(g.op())
    elif kind == "ctor0":
        h["ctor"]["pixel_size"] = 0.0
    else:
        h["ctor"]["birth_range"] = [5.0, 1.0]
    return h, kind


CORPUS = [
    {"ctor": {"birth_range": None, "pers_range": None, "pixel_size": None}, "ops": []},
    {"ctor": {"birth_range": None, "pers_range": None, "pixel_size": 0.3}, "ops": []},                  # e840b92: step 0.325
    {"ctor": {"birth_range": [0.0, 0.3], "pers_range": None, "pixel_size": 0.1}, "ops": []},            # e840b92: res 2
    {"ctor": {"birth_range": None, "pers_range": None, "pixel_size": 0.2}, "ops": [["sb", 0.0, 37.3]]},  # e840b92: res 186
    {"ctor": {"birth_range": None, "pers_range": None, "pixel_size": 1.0 / 3.0}, "ops": [["sb", 0.0, 31 * (1.0 / 3.0)]]},
    {"ctor": {"birth_range": [0.0, 1.0], "pers_range": [0.0, 2.0], "pixel_size": 1.0},
     "ops": [["sb", 0.0, 4.5], ["sp", -1.5, 4.5], ["px", 0.75]]},                                         # the suite's setter tests
    {"ctor": {"birth_range": None, "pers_range": None, "pixel_size": 0.5},
     "ops": [["fit", True, "c", [[[0.5, 0.8], [0.7, 2.2], [2.5, 4.0]], [[0.1, 0.2], [3.1, 3.3], [1.6, 2.9]],
                                 [[0.2, 1.5], [0.4, 0.6], [0.2, 2.6]]]]]},                                # the docstring example
    {"ctor": {"birth_range": None, "pers_range": None, "pixel_size": 0.1}, "ops": [["px", 0.1], ["sb", 0.0, 0.7], ["px", 0.7]]},
]


# ----------------------------------------------------------------------------- streams

def nontrivial(case, recs):
    if not case["ops"]:
        return False
    for r in recs:
        if "snap" in r and r["pre"] is not None:
            return True
    return False


SOFT_SEEN = {}


def report_inv(ctx, case, recs, stream):
    """[T] the invariant on the real code; a failed clause is a found failing input.  `soft` notes (what the statement leaves
       open, see `invariant`) are collected — first occurrence per kind — and reported by `run` as correspondence breaks"""
    ok = True
    for k, r in enumerate(recs):
        if "snap" in r and r.get("valid"):
            ctx.count("states_probed_through_transform" if r.get("probed") is not None else "states_not_probed")
        for kind, text in r.get("soft", ()):
            ctx.count("soft:" + kind)
            if kind not in SOFT_SEEN:
                SOFT_SEEN[kind] = (text, {"ctor": case["ctor"], "ops": case["ops"][:k]}, k, stream)
        if r.get("inv"):
            ok = False
            cut = {"ctor": case["ctor"], "ops": case["ops"][:k]}
            ctx.violation("imager geometry inconsistent on the real code after %s: %s"
                          % ("the constructor" if k == 0 else "operation %d (%s)" % (k, case["ops"][k - 1][0]), "; ".join(r["inv"][:4])),
                          cut, found_input=True, stream=stream,
                          reproducer=reproducer(cut))
            break
    ctx.test(stream, ok)
    return ok


def reproducer(case):
    c = case["ctor"]
    args = ", ".join("%s=%r" % (k, tuple(v) if isinstance(v, list) else v) for k, v in c.items() if v is not None)
    lines = ["from persim import PersistenceImager; import numpy as np", "p = PersistenceImager(%s)" % args]
    for o in case["ops"]:
        if o[0] == "sb":
            lines.append("p.birth_range = (%r, %r)" % (o[1], o[2]))
        elif o[0] == "sp":
            lines.append("p.pers_range = (%r, %r)" % (o[1], o[2]))
        elif o[0] == "px":
            lines.append("p.pixel_size = %r" % o[1])
        else:
            arg = "np.array(%r)" % (o[3],) if o[2] == "s" else "[np.array(d) for d in %r]" % (o[3],)
            lines.append("p.fit(%s, skew=%r)" % (arg, o[1]))
    lines.append("print(p.birth_range, p.pers_range, p.pixel_size, p.width, p.height, p.resolution, np.diff(getattr(p, '_bpnts', [0, 0]))[:2], np.diff(getattr(p, '_ppnts', [0, 0]))[:2])")
    return "; ".join(lines)


def stress_cases(ctx):
    """float-stress histories: ranges that are n*ps in floating point, quotients that are not representable"""
    r = ctx.rng
    out = []
    pss = [0.1, 0.2, 0.3, 1.0 / 3.0, 0.7, 0.15, 0.6, 0.35, 0.9, 0.05, 0.45, 1.1, 0.025]
    ctor_none = {"birth_range": None, "pers_range": None, "pixel_size": None}
    for ps in pss:
        out.append({"ctor": dict(ctor_none, pixel_size=ps), "ops": []})
    for a, ps in [(0.3, 0.1), (0.7, 0.1), (1.0, 1.0 / 3.0), (37.3, 0.2), (0.6, 0.2), (0.9, 0.3), (2.1, 0.7), (1.2, 0.4), (4.35, 0.15)]:
        out.append({"ctor": {"birth_range": [0.0, a], "pers_range": [0.0, a], "pixel_size": ps}, "ops": []})
        out.append({"ctor": dict(ctor_none, pixel_size=ps), "ops": [["sb", 0.0, a], ["sp", 0.0, a]]})
        out.append({"ctor": {"birth_range": [0.0, a], "pers_range": [0.0, a], "pixel_size": 1.0}, "ops": [["px", ps]]})
    ns = list(range(1, 401)) if ctx.thorough else sorted(set(list(range(1, 60)) + [r.randint(60, 400) for _ in range(60)] + [186, 187, 400]))
    for ps in (pss if ctx.thorough else pss[:7]):
        for n in ns:
            if n * ps > 4000:
                continue
            x0 = r.choice([0.0, 0.0, 0.1, -0.3, 1.7, round(r.uniform(-3, 3), 2)])
            how = r.randint(0, 4)
            if how == 0:
                out.append({"ctor": dict(ctor_none, pixel_size=ps), "ops": [["sb", x0, x0 + n * ps]]})
            elif how == 1:
                out.append({"ctor": dict(ctor_none, pixel_size=ps), "ops": [["sp", x0, x0 + n * ps]]})
            elif how == 2:
                out.append({"ctor": {"birth_range": [x0, x0 + n * ps], "pers_range": None, "pixel_size": ps}, "ops": []})
            elif how == 3:
                out.append({"ctor": {"birth_range": [x0, x0 + n * ps], "pers_range": [0.0, n * ps], "pixel_size": 1.0}, "ops": [["px", ps]]})
            else:
                m = r.randint(1, 30)
                out.append({"ctor": dict(ctor_none, pixel_size=ps),
                            "ops": [["fit", False, "s", [[x0, 0.0], [x0 + n * ps, m * ps], [x0 + 0.5 * n * ps, 0.5 * m * ps]]]]})
    for a in ([round(0.1 * k, 1) for k in range(1, 400)] if ctx.thorough else [round(0.1 * k, 1) for k in range(1, 400, 7)] + [37.3, 37.4]):
        out.append({"ctor": dict(ctor_none, pixel_size=0.2), "ops": [["sb", 0.0, a]]})
        out.append({"ctor": dict(ctor_none, pixel_size=0.1), "ops": [["sp", 0.0, a], ["px", 0.3]]})
    return out


def pre_build(ctx):
    """source translator (DESIGN.md 3.2): regenerate Generated/SrcImager.lean from PERSIM_ROOT's source"""
    py2lean.pre_build(ctx, ("imager",))


def run(ctx):
    py2lean.report_broken(ctx, PROP_FILES)
    common.import_persim()
    ctx.extra["core_theorems"] = CORE_THEOREMS
    ctx.extra["anchors_digest"] = common.source_digest(
        "persim/images.py", ["__init__", "_n_pixels", "pixel_size", "birth_range", "pers_range", "_create_mesh", "fit",
                             "transform", "fit_transform", "_ensure_iterable"])
    # ---- correspondence: corpus, generated histories, malformed stream
    cases, recs_all, kinds = [], [], []
    ngen = ctx.n(3000, 40000)
    nbad = ctx.n(300, 4000)
    cov = common.LineCov(["persim/images.py"])
    for i in range(len(CORPUS) + ngen + nbad):
        if i < len(CORPUS):
            case, kind = CORPUS[i], "corpus"
        elif i < len(CORPUS) + ngen:
            g = HGen(ctx)
            case, kind = g.history(), "gen:" + g.mode
        else:
            case, kind = malformed(ctx)
            kind = "malformed:" + kind
        if 20 <= i < 140:
            with cov:
                recs = run_real(case)
        else:
            recs = run_real(case)
        cases.append(case); recs_all.append(recs); kinds.append(kind)
        ctx.count("histories:" + kind.split(":")[0])
        if kind.startswith("gen:"):
            ctx.count("mode:" + kind[4:])
        ctx.count("history_length:%d" % len(case["ops"]))
        for o in case["ops"]:
            ctx.count("op:" + o[0])
        ctx.case(case, nontrivial(case, recs), sample_every=211)
        if not report_inv(ctx, case, recs, "invariant_on_histories") and len(ctx.violations) >= MAXV:
            return
    ctx.extra["line_coverage"] = {k: v for k, v in cov.summary().items()}
    found = any(f for _, f in ctx.violations)
    dis = correspond(ctx, cases, recs_all)
    ctx.count("correspondence_disagreements", len(dis))
    # ---- [T] float-stress stream: the invariant itself on the real code
    sc = stress_cases(ctx)
    for case in sc:
        recs = run_real(case)
        ctx.count("stress_cases")
        if not report_inv(ctx, case, recs, "float_stress_invariant") and len(ctx.violations) >= MAXV:
            break
    found = any(f for _, f in ctx.violations)
    # ---- what the statement leaves open (padding distribution, the untouched axis, private meshes, transform([]), defaults):
    # a difference from the model there is a correspondence break, reported once per kind, never a failing input
    SOFT_TEXT = {"padding_split": "the excess over the request is not split evenly between the two ends (the model pads symmetrically; the "
                                  "statement only bounds the excess by one pixel)",
                 "untouched_axis": "an assignment to one axis moved the range of the other (the model leaves it; the statement speaks only "
                                   "of what the last operation asked for)",
                 "private_mesh": "the private corner meshes differ from the model's although points land in the pixels the public "
                                 "attributes describe (or the grid was too large to probe)",
                 "empty_collection": "transform([]) gives an empty sequence where the model gives the zero image",
                 "ctor_defaults": "the constructor's defaults differ from the documented (0,1), (0,1), 0.2"}
    d = ctor_defaults()
    ctx.extra["constructor_defaults"] = {"values": {k: d[k] for k in DOC_DEFAULTS}, "read_from": d["_how"]}
    if any(tuple(np.atleast_1d(d[k])) != tuple(np.atleast_1d(DOC_DEFAULTS[k])) for k in DOC_DEFAULTS):
        SOFT_SEEN.setdefault("ctor_defaults", ("defaults %r" % {k: d[k] for k in DOC_DEFAULTS},
                                               {"ctor": {"birth_range": None, "pers_range": None, "pixel_size": None}, "ops": []}, 0, "defaults"))
    for kind, (text, cut, k, stream) in sorted(SOFT_SEEN.items()):
        if any(r.get("inv") for r in run_real(cut)[k:k + 1]):
            continue                            # this very state is already reported with a failing input
        ctx.violation("correspondence only — %s: %s; every clause of the statement holds on this history"
                      % (SOFT_TEXT.get(kind, kind), text),
                      {"correspondence": "soft:" + kind, "history": cut, "stream": stream}, found_input=False, reproducer=reproducer(cut))
    # ---- a broken correspondence is a violation only through a failing input; none found -> say so
    for i, k, text in dis[:3]:
        case = cases[i]
        cut = {"ctor": case["ctor"], "ops": case["ops"][:k]}
        ctx.violation("code and model of the imager geometry differ after %s of a %s history: %s%s"
                      % ("the constructor" if k == 0 else "operation %d (%s)" % (k, case["ops"][k - 1][0]), kinds[i], text,
                         "" if not found else " (failing inputs of the property itself are reported separately)"),
                      {"correspondence": "img.hist", "line": line_hist(cut)[:4000], "history": cut,
                       "code": recs_all[i][k] if k < len(recs_all[i]) else None},
                      found_input=False, reproducer=reproducer(cut))


def replay(ctx, rep):
    c = rep["case"]
    case = c.get("history", c)
    recs = run_real(case)
    ok = True
    for k, r in enumerate(recs):
        print("step %d:" % k, {kk: r[kk] for kk in ("snap", "shape", "probed", "inv", "soft", "err") if kk in r})
        if r.get("inv"):
            ok = False
    try:
        ans = ask([line_hist(case)])[0]
        print("model (exact arithmetic):", [([float(x) for x in e[:7]] + [int(e[7]), int(e[8])]) if isinstance(e, list) else e for e in ans])
    except Exception as e:  # the driver is optional for a replay
        print("model driver not available:", e)
    return ok


MANIFEST = {
    "text": "Proof (14 theorems, of which 8 core): Lean theorems about the state-machine model of PersistenceImager's geometry over any "
            "linear ordered floor field: for every constructor call with positive extents and every finite history of "
            "birth_range/pers_range/pixel_size assignments and fits (induction over the operation list) no operation raises and width = "
            "resolution*pixel_size = range width on both axes with resolution >= 1; the mesh consists of resolution+1 points exactly "
            "pixel_size apart from range start to range end; every operation's request (assigned range, every fitted point, previous "
            "ranges) is covered with less than one pixel of excess (split evenly in the model; the check's verdict demands only the bound); images have the reported resolution for one diagram, a "
            "collection, a collection with empty members and an empty input; composed with C04: the meshes of every reachable state "
            "satisfy the shape condition of C04's model of _transform, which therefore returns an image of exactly the reported "
            "resolution whose pixel [i][j] is the weighted kernel mass of the square [b0+i*ps, b0+(i+1)*ps] x [p0+j*ps, p0+(j+1)*ps]; the "
            "pre-fix constructor is refuted by a decided counterexample. The model is tied to the code on every run by executing the "
            "same definitions at Rat on the exact rationals of the floats given to the real class, history by history, attribute by "
            "attribute.",
    "note": "Trusted: Lean kernel + Mathlib, axioms propext/Classical.choice/Quot.sound; the correspondence harness; numpy's linspace and "
            "in-place broadcasting as modelled. Theorems are exact-arithmetic: float rounding (where the repaired int(width/ps) defect "
            "lived) is covered only by the [T] streams, which evaluate the invariant on the real code after every operation (public "
            "attributes; the shapes of transform on an empty array, [], a collection and a collection with an empty member; where "
            "narrow-kernel points placed by the reported geometry land in the image) and on float-stress inputs "
            "(n*ps for n <= 400, 0.3/0.1, 0.7/0.1, 1/3, 37.3 with 0.2; decimal histories at offsets up to 1e6; integer-typed arguments). "
            "Razor-edge rule: where the code's float quotient extent/pixel_size and the exact quotient of the same floats fall on different "
            "sides of an integer (within 1e-9), code and exact model take neighbouring pixel counts; either is accepted and the comparison "
            "restarts from the code's own state. This happens in about 8% of the compared states of a quick run (the exact figures are in "
            "the evidence under coverage.razor_edge); on those states the resolution of that axis is NOT covered by the correspondence, "
            "only by the invariant evaluated on the code's own state.",
    "technique": "Lean 4 invariant proof over operation histories + differential correspondence with the real class + float-stress tests",
}
MANIFEST["note"] += " " + py2lean.manifest_note("imager")
