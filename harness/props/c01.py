"""C01 — the bottleneck distance is the true min-max matching cost.

Theorems: lean/PersimVerif/Props/C01.lean (model lean/PersimVerif/Model/Bottleneck.lean over any linear
ordered field, the Hopcroft–Karp call a parameter `oracle` with the contract "returns a maximum matching").
Tie:  `persim.bottleneck.bottleneck` vs the model executed at Rat (driver op `bn`): value (exactly on dyadic
      inputs, 1e-9*scale otherwise) and the two warning flags (the code's own two messages).
Verdict (what makes a FAILING INPUT): on inputs inside the quantifier — finite births, deaths finite or +inf,
      birth <= death, (n,2) or empty in any accepted form — the call returns, its value is within 1e-9*scale of the
      certified optimum, and if a +inf death was present SOME warning (any text, any category) was raised.  NaN/-inf
      deaths, points below the diagonal and a third column are compared with the model only.
Contract: every `HopcroftKarp(graph).maximum_matching()` of the real run is recorded and re-checked by the
      driver (`cert.matching`), its maximality certified by a König vertex cover computed here and verified
      by the Lean checker (`cert.cover`, theorem `cover_cert_sound`).
[T]:  the real value against (a) the exhaustive specification `spec.bn` (M+N <= 8), (b) a certified optimum at
      every size (independent exact oracle here, certificate verified by `cert.opt`, theorem `cert_opt_sound`),
      (c) the same cases under several PYTHONHASHSEED values in subprocesses,
      (d) the distance returned with `matching=True` equals the one without (up to rounding for the verdict;
          bit-identity, which the model has, as a correspondence signal).
"""
import json, math, os, signal, subprocess, sys, warnings
from fractions import Fraction
import numpy as np
from .. import common
from ..translator import py2lean
from ..common import enc, ask, HarnessError

LEVEL = "proof"
RULE = ("pairs of diagrams from one PRNG: sizes 0-7 mostly, a few up to 40 per side (quick) / many of each (thorough), coordinate modes lattice/half/"
        "dyadic (scales 2^-20..2^20)/decimal/uniform, repeated points (p=0.2), diagonal points, non-finite deaths "
        "(inf mostly; -inf/nan rarely and then compared with the model only; p=0.25 of cases), empty sides in every accepted "
        "form ([], [[]], (), np.array([]), np.zeros((0,2)), np.array([[]])), an extra third column (judged on the (n,2) part), "
        "whole-pair rescaling by 2^+-20, a small below-diagonal stream (model comparison only), 7% non-dyadic 'nested' pairs "
        "(birth moved one way and death the other by the same one/two-decimal amount), two (quick) / 30 (thorough) pairs of 25-40 "
        "points per side; every argument is handed over "
        "in a representation that holds its numbers unchanged: float64 array, list, tuple, and — where the coordinates "
        "allow — float32, int64/int32/int16/int8/uint8 arrays and nested Python-int lists; 12% of the cases are integer-valued "
        "diagrams spanning the whole range of such a dtype (negative coordinates for the signed ones), so that coordinate "
        "differences leave the dtype's range; "
        "non-trivial = at least 2 finite points in total; distinct by digest of (dgm1, dgm2)")
ASSUMPTIONS = [
    "births are finite; deaths are finite or +inf.  The code and the model treat -inf and NaN deaths like +inf (np.isfinite); "
    "the property says 'infinite death', so inputs with a NaN or -inf death are compared with the model only and never judged",
    "warning clause: SOME warning raised during the call when a +inf death is present (any wording/category; no clause forbids "
    "other warnings); the code's own two messages are compared with the model's flags as correspondence only",
    "a third column is outside '(n,2) diagrams': when code and specification differ only with the extra column present the case "
    "is a correspondence break, the verdict is taken on the same points as (n,2) diagrams",
    "every point of the finite parts has birth <= death (the guard of bottleneck_eq_spec; below-diagonal inputs are "
    "only compared against the model, the specification is not claimed there)",
    "hopcroftkarp.HopcroftKarp.maximum_matching returns a maximum-cardinality matching as a two-way dict "
    "(a parameter of the theorems; re-checked and certified for every probe of every run)",
    "exact-arithmetic idealisation: on dyadic and integer inputs the code's float arithmetic is exact and values are compared "
    "exactly WITH THE MODEL; elsewhere within 1e-9 * largest |coordinate| (no floor at 1).  The verdict against the certified "
    "optimum uses 1e-9 * largest |coordinate| in every mode (a result one ulp off is not a failing input)",
    "inputs are converted with dtype=float before any arithmetic (/repo fix 82ac8af), so the representation does not matter; the "
    "model is dtype-free: the same exact rationals go to the driver whatever the representation",
    "probe-level tie: the candidate list and the threshold graph of EVERY Hopcroft–Karp probe of the real run are read from the "
    "running frame and compared with the model's (`cands`, `thr`): equal on exact inputs, sandwiched between the model's graphs at "
    "d -+ 1e-9*scale elsewhere",
]
TRUSTED = ["hopcroftkarp (contract: maximum matching; certified per probe by a Lean-verified vertex-cover check)"]
TOL = 1e-9
EXPECTED_DIGEST = "f5f1687a93d6c079"     # structural digest of persim.bottleneck.bottleneck the model mirrors (after /repo fix 82ac8af: inputs converted with dtype=float)
EXACT_MODES = ("lattice", "half", "dyadic", "int")
# the theorems that carry clauses of the property statement; the other obligations counted in the evidence are the
# steps they are proved from (bsearch_least, feas_monotone, aug_perfect_iff_pm, core_eq_spec, …), the soundness of
# the certificate checkers the harness uses (matching/cover/cert_opt), and concrete instances
CORE_THEOREMS = ["PersimVerif.C01.bottleneck_eq_spec",      # value = min-max matching cost, all sizes, every max-matching oracle
                 "PersimVerif.C01.oracle_irrelevant",       # … hence independent of the hash seed
                 "PersimVerif.C01.inf_dropped"]             # non-finite deaths dropped, flagged, without influence


# ----------------------------------------------------------------------------- real code, instrumented

class Recorder:
    """stands in for the name `HopcroftKarp` inside persim.bottleneck: records (graph, result) of every probe, and —
    read from the calling frame of `bottleneck`, nothing is changed there — the threshold `d` the probe was built
    for and, at the first probe, the whole candidate list `ds` (None when the code has no such local variables)"""

    def __init__(self, real):
        self.real = real
        self.probes = []
        self.ds = None          # candidate list at the first probe
        self.thr = []           # threshold of each probe (None = not observable)

    def __call__(self, graph):
        rec = self
        snap = {k: set(v) for k, v in graph.items()}      # HopcroftKarp.__init__ mutates its argument
        d = ds = None
        try:
            loc = sys._getframe(1).f_locals
            if loc.get("graph") is graph:
                d = float(loc["d"])
                if not rec.thr:
                    ds = [float(x) for x in np.asarray(loc["ds"], dtype=float).ravel()]
        except Exception:
            d = ds = None
        if not rec.thr:
            rec.ds = ds
        rec.thr.append(d)
        inner = self.real(graph)

        class _W:
            def maximum_matching(self_w):
                res = inner.maximum_matching()
                rec.probes.append((snap, dict(res)))
                return res
        return _W()


INT_RANGES = {"uint8": (0, 255), "int8": (-128, 127), "int16": (-2 ** 15, 2 ** 15 - 1), "int32": (-2 ** 31, 2 ** 31 - 1),
              "int64": (-2 ** 40, 2 ** 40)}
REPS = ("float64", "float32", "list", "tuple", "pyint") + tuple(INT_RANGES)


def rep_ok(d, rep):
    """can the diagram `d` (lists of floats) be handed over in representation `rep` without changing any number?"""
    if rep in ("float64", "list", "tuple"):
        return True
    xs = [x for p in d for x in p]
    if rep == "float32":
        with np.errstate(all="ignore"):
            return all(math.isnan(x) or float(np.float32(x)) == x for x in xs)
    if not all(math.isfinite(x) and x == math.floor(x) for x in xs):
        return False                                  # integer representations cannot hold inf/nan or fractions
    lo, hi = INT_RANGES["int64" if rep == "pyint" else rep]
    return all(lo <= x <= hi for x in xs)


def reps_for(d):
    return [rp for rp in REPS if rep_ok(d, rp)]


def to_array(d, shape_kind, rep="float64"):
    """the argument handed to the real function.  The MODEL never sees the representation: the same exact
    rationals go to the driver whatever `rep` is (property C01 is about the numbers, not their dtype)."""
    if rep is True:
        rep = "int64"                                 # replay files written before the representations existed
    if not rep or not rep_ok(d, rep):
        rep = "float64"
    if len(d) == 0:                                   # every way of writing "no points" the functions accept
        if rep in ("list", "pyint"):
            return [[]] if shape_kind % 3 == 2 else []
        if rep == "tuple":
            return ((),) if shape_kind % 3 == 2 else ()
        dt = float if rep == "float64" else getattr(np, rep)
        return [np.array([], dtype=dt), np.zeros((0, 2), dtype=dt), np.array([[]], dtype=dt)][shape_kind % 3]
    if rep == "list":
        return [[float(x) for x in p] for p in d]
    if rep == "tuple":
        return tuple(tuple(float(x) for x in p) for p in d)
    if rep == "pyint":
        return [[int(x) for x in p] for p in d]
    a = np.array(d, dtype=float)
    if rep == "float64":
        return a
    return a.astype(getattr(np, rep))


def case_reps(case):
    rp = case.get("rep")
    if rp is None:
        rp = "int64" if case.get("int") else "float64"
    if isinstance(rp, str):
        rp = [rp, rp]
    return rp


def case_args(case):
    r1, r2 = case_reps(case)
    return to_array(case["dgm1"], case.get("shape1", 0), r1), to_array(case["dgm2"], case.get("shape2", 0), r2)


class Hang(Exception):
    """the real call did not return within HANG_S seconds (an edit of the bisection can make `while len(ds) >= 1` spin for ever).
    An Exception on purpose: the call sites record it like any other error kind of the code, and `verdict` then says the
    property fails on that input (no value was returned)"""


HANG_S = 20.0
HANGS = [0]


def _alarm(signum, frame):
    raise Hang()


def guarded(f, *a, **k):
    """f(*a, **k) under an alarm that repeats every quarter second after HANG_S (an exception raised by a signal handler can be
    lost where Python ignores exceptions); raises Hang when the call does not return"""
    old = signal.signal(signal.SIGALRM, _alarm)
    signal.setitimer(signal.ITIMER_REAL, HANG_S, 0.25)
    try:
        try:
            return f(*a, **k)
        finally:
            signal.setitimer(signal.ITIMER_REAL, 0)
    except Hang:
        HANGS[0] += 1
        raise
    finally:
        signal.setitimer(signal.ITIMER_REAL, 0)
        signal.signal(signal.SIGALRM, old)


def run_code(case, record=True):
    """-> ('ok', value, warn1, warn2, probes, recorder, anywarn) or ('err', kind, …).  warn1/warn2: the code's own two
    messages were seen (compared with the MODEL's flags only — wording is not part of the property); anywarn: some
    warning, whatever its text or category, was raised during the call (what the property's clause asks for)"""
    bmod = common.pm("bottleneck")
    a, b = case_args(case)
    real = bmod.HopcroftKarp
    rec = Recorder(real)
    if record:
        bmod.HopcroftKarp = rec
    try:
        with warnings.catch_warnings(record=True) as w:
            warnings.simplefilter("always")
            with np.errstate(all="ignore"):
                try:
                    v = guarded(bmod.bottleneck, a, b)
                except Exception as e:      # the code's own error kinds are part of the contract (Hang: no return at all)
                    return ("err", type(e).__name__, False, False, rec.probes, rec, False)
        msgs = [str(x.message) for x in w]
        w1 = any(m.startswith("dgm1 has points with non-finite death") for m in msgs)
        w2 = any(m.startswith("dgm2 has points with non-finite death") for m in msgs)
        return ("ok", float(v), w1, w2, rec.probes, rec, len(w) > 0)
    finally:
        bmod.HopcroftKarp = real


# ----------------------------------------------------------------------------- independent exact oracle

def finite_part(d):
    return [p for p in d if math.isfinite(p[1])]


def guard_ok(case):
    """the input is inside the property's quantifier as far as its NUMBERS go: finite births, deaths finite or +inf
    (NaN and -inf deaths are not "infinite death"), birth <= death on the finite part"""
    pts = case["dgm1"] + case["dgm2"]
    if any(not math.isfinite(p[0]) or math.isnan(p[1]) or p[1] == -math.inf for p in pts):
        return False
    return all(p[0] <= p[1] for p in finite_part(case["dgm1"]) + finite_part(case["dgm2"]))


def has_extra_col(case):
    return any(len(p) > 2 for p in case["dgm1"] + case["dgm2"])


def trimmed(case):
    """the same input as (n,2) diagrams (the property quantifies over those; further columns are an extension of the
    code's docstring, not of the statement)"""
    out = dict(case, dgm1=[list(p[:2]) for p in case["dgm1"]], dgm2=[list(p[:2]) for p in case["dgm2"]])
    return out


def aug_exact(S, T):
    """the augmented matrix in exact arithmetic, written from the docstring of the property, not from the code:
    rows = points of S then diagonal copies of T; columns = points of T then diagonal copies of S; None = +inf"""
    F = Fraction
    S = [(F(p[0]), F(p[1])) for p in S] or [(F(0), F(0))]
    T = [(F(p[0]), F(p[1])) for p in T] or [(F(0), F(0))]
    M, N = len(S), len(T)
    n = M + N
    D = [[None] * n for _ in range(n)]
    for i, (b, d) in enumerate(S):
        for j, (b2, d2) in enumerate(T):
            D[i][j] = max(abs(b - b2), abs(d - d2))
        D[i][N + i] = (d - b) / 2
    for j, (b2, d2) in enumerate(T):
        D[M + j][j] = (d2 - b2) / 2
        for i in range(M):
            D[M + j][N + i] = F(0)
    return D, n


def max_matching(adj, n):
    """maximum bipartite matching (rows 0..n-1, cols 0..n-1): returns col_of_row list (-1 = free)"""
    try:
        from scipy.sparse import csr_matrix
        from scipy.sparse.csgraph import maximum_bipartite_matching
        indptr, indices = [0], []
        for i in range(n):
            indices.extend(adj[i])
            indptr.append(len(indices))
        g = csr_matrix((np.ones(len(indices), dtype=np.int8), indices, indptr), shape=(n, n))
        return [int(x) for x in maximum_bipartite_matching(g, perm_type="column")]
    except ImportError:                                     # pragma: no cover
        col_row = [-1] * n

        def aug(i, seen):
            for j in adj[i]:
                if j not in seen:
                    seen.add(j)
                    if col_row[j] < 0 or aug(col_row[j], seen):
                        col_row[j] = i
                        return True
            return False
        for i in range(n):
            aug(i, set())
        out = [-1] * n
        for j, i in enumerate(col_row):
            if i >= 0:
                out[i] = j
        return out


def koenig(adj, n, col_of_row, ncols=None):
    """König vertex cover from a maximum matching: (rows not reachable, columns reachable) by alternating
    paths from the free rows.  Whether it IS a cover of the right size is decided by the Lean checker."""
    ncols = n if ncols is None else ncols
    row_of_col = {}
    for i, j in enumerate(col_of_row):
        if j >= 0:
            row_of_col[j] = i
    zr = {i for i in range(n) if col_of_row[i] < 0}
    zc = set()
    work = list(zr)
    while work:
        i = work.pop()
        for j in adj[i]:
            if j not in zc:
                zc.add(j)
                i2 = row_of_col.get(j)
                if i2 is not None and i2 not in zr:
                    zr.add(i2)
                    work.append(i2)
    return [i for i in range(n) if i not in zr], sorted(zc)


def oracle_opt(case):
    """exact optimum with its certificate: (value, pairs, pred or None, R, C)"""
    D, n = aug_exact(finite_part(case["dgm1"]), finite_part(case["dgm2"]))
    cand = sorted({x for row in D for x in row if x is not None})

    def adj_at(d):
        return [[j for j in range(n) if D[i][j] is not None and D[i][j] <= d] for i in range(n)]
    lo, hi = 0, len(cand) - 1                                 # the largest finite entry is always feasible
    while lo < hi:
        mid = (lo + hi) // 2
        if all(c >= 0 for c in max_matching(adj_at(cand[mid]), n)):
            hi = mid
        else:
            lo = mid + 1
    v = cand[lo]
    cr = max_matching(adj_at(v), n)
    pairs = [[i, cr[i]] for i in range(n)]
    if lo == 0:
        return v, pairs, None, [], []
    pred = cand[lo - 1]
    adj = adj_at(pred)
    R, C = koenig(adj, n, max_matching(adj, n))
    return v, pairs, pred, R, C


# ----------------------------------------------------------------------------- generation

INT_STREAM = {"uint8": [(0, 6), (0, 255), (0, 255), (100, 255)], "int8": [(-6, 6), (-128, 127), (-128, 127), (-128, -100)],
              "int16": [(-300, 300), (-2 ** 15, 2 ** 15 - 1), (0, 2 ** 15 - 1)], "int32": [(-70000, 70000), (-2 ** 31, 2 ** 31 - 1)],
              "int64": [(-2 ** 40, 2 ** 40)], "pyint": [(-2 ** 40, 2 ** 40), (0, 255)], "float32": [(-2 ** 24, 2 ** 24), (0, 255)]}


def gen_int_case(ctx, nmax):
    """integer-valued diagrams spanning the whole range of a narrow dtype (differences leave the dtype's range;
    exact in double precision, so the value is compared exactly)"""
    r = ctx.rng
    rep = r.choice(["uint8", "uint8", "int8", "int8", "int16", "int32", "int64", "pyint", "float32"])
    lo, hi = r.choice(INT_STREAM[rep])
    dgms = []
    for _ in range(2):
        n = r.choice([0, 1, 1, 2, 3, r.randint(0, nmax)])
        pts = []
        for _ in range(n):
            if pts and r.random() < 0.2:
                pts.append(list(r.choice(pts)))
            else:
                b, d = sorted((r.randint(lo, hi), r.randint(lo, hi)))
                pts.append([float(b), float(d if r.random() < 0.85 else b)])
        dgms.append(pts)
    if dgms[0] and r.random() < 0.3:
        dgms[1] += [list(p) for p in dgms[0] if r.random() < 0.5]
        dgms[1] = dgms[1][:max(nmax, 1)]
    reps = [rep, rep] if r.random() < 0.8 else [rep, r.choice([x for x in REPS if rep_ok(dgms[1], x)])]
    return {"dgm1": dgms[0], "dgm2": dgms[1], "mode": "int", "shape1": r.randint(0, 2), "shape2": r.randint(0, 2),
            "rep": reps, "below": False, "infs": 0}


def gen_nested_case(ctx, nmax):
    """non-dyadic (one/two-decimal or uniform) diagrams whose second side is the first with points moved CONCENTRICALLY:
    birth one way and death the other by the same amount e (nested intervals, so |b-b'| = |d-d'| = e and the two
    persistences differ by exactly 2e up to rounding), besides plain shifts, kept, dropped and new points.  The
    deciding cost then ties with half a persistence difference, where a bound computed in floating point without
    slack lands one ulp on the wrong side"""
    g, r = ctx.gen, ctx.rng
    mode = r.choice(["dec", "dec", "unif"])
    n = r.choice([1, 1, 2, 3, r.randint(1, max(1, nmax))])
    d1 = [g.bar(mode, allow_diag=False) for _ in range(n)]
    d2 = []
    for b, d in d1:
        e = round(r.uniform(0.05, 0.6), r.choice([1, 1, 2])) or 0.1
        u = r.random()
        if u < 0.45:
            d2.append([b - e, d + e])
        elif u < 0.7:
            d2.append([b + e, d - e] if b + e <= d - e else [b - e, d + e])
        elif u < 0.8:
            d2.append([b + e, d + e])
        elif u < 0.9:
            d2.append([b, d])
        elif u < 0.95:
            d2.append(g.bar(mode, allow_diag=True))
    r.shuffle(d2)
    d2 = d2[:max(nmax, 1)]
    if r.random() < 0.5:
        d1, d2 = d2, d1
    ctx.count("gen:nested_nondyadic")
    return {"dgm1": d1, "dgm2": d2, "mode": mode, "shape1": r.randint(0, 2), "shape2": r.randint(0, 2),
            "rep": [r.choice(["float64", "list", "tuple"]), r.choice(["float64", "list", "tuple"])], "below": False, "infs": 0}


def gen_case(ctx, nmax, below=False, nmin=0):
    g, r = ctx.gen, ctx.rng
    if not below and not nmin:
        u = r.random()
        if u < 0.12:
            return gen_int_case(ctx, nmax)
        if u < 0.19:
            return gen_nested_case(ctx, nmax)
    mode = r.choice(["lattice", "lattice", "half", "dyadic", "dec", "unif"])
    sizes = []
    for _ in range(2):
        u = r.random()
        sizes.append(r.randint(nmin, nmax) if nmin else
                     0 if u < 0.08 else r.randint(1, min(3, nmax)) if u < 0.35 else r.randint(0, nmax))
    dgms = []
    for n in sizes:
        pts = []
        for _ in range(n):
            if pts and r.random() < 0.2:
                pts.append(list(r.choice(pts)))
            else:
                pts.append(g.bar(mode, allow_diag=True))
        dgms.append(pts)
    if r.random() < 0.3:                       # make the two diagrams share points (zero costs, more ties)
        for p in dgms[0]:
            if r.random() < 0.5:
                dgms[1].append(list(p))
        if not nmin:
            dgms[1] = dgms[1][:nmax]
    sc = 1.0
    if mode != "dyadic" and r.random() < 0.2:
        sc = 2.0 ** r.choice([-20, 20])
        dgms = [[[x * sc for x in p] for p in d] for d in dgms]
    infs = 0
    if r.random() < 0.25:
        for d in dgms:
            for k in range(r.randint(0, 2)):
                bad = r.choice([math.inf] * 8 + [-math.inf, math.nan])
                d.insert(r.randint(0, len(d)), [g.coord(mode) * sc, bad])
                infs += 1
    if below:
        for d in dgms:
            for p in d:
                if math.isfinite(p[1]) and r.random() < 0.4:
                    p[0], p[1] = p[1], p[0]
    if r.random() < 0.1:
        dgms = [[p + [float(r.randint(0, 9))] for p in d] for d in dgms]
    # representation of the two arguments: every one that can hold the numbers unchanged is eligible (narrow and
    # unsigned integer dtypes for small non-negative integer coordinates, float32, lists, tuples, Python ints)
    reps = []
    for d in dgms:
        ok = reps_for(d)
        narrow = [x for x in ok if x not in ("float64", "list", "tuple")]
        reps.append(r.choice(narrow) if narrow and r.random() < 0.6 else r.choice(["float64", "float64", "list", "tuple"]))
    if reps[0] in reps_for(dgms[1]) and r.random() < 0.6:
        reps[1] = reps[0]                       # the same dtype on both sides: no promotion to a wider one
    return {"dgm1": dgms[0], "dgm2": dgms[1], "mode": mode, "shape1": r.randint(0, 2), "shape2": r.randint(0, 2),
            "rep": reps, "below": below, "infs": infs}


CORPUS = [
    {"dgm1": [[6, 9], [6, 8]], "dgm2": [[4, 10], [9, 10]], "mode": "lattice"},            # test_2x2_bisect_bug
    {"dgm1": [[0, 1], [0, 1]], "dgm2": [[0, 1]], "mode": "lattice"},                        # issue 44, repeated
    {"dgm1": [[0, 10]], "dgm2": [[5, 5]], "mode": "lattice"},                               # issue 70, diagonal point
    {"dgm1": [[1, 2]], "dgm2": [], "mode": "lattice", "shape2": 2},                         # np.array([[]])
    {"dgm1": [], "dgm2": [], "mode": "lattice"},
    {"dgm1": [[0, math.inf]], "dgm2": [[1, 2]], "mode": "lattice"},
    {"dgm1": [[1, 2]], "dgm2": [[0, math.inf], [3, math.inf]], "mode": "lattice"},
    {"dgm1": [[0, math.inf]], "dgm2": [[0, math.inf]], "mode": "lattice"},
    {"dgm1": [[0, 4], [1, 3], [2, 6]], "dgm2": [[0, 3], [1, 4], [2, 5], [1, 3]], "mode": "lattice"},  # tie-heavy 3x4
    {"dgm1": [[0.5, 1], [0.6, 1.1]], "dgm2": [[0.5, 1.1]], "mode": "dec"},
    {"dgm1": [[0, 0], [1, 1], [2, 2]], "dgm2": [[3, 3]], "mode": "lattice"},               # only diagonal points
    {"dgm1": [[0, 2 ** 20]], "dgm2": [[2 ** -20, 2 ** -19]], "mode": "dyadic"},
    {"dgm1": [], "dgm2": [[1, 2]], "mode": "lattice", "rep": ["list", "list"], "shape1": 2},     # [[]]
    {"dgm1": [], "dgm2": [], "mode": "lattice", "shape1": 0, "shape2": 2},                        # np.array([]) vs np.array([[]])
    {"dgm1": [[0, 3]], "dgm2": [], "mode": "lattice", "rep": ["tuple", "tuple"], "shape2": 2},   # ((),)
    {"dgm1": [[0.2, 0.9]], "dgm2": [[0.1, 1.0]], "mode": "dec"},                                  # nested, one-decimal: 0.1
]


def norm_case(c):
    out = {"dgm1": [list(map(float, p)) for p in c["dgm1"]], "dgm2": [list(map(float, p)) for p in c["dgm2"]]}
    for k in ("mode", "shape1", "shape2", "int", "rep", "below", "infs", "law"):
        if k in c:
            out[k] = c[k]
    out.setdefault("mode", "unif")
    return out


def scale_of(case):
    """largest |coordinate| — NOT floored at 1 (a floor makes small-scale inexact cases 1e-4-relative); 1e-300 only
    keeps the all-zero case away from a zero tolerance"""
    return max([abs(x) for d in (case["dgm1"], case["dgm2"]) for p in d for x in p[:2] if math.isfinite(x)] + [1e-300])


def same_value(code, truth, case):
    """CORRESPONDENCE code vs model.  code: float, truth: Fraction — exact on dyadic inputs, 1e-9*scale otherwise"""
    if case.get("mode") in EXACT_MODES:
        return math.isfinite(code) and Fraction(code) == truth
    return math.isfinite(code) and abs(code - float(truth)) <= TOL * scale_of(case)


def value_holds(code, truth, case):
    """VERDICT on the property: the returned value is the min-max cost up to rounding, 1e-9 * largest |coordinate| in
    every mode (bit-for-bit equality on dyadic inputs is a correspondence-level signal only, see same_value)"""
    return math.isfinite(code) and abs(Fraction(code) - truth) <= Fraction(TOL * scale_of(case))


def wants_warning(case):
    """the clause 'points with infinite death are dropped with a warning' applies: some death is +inf"""
    return any(p[1] == math.inf for p in case["dgm1"] + case["dgm2"])


def verdict(case, code, truth):
    """the property as stated, on the real code's outcome `code` for an input inside the quantifier ->
    (holds, reason).  A warning of ANY text/category satisfies the warning clause; no clause forbids a warning."""
    if code[0] != "ok":
        return False, "the code raised %s" % code[1]
    if not value_holds(code[1], truth, case):
        return False, "value %r, min-max matching cost %s" % (code[1], truth)
    if wants_warning(case) and not code[6]:
        return False, "a point with infinite death was dropped without any warning"
    return True, ""


# ----------------------------------------------------------------------------- protocol lines for one case

def probe_lines(probes):
    """re-check every Hopcroft–Karp probe: is a matching of its graph, of the claimed size; maximal (cover)"""
    lines, pyfail = [], None
    for graph, res in probes:
        n = len(graph)
        adj = [sorted(graph.get(str(i), ())) for i in range(n)]
        left = {k: v for k, v in res.items() if isinstance(k, str)}
        if len(res) != 2 * len(left) or any(res.get(v) != k for k, v in left.items()):
            pyfail = "result of maximum_matching is not a two-way dict"
        pairs = sorted([int(k), int(v)] for k, v in left.items())
        k = len(res) // 2
        lines.append(("match", "cert.matching %s %s %d" % (enc(adj), enc(pairs), k)))
        if k < n:
            col_of_row = [-1] * n
            for i, j in pairs:
                if 0 <= i < n:
                    col_of_row[i] = j
            R, C = koenig(adj, n, col_of_row)
            lines.append(("cover", "cert.cover %s %s %s %d" % (enc(adj), enc(R), enc(C), k)))
    return lines, pyfail


def tie_lines(case, code):
    """probe-level tie: the model's candidate list and, for every Hopcroft–Karp probe of the real run, the model's
    threshold graph at the threshold the code used -> ([(kind, probe index, line)], reason it is not possible)"""
    if code[0] != "ok":
        return [], None
    rec = code[5]
    if rec.ds is None or len(rec.thr) != len(code[4]) or any(d is None or math.isnan(d) for d in rec.thr) \
            or any(math.isnan(x) for x in rec.ds):
        return [], "unobserved"
    a, b = enc(case["dgm1"]), enc(case["dgm2"])
    out = [("cands", None, "cands %s %s" % (a, b))]
    exact = case.get("mode") in EXACT_MODES
    tol = Fraction(TOL * scale_of(case))
    for k, d in enumerate(rec.thr):
        if exact or math.isinf(d):
            out.append(("thr", k, "thr %s %s %s" % (a, b, enc(d))))
        else:       # rounding may move an entry across d: the code's graph must lie between the model's at d -+ tol
            out.append(("thr_lo", k, "thr %s %s %s" % (a, b, enc(Fraction(d) - tol))))
            out.append(("thr_hi", k, "thr %s %s %s" % (a, b, enc(Fraction(d) + tol))))
    return out, None


def tie_check(case, code, tie_idx, answers):
    """None, or a description of the first place where the real run and the model differ at probe level"""
    rec = code[5]
    exact = case.get("mode") in EXACT_MODES
    tol = TOL * scale_of(case)
    for kind, k, i in tie_idx:
        ans = answers[i]
        if not isinstance(ans, list):
            raise HarnessError("model driver answered %r for a %s line" % (ans, kind))
        if kind == "cands":
            mine = [float(x) for x in ans]
            if exact:
                same = len(mine) == len(rec.ds) and all(
                    (x == y) if (math.isinf(x) or math.isinf(y)) else Fraction(x) == Fraction(y) for x, y in zip(ans, rec.ds))
            else:
                near = lambda x, ys: any((x == y) if (math.isinf(x) or math.isinf(y)) else abs(x - y) <= tol for y in ys)
                same = all(near(x, mine) for x in rec.ds) and all(near(y, rec.ds) for y in mine)
            if not same:
                return "candidate list: code %r, model %r" % (rec.ds[:12], mine[:12])
            continue
        graph = code[4][k][0]
        n = len(ans)
        adj = [set(int(j) for j in row) for row in ans]
        cg = [set(graph.get(str(r_), ())) for r_ in range(n)]
        if len(graph) != n:
            return "probe %d: the code's graph has %d rows, the model's %d" % (k, len(graph), n)
        if kind == "thr":
            bad = [r_ for r_ in range(n) if cg[r_] != adj[r_]]
        elif kind == "thr_lo":
            bad = [r_ for r_ in range(n) if not adj[r_] <= cg[r_]]
        else:
            bad = [r_ for r_ in range(n) if not cg[r_] <= adj[r_]]
        if bad:
            r_ = bad[0]
            return ("probe %d at d=%r (%s): row %d of the code's threshold graph is %r, the model's %r"
                    % (k, rec.thr[k], {"thr": "exact", "thr_lo": "must contain the model's graph at d-tol",
                                       "thr_hi": "must be inside the model's graph at d+tol"}[kind], r_, sorted(cg[r_]), sorted(adj[r_])))
    return None


def truth_for(case):
    """[certified] exact optimum of the specification for this input, with the protocol line that verifies it"""
    v, pairs, pred, R, C = oracle_opt(case)
    line = "cert.opt %s %s %s %s %s %s %s" % (enc(case["dgm1"]), enc(case["dgm2"]), enc(v), enc(pairs),
                                           enc(pred), enc(R), enc(C))
    return v, line


def small(case):
    return len(finite_part(case["dgm1"])) + len(finite_part(case["dgm2"])) <= 8


# ----------------------------------------------------------------------------- the run

# source translator (DESIGN.md 3.2): part of the model is regenerated from the source text on every run
TRUSTED = list(TRUSTED) + [py2lean.trusted_note("bottleneck"), py2lean.trusted_note("bottleneck_search")]
PROP_FILES = ["PersimVerif/Props/C01.lean"] + py2lean.prop_files("bottleneck") + py2lean.prop_files("bottleneck_search")


def pre_build(ctx):
    """source translator: regenerate Generated/Src*.lean from PERSIM_ROOT's source"""
    py2lean.pre_build(ctx, ("bottleneck", "bottleneck_search"))



DEFAULT_FILTER_STMT = 'persim.bottleneck(np.array([[0.0, 1.0], [0.0, np.inf]]), np.array([[0.0, 2.0]]))'


def default_filter_probe(ctx):
    """[T] the clause `dropped / handled WITH A WARNING` as the caller experiences it: in a fresh interpreter under Python's
    own warning filters (our other streams record with simplefilter("always"), which would hide a filter that `import
    persim` installs), the call must deliver a warning"""
    for prelude in (None, common.WARN_PRELUDE):          # alone, and after other public persim calls in the same process
        res = common.warnings_under_default_filters(DEFAULT_FILTER_STMT, prelude)
        if res is None:
            ctx.count("default_filter_probe:not_run")
            continue
        ctx.test("warning_reaches_caller_under_default_filters", res[0] >= 1)
        if res[0] < 1:
            ctx.violation("no warning reaches the caller under the interpreter's default warning filters%s for: %s"
                          % (" after other persim calls in the same process" if prelude else "", DEFAULT_FILTER_STMT),
                          {"op": "default_filter_probe", "stmt": DEFAULT_FILTER_STMT, "prelude": prelude}, found_input=True)
            return

def run(ctx):
    py2lean.report_broken(ctx, PROP_FILES)
    HANGS[0] = 0
    r = ctx.rng
    ctx.extra["core_theorems"] = CORE_THEOREMS
    cases = [norm_case(c) for c in CORPUS]
    nsmall = ctx.n(1200, 8000)
    nbig = ctx.n(6, 1000)
    for _ in range(nsmall):
        cases.append(gen_case(ctx, 7, below=r.random() < 0.05))
    for _ in range(nbig):
        cases.append(gen_case(ctx, r.choice([12, 20, 40])))
    for _ in range(ctx.n(2, 30)):                 # beyond 40 points in total (25-40 per side, plus shared points)
        cases.append(gen_case(ctx, 40, nmin=25))

    # 1. the real code first (its outputs go into the certificate lines)
    plan, lines = [], []
    cov = common.LineCov(["persim/bottleneck.py"])
    digest = common.source_digest("persim/bottleneck.py", ["bottleneck"])
    ctx.extra["source_digest"] = {"persim/bottleneck.py:bottleneck": digest, "expected": EXPECTED_DIGEST}
    if digest != EXPECTED_DIGEST:                 # rewritten code is explored harder, nothing else (DESIGN 3.2)
        ctx.count("source_digest_changed")
        for _ in range(nsmall):
            cases.append(gen_case(ctx, 7, below=r.random() < 0.05))
    for k, case in enumerate(cases):
        if k < 80:
            with cov:
                code = run_code(case)
        else:
            code = run_code(case)
        ent = {"case": case, "code": code, "idx": {}}
        ent["idx"]["bn"] = len(lines)
        lines.append("bn %s %s" % (enc(case["dgm1"]), enc(case["dgm2"])))
        if guard_ok(case):
            v, ln = truth_for(case)
            ent["truth"] = v
            ent["idx"]["opt"] = len(lines)
            lines.append(ln)
            if small(case):
                ent["idx"]["spec"] = len(lines)
                lines.append("spec.bn %s %s" % (enc(case["dgm1"]), enc(case["dgm2"])))
        pl, pyfail = probe_lines(code[4])
        ent["pyfail"] = pyfail
        ent["probe_idx"] = []
        for kind, ln in pl:
            ent["probe_idx"].append((kind, len(lines)))
            lines.append(ln)
        tl, why = tie_lines(case, code)
        ent["tie_idx"], ent["tie_skipped"] = [], why
        for kind, kprobe, ln in tl:
            ent["tie_idx"].append((kind, kprobe, len(lines)))
            lines.append(ln)
        plan.append(ent)
        if HANGS[0] >= 2:                         # the real code does not terminate: two inputs are enough
            ctx.count("stopped_after_hangs")
            break
    ctx.extra["line_coverage_first_80_cases"] = cov.summary()
    answers = ask(lines)

    # 2. compare
    deferred = []
    for ent in plan:
        case, code = ent["case"], ent["code"]
        fin = len(finite_part(case["dgm1"])) + len(finite_part(case["dgm2"]))
        ctx.case({"dgm1": case["dgm1"], "dgm2": case["dgm2"]}, nontrivial=fin >= 2, sample_every=53)
        ctx.count("mode:" + case.get("mode", "?"))
        for rp in case_reps(case):
            ctx.count("rep:" + str(rp))
        ctx.count("size:%s" % ("0" if fin == 0 else "1-4" if fin <= 4 else "5-8" if fin <= 8 else "9-14" if fin <= 14 else "15-40" if fin <= 40 else "41-80"))
        if not case["dgm1"] or not case["dgm2"]:
            ctx.count("empty_side")
        if case.get("infs"):
            ctx.count("with_nonfinite_death")
        if case.get("below"):
            ctx.count("below_diagonal_stream")
        if not guard_ok(case) and not case.get("below"):
            ctx.count("nan_or_neginf_death(model comparison only)")
        if has_extra_col(case):
            ctx.count("extra_third_column")
        ctx.count("hk_probes", len(code[4]))
        model = answers[ent["idx"]["bn"]]
        if isinstance(model, str):
            raise HarnessError("model driver answered %r for %r" % (model, lines[ent["idx"]["bn"]][:300]))
        mval, mw1, mw2 = model
        # 2a. [certified] truth: the Lean checker must accept the certificate of the independent oracle
        truth = ent.get("truth")
        if truth is not None and answers[ent["idx"]["opt"]] is not True:
            raise HarnessError("optimum certificate of the independent oracle rejected by cert.opt: %r"
                               % (lines[ent["idx"]["opt"]][:400],))
        spec = answers[ent["idx"]["spec"]] if "spec" in ent["idx"] else None
        if spec is not None and truth is not None and spec != truth:
            raise HarnessError("exhaustive spec %r != certified optimum %r on %r" % (spec, truth, case))
        # 2b. correspondence code vs model
        if code[0] != "ok":
            agree = False
        else:
            agree = (isinstance(mval, Fraction) and same_value(code[1], mval, case)) and code[2] == mw1 and code[3] == mw2
        # 2b'. probe-level tie: candidate list and every probed threshold graph against the model's
        tie = None
        if ent["tie_skipped"]:
            ctx.count("probe_tie_not_observable")
        elif ent["tie_idx"]:
            tie = tie_check(case, code, ent["tie_idx"], answers)
            ctx.count("probe_tie_graphs_compared", sum(1 for kd, _, _ in ent["tie_idx"] if kd in ("thr", "thr_lo")))
            ctx.count("probe_tie_exact" if case.get("mode") in EXACT_MODES else "probe_tie_sandwich")
        # 2c. [T] the property on the real code: value = certified optimum (up to rounding), and SOME warning when a
        # point with +inf death was dropped.  Only for inputs inside the quantifier (guard_ok); an input with a further
        # column is judged on its (n,2) part — what the code does with the extra column is a correspondence matter
        prop_ok, why_not, outside = True, "", False
        vcase = case
        if truth is not None:
            prop_ok, why_not = verdict(case, code, truth)
            if not prop_ok and has_extra_col(case):
                vcase = trimmed(case)
                prop_ok, det = check_property(vcase)
                why_not = "%s (the same points as (n,2) diagrams)" % (det,)
                if prop_ok:
                    outside, agree = True, False
                    ctx.count("differs_only_with_extra_column")
            ctx.test("certified_optimum", prop_ok)
            if spec is not None:
                ctx.test("exhaustive_small", prop_ok or (code[0] == "ok" and value_holds(code[1], spec, case)))
        if not prop_ok:
            ctx.violation("bottleneck differs from the min-max matching cost / warning clause (%s): code=%r certified optimum=%s exhaustive=%s model=%r"
                          % (why_not, code[:4], truth, spec, model), slim(vcase), found_input=True,
                          code=repr(code[:4]), spec=str(truth), reproducer=reproducer(vcase))
        elif not agree or tie:
            # correspondence break on an input where the property holds: keep going — a failing input may be among the
            # remaining cases; otherwise fresh inputs are searched after the loop (DESIGN 3.3)
            ctx.count("correspondence_break_property_holds")
            if len(deferred) < 3:
                if not agree:
                    deferred.append((case, "bottleneck differs from the model, property holds on every input tried: code=%r model=%r certified optimum=%s"
                                     % (code[:4], model, truth),
                                     {"correspondence": "bn", "line": lines[ent["idx"]["bn"]][:2000], "code": repr(code[:4]),
                                      "model": repr(model), "case": slim(case)}))
                else:
                    deferred.append((case, "bottleneck takes a different route than the model (same value, property holds on every input tried): " + tie,
                                     {"correspondence": "bn.probes", "line": lines[ent["idx"]["bn"]][:2000], "code": tie,
                                      "model": "see `what`", "case": slim(case)}))
        # 2d. the Hopcroft–Karp contract on every probe of this run
        hk_ok = ent["pyfail"] is None
        for kind, i in ent["probe_idx"]:
            ctx.count("hk_" + kind + "_checks")
            if answers[i] is not True:
                hk_ok = False
        ctx.test("hk_contract", hk_ok)
        if not hk_ok:
            ctx.violation("a Hopcroft–Karp probe broke its contract (not a matching of the claimed size / not maximum) — "
                          "the oracle hypothesis of bottleneck_eq_spec is not certified for this run; value %s"
                          % ("still equals the certified optimum" if prop_ok else "is wrong"),
                          {"correspondence": "hk", "case": slim(case), "pyfail": ent["pyfail"]}, found_input=False)
        if len(ctx.violations) > 5:
            return
    if deferred and not any(found for _, found in ctx.violations):
        if not search_fresh(ctx, deferred[0][0]):
            for _, what, rec_ in deferred:
                ctx.violation(what, rec_, found_input=False)
    if HANGS[0]:                                  # the remaining streams call the real code without a guard (fresh interpreters)
        ctx.count("streams_skipped_after_hang")
        return
    default_filter_probe(ctx)
    matching_flag(ctx, plan)
    hash_seeds(ctx, cases)


def run_with_flag(case):
    """the distance component of bottleneck(..., matching=True): float, or 'err:Kind'"""
    bmod = common.pm("bottleneck")
    a, b = case_args(case)
    with warnings.catch_warnings():
        warnings.simplefilter("ignore")
        with np.errstate(all="ignore"):
            try:
                return float(guarded(bmod.bottleneck, a, b, matching=True)[0])
            except Exception as e:
                return "err:" + type(e).__name__


def flag_law(case, plain, v):
    """'same' (bit-identical), 'rounding' (equal up to 1e-9*scale: correspondence-level only) or 'differs'"""
    if isinstance(v, float) and (v == plain or (math.isnan(v) and math.isnan(plain))):
        return "same"
    if isinstance(v, float) and math.isfinite(v) and math.isfinite(plain) and abs(v - plain) <= TOL * scale_of(case):
        return "rounding"
    return "differs"


def matching_flag(ctx, plan):
    """[T] `matching=True` returns the same distance (theorem matching_flag_value on the model).  Verdict: equal up to
    rounding on inputs inside the quantifier; bit-identity (which the model has) is reported as a correspondence break"""
    noted = False
    for ent in plan[:ctx.n(150, 800)]:
        case, code = ent["case"], ent["code"]
        if code[0] != "ok":
            continue
        v = run_with_flag(case)
        how = flag_law(case, code[1], v)
        inside = guard_ok(case) and not has_extra_col(case)
        ctx.test("matching_flag_same_value", how != "differs" or not inside)
        if how == "same":
            continue
        what = ("bottleneck(..., matching=True) returns distance %r, without the flag %r (certified optimum %s)"
                % (v, code[1], ent.get("truth")))
        if how == "differs" and inside:
            ctx.violation(what, dict(slim(case), law="matching_flag"), found_input=True, reproducer=reproducer(case))
            return
        if not noted:
            noted = True
            ctx.violation(what + (" — equal up to rounding, the model's two values are identical" if how == "rounding"
                                  else " — on an input outside the property's quantifier (NaN/-inf death, point below "
                                       "the diagonal or a third column)"),
                          {"correspondence": "bn.matching_flag", "line": "bn %s %s" % (enc(case["dgm1"]), enc(case["dgm2"])),
                           "code": repr(v), "model": repr(code[1]), "case": dict(slim(case), law="matching_flag")}, found_input=False)


def slim(case):
    return {k: case[k] for k in ("dgm1", "dgm2", "mode", "shape1", "shape2", "int", "rep", "law") if k in case}


def _literal(d, rep, shape_kind=0):
    if not rep_ok(d, rep):
        rep = "float64"
    if rep in ("list", "tuple", "pyint"):
        return repr(to_array(d, shape_kind, rep))
    if not d:
        return ["np.array([], dtype=np.%s)", "np.zeros((0, 2), dtype=np.%s)", "np.array([[]], dtype=np.%s)"][shape_kind % 3] % rep
    width = max(2, len(d[0]) if d else 2)
    return "np.array(%r, dtype=np.%s).reshape(-1, %d)" % (json.loads(json.dumps(common.sanitize(d))), rep, width)


def reproducer(case):
    r1, r2 = case_reps(case)
    return ("import numpy as np; from persim.bottleneck import bottleneck; print(bottleneck(%s, %s))"
            % (_literal(case["dgm1"], r1, case.get("shape1", 0)), _literal(case["dgm2"], r2, case.get("shape2", 0)))
            ).replace("'inf'", "np.inf").replace("'nan'", "np.nan").replace("'-inf'", "-np.inf")


def check_property(case):
    """the property on the real code for one input, decided by the specification (exhaustive when small, certified
    optimum always) -> (holds, details).  An input with further columns is judged on its (n,2) part when the verdict
    on the input as given is negative (the statement quantifies over (n,2) diagrams)."""
    code = run_code(case, record=False)
    v, ln = truth_for(case)
    lines = [ln]
    if small(case):
        lines.append("spec.bn %s %s" % (enc(case["dgm1"]), enc(case["dgm2"])))
    ans = ask(lines)
    if ans[0] is not True:
        raise HarnessError("optimum certificate rejected: %r" % (ln[:400],))
    if len(ans) > 1 and ans[1] != v:
        raise HarnessError("exhaustive spec %r != certified optimum %r" % (ans[1], v))
    ok, why = verdict(case, code, v)
    det = {"code": repr(code[:4]), "spec": str(v), "exhaustive": str(ans[1]) if len(ans) > 1 else None}
    if why:
        det["why"] = why
    if not ok and has_extra_col(case):
        ok, det2 = check_property(trimmed(case))
        det2["with_extra_column"] = det
        return ok, det2
    return ok, det


def search_fresh(ctx, case):
    """the correspondence broke on `case` but the property held there: look for a failing input among shrunk
    variants of the case and fresh small inputs (specification evaluated, not the model)"""
    r = ctx.rng
    tried = []
    if guard_ok(case):
        for k in range(len(case["dgm1"])):
            tried.append(dict(case, dgm1=case["dgm1"][:k] + case["dgm1"][k + 1:]))
        for k in range(len(case["dgm2"])):
            tried.append(dict(case, dgm2=case["dgm2"][:k] + case["dgm2"][k + 1:]))
    for _ in range(ctx.n(150, 600)):
        tried.append(gen_case(ctx, 4))
    for c in tried[:800]:
        if not guard_ok(c):
            continue
        ok, det = check_property(c)
        ctx.count("search_cases")
        if not ok:
            if "with_extra_column" in det:
                c = trimmed(c)
            ctx.violation("bottleneck differs from the min-max matching cost (found while searching after a model disagreement): %r"
                          % (det,), slim(c), found_input=True, reproducer=reproducer(c), **det)
            return True
    return False


# ----------------------------------------------------------------------------- hash seeds

CHILD = r"""
import sys, os, json, warnings
sys.dont_write_bytecode = True
sys.path.insert(0, sys.argv[1])
import numpy as np
import importlib
import persim
assert os.path.realpath(persim.__file__).startswith(os.path.realpath(sys.argv[1]) + os.sep)
b = importlib.import_module("persim.bottleneck").bottleneck
out = []
for d1, d2 in json.load(sys.stdin):
    with warnings.catch_warnings():
        warnings.simplefilter("ignore")
        a1 = np.array(d1, dtype=float).reshape(-1, 2); a2 = np.array(d2, dtype=float).reshape(-1, 2)
        out.append(float(b(a1, a2)).hex())
print(json.dumps(out))
"""


def hash_seeds(ctx, cases):
    """[T] the value does not depend on the per-process hash seed (iteration order of the string-keyed sets)"""
    r = ctx.rng
    batch = [c for c in cases if c.get("mode") in ("lattice", "half") and not c.get("below")
             and not c.get("infs") and all(len(p) == 2 for p in c["dgm1"] + c["dgm2"])]
    batch = [c for c in batch if len(c["dgm1"]) + len(c["dgm2"]) >= 3][:ctx.n(60, 300)]
    if not batch:
        return
    payload = json.dumps([[c["dgm1"], c["dgm2"]] for c in batch])
    here = [run_code(c, record=False)[1] for c in batch]
    seeds = [0, 1, 4242] if not ctx.thorough else [0, 1, 4242] + [r.randint(2, 2 ** 32 - 1) for _ in range(21)]
    for s in seeds:
        env = dict(os.environ, PYTHONHASHSEED=str(s), PERSIM_VERIF="1")
        p = subprocess.run([sys.executable, "-c", CHILD, common.REPO], input=payload.encode(), env=env,
                           stdout=subprocess.PIPE, stderr=subprocess.PIPE, timeout=900)
        if p.returncode != 0:
            raise HarnessError("hash-seed child failed: %s" % p.stderr.decode()[-1500:])
        vals = [float.fromhex(x) for x in json.loads(p.stdout.decode())]
        for c, v0, v in zip(batch, here, vals):
            ok = v == v0
            ctx.test("hash_seed", ok)
            if not ok:
                holds, det = check_property(c)
                ctx.violation("bottleneck value depends on PYTHONHASHSEED: %r in this process, %r under seed %d (%s)"
                              % (v0, v, s, det), dict(slim(c), hashseed=s), found_input=True, reproducer=
                              "PYTHONHASHSEED=%d python -c %r" % (s, reproducer(c)))
                return
    ctx.extra["hash_seeds"] = seeds
    ctx.extra["hash_seed_batch"] = len(batch)


def replay(ctx, rep):
    if rep["case"].get("op") == "default_filter_probe":
        res = common.warnings_under_default_filters(rep["case"]["stmt"], rep["case"].get("prelude"))
        print("warnings delivered under default filters:", res)
        return res is None or res[0] >= 1
    c = rep["case"]
    if "dgm1" not in c:
        c = c.get("case", {})
    if "dgm1" not in c:
        print("no input to replay (correspondence-only record): %s" % json.dumps(rep)[:1500])
        return True
    case = norm_case({k: ([[float(x) for x in p] for p in v] if k in ("dgm1", "dgm2") else v) for k, v in c.items()})
    if "hashseed" in c:
        payload = json.dumps([[case["dgm1"], case["dgm2"]]])
        env = dict(os.environ, PYTHONHASHSEED=str(c["hashseed"]))
        p = subprocess.run([sys.executable, "-c", CHILD, common.REPO], input=payload.encode(), env=env, stdout=subprocess.PIPE)
        v = float.fromhex(json.loads(p.stdout.decode())[0])
        v0 = run_code(case, record=False)[1]
        print("this process:", v0, " under PYTHONHASHSEED=%s:" % c["hashseed"], v)
        return v == v0
    if not guard_ok(case):
        print("input has a point below the diagonal or a NaN/-inf death: outside the quantifier of the property")
        return True
    if c.get("law") == "matching_flag":
        plain = run_code(case, record=False)
        v = run_with_flag(case)
        print("without the flag:", plain[:2], " with matching=True:", v)
        if plain[0] != "ok":
            return check_property(case)[0]
        how = flag_law(case, plain[1], v)
        print("the two distances are", {"same": "bit-identical", "rounding": "equal up to rounding (1e-9*scale)", "differs": "different"}[how])
        return how != "differs"
    ok, det = check_property(case)
    print("code:", det["code"], "\ncertified optimum:", det["spec"], "\nexhaustive:", det["exhaustive"], "\n" + det.get("why", ""))
    return ok


MANIFEST = {
    "text": "Proof (23 theorems, of which 3 are the core statements: bottleneck_eq_spec, oracle_irrelevant, inf_dropped; the rest are the "
            "steps they are proved from, checker soundness and concrete instances): Lean theorems about the model of persim.bottleneck.bottleneck over any linear ordered field, for diagrams of every "
            "size (including empty sides), repeated/diagonal points and ties: the bisect loop returns the least feasible candidate "
            "(bsearch_least), feasibility is monotone, the threshold graph of the augmented matrix has a perfect matching iff some "
            "partial matching has all pairings within d (aug_perfect_iff_pm), hence for EVERY oracle returning a maximum matching the "
            "returned value is the min-max matching cost of Spec/Matching.lean (bottleneck_eq_spec) — so it cannot depend on which "
            "maximum matching, i.e. on the hash seed (oracle_irrelevant); non-finite deaths are dropped and flagged (inf_dropped). "
            "The model is tied to the code on every run by executing it at exact rationals against the real function (value exact "
            "on dyadic and integer inputs, warning flags; arguments in every representation — float64/float32/integer arrays incl. uint8/int8, "
            "lists, tuples, Python ints — the model being dtype-free), and at probe level: the candidate list and the threshold graph of every "
            "Hopcroft–Karp probe of the real run equal the model's; the real value is additionally checked against the exhaustive specification "
            "(M+N<=8) and against an optimum certificate verified by Lean-proved checkers (cover_cert_sound, cert_opt_sound) at every size.",
    "note": "Trusted: Lean kernel + Mathlib, axioms propext/Classical.choice/Quot.sound; the correspondence harness; exact-arithmetic "
            "idealisation (float rounding only in the [T] comparison). The Hopcroft–Karp routine is NOT verified: its contract "
            "(returns a maximum-cardinality matching) is a parameter of the theorems and is certified per run — every probe of the "
            "real run is re-checked to be a matching of the claimed size and its maximality is certified by a König vertex cover "
            "verified by the Lean checker. The driver's own oracle is untrusted too: `bn` answers only values its verified "
            "certificate checker accepts. [T]: hash-seed subprocess runs, exhaustive/certified comparison on the real code. "
            "A failing input is claimed only inside the statement's quantifier (finite births, deaths finite or +inf, birth <= death, "
            "(n,2) or empty in any accepted form): the call returns, the value is within 1e-9*largest |coordinate| of the certified optimum "
            "and SOME warning is raised when a +inf death is dropped; warning wording, NaN/-inf deaths, a third column and bit-for-bit "
            "equality are compared with the model only (correspondence breaks).",
    "technique": "Lean 4 theorems over a hand-written model (oracle as parameter) + differential correspondence + verified certificate checkers",
}
MANIFEST["note"] += " " + py2lean.manifest_note("bottleneck") + " " + py2lean.manifest_note("bottleneck_search")
