"""C13 — the Gaussian / uniform kernels are valid, accurate cumulative distribution functions.

PROOF PART (Lean): lean/PersimVerif/Props/C13.lean — the uniform kernel completely (range, monotone, tails,
rectangle mass, product of clamps, = Lebesgue measure of box ∩ quadrant / area), the product form for every
monotone Φ into [0,1] (range, monotone, rectangle mass, the zero-covariance dispatch), and
lean/PersimVerif/Generated/KernelConsts.lean — the constants of `gauss_legendre_quad`/`bvn_cdf`, re-extracted
from the source by harness/translator/consts.py on every run (`pre_build`) with their obligations.

NOT PROVED (DESIGN.md 6/C13, 8): that the Drezner–Wesolowsky/Genz quadrature and expansion approximate the
bivariate normal CDF to 1e-7, stay in [0,1] and are monotone for r != 0.  For that clause the model is a
transcription of the algorithm at Float (driver ops `ker.*`), tied to the code by correspondence (1e-12), and
accuracy/validity are [T] streams on the REAL code against references that do not use the algorithm.
"""
import math
import numpy as np
from fractions import Fraction
from .. import common
from ..translator import py2lean
from ..common import enc, ask, close, call
from ..translator import consts

LEVEL = "proof"
PROP_FILES = ["PersimVerif/Props/C13.lean", "PersimVerif/Generated/KernelConsts.lean", py2lean.prop_file("kernels")]
RULE = ("kernel parameter sets from one PRNG: correlation r from a ladder on both sides of 0.3/0.75/0.925 (exactly at, one ulp "
        "below/above, +-1e-4), +-, |r| up to 0.99999, 1-1e-5..1-1e-1, 1-1e-15..1-1e-8 and the largest double below 1, and uniform; variances 1e-4..1e4 (decimal and powers of 4) and 1e-14..1e-6, means of either "
        "sign and scale; evaluation points mu + t*sd with t from {0, +-tiny, uniform +-3, uniform +-12, lines dh=dk / dh=-dk, "
        "hk<-100 corners}; uniform kernel: dyadic boxes/points (exact) and decimal ones; non-trivial = a point strictly inside "
        "the +-12 sd window with r != 0 (gaussian) or strictly inside the box in at least one coordinate (uniform); distinct by "
        "digest of (op, parameters, points)")
ASSUMPTIONS = [
    "inputs are finite floats (NaN propagation of np.maximum/np.minimum is not modelled); evaluation points are arrays (bvn_cdf calls len())",
    "variances positive and |r| < 1 (the property's quantifier); correspondence also runs |r| >= 1 and r = 0 through bvn_cdf",
    "libm exp/sin/asin and the driver's erfc agree with NumPy/scipy.special.erfc to the 1e-12 absolute tolerance of the correspondence "
    "(compared on every case); np.sum's pairwise order vs the model's left fold is inside that tolerance",
    "reference for accuracy: Owen's T-function closed form (scipy.special.owens_t, ndtr), cross-checked on every run against adaptive "
    "integration of phi(u)*Phi((k-r*u)/sqrt(1-r^2)) (scipy.integrate.quad) and against scipy.stats.multivariate_normal.cdf "
    "(abseps=releps=1e-12); a failure is reported only when the adaptive integral confirms it",
    "rounding slack 1e-12 in the [T] validity streams (range, monotonicity, rectangle mass; also the uniform kernel's tails): the code "
    "returns values like -1e-53.  Clauses with a stated accuracy are decided at the statement's 1e-7: tails 0 / 1 at 12 and 38 sd, "
    "marginals, far tails, and the zero-covariance product against Phi(h)Phi(k) with an independent Phi (scipy.special.ndtr).  Tighter "
    "agreement the present code happens to have (tails within 1e-12, the product bit-for-bit equal to the product of its own norm_cdf "
    "values) and the helpers bvn_cdf / sbvn_cdf / norm_cdf / gauss_legendre_quad in the harness's call convention are correspondence "
    "signals: reported as `no-failing-input-found`, never as a failing input",
    "far tails are explored to 1e6 standard deviations, by correspondence and by the far_tails stream (beyond ~1e77 sd the squares in "
    "bvn_cdf overflow; not explored)",
]
TRUSTED = [py2lean.trusted_note("kernels"),
           "harness/translator/consts.py (ast extraction of the Gauss-Legendre tables, thresholds and literals; its output is committed and "
           "re-checked by Lean on every run)",
           "scipy.special.owens_t/ndtr, scipy.integrate.quad, scipy.stats.multivariate_normal as references of the [T] accuracy streams"]
EXPLANATION = ("proof, partial: 'obligations' counts the Lean theorems of Props/C13.lean and the generated constant obligations of "
               "Generated/KernelConsts.lean (coverage.proof_part); the accuracy/validity of the correlated Gaussian kernel is NOT among "
               "them and is reported as test streams on the real code (coverage.test_part / coverage.tests)")
# theorems that carry a clause of the property (of 27 in Props/C13.lean + 18 generated constant obligations); not listed: helpers
# and restatements (uniform_inside, sbvn_rect_eq, gaussian_nonzero_cov_is_bvn, sbvn_mono_real, sbvn_rect_nonneg_real,
# stdNormalCdf_isCdfLike/_tails, cdf_gaussianReal_standardise), regression witnesses about the repaired defects
# (old_cutoff_*, far_tail_fix_is_exact_over_the_reals, bvn_eq_bvnOldTail) and the constant obligations
CORE_THEOREMS = ["PersimVerif.C13." + n for n in (
    "uniform_is_product_clamp", "uniform_range", "uniform_mono", "uniform_tails", "uniform_rect_nonneg", "uniform_is_box_measure",
    "sbvn_range", "sbvn_mono", "sbvn_rect_nonneg", "sbvn_tails", "gaussian_zero_cov_is_product", "gaussian_zero_cov_valid",
    "gaussian_zero_cov_is_bivariate_normal_cdf", "gaussian_is_valid_accurate_cdf_partial")]
# clause by clause: what is a theorem [P] and what is only a test stream on the real code [T]
CLAUSES = {
    "uniform kernel is the CDF of the uniform distribution on the box (range, monotone, tails, rectangle mass, box measure)":
        "[P] for all real inputs with positive sides (uniform_*); additionally [T] uniform_* streams and exact correspondence",
    "gaussian, zero covariance: product of the two marginals":
        "[P] gaussian_zero_cov_is_product; [T] zero_cov_is_product_of_marginals (within 1e-7 of Phi(h)Phi(k); bit-level equality with the "
        "product of the code's own norm_cdf values is a correspondence signal only)",
    "gaussian, zero covariance: values in [0,1], non-decreasing, non-negative rectangle mass, tails 0 and 1":
        "[P] for every monotone Phi into [0,1] (sbvn_range, sbvn_mono, sbvn_rect_nonneg, sbvn_tails, gaussian_zero_cov_valid)",
    "gaussian, zero covariance: agrees with the bivariate normal CDF":
        "[P] with Phi = the standard normal CDF (gaussian_zero_cov_is_bivariate_normal_cdf); that the code's erfc-based norm_cdf is "
        "that Phi is [T] (ker.ncdf correspondence against the driver's erfc, scipy.special.ndtr in zero_cov_is_product_of_marginals)",
    "gaussian, non-zero covariance (bvn_cdf): values in [0,1]": "[T] only: range_[0,1]",
    "gaussian, non-zero covariance: non-decreasing in each argument": "[T] only: monotone_in_x, monotone_in_y",
    "gaussian, non-zero covariance: non-negative mass on every rectangle": "[T] only: rectangle_mass_nonneg",
    "gaussian, non-zero covariance: tends to 0 and 1 in the tails": "[T] only: tails_0_1_and_marginals, far_tails, far_tails_corpus",
    "gaussian, non-zero covariance: agrees with a reference bivariate normal CDF to 1e-7":
        "[T] only: accuracy_vs_owen, accuracy_vs_adaptive_integral, accuracy_vs_scipy_mvn, accuracy_corpus_r>=0.925 "
        "(|r| up to the largest double below 1; scipy's mvn is not available within 1e-7 of |r| = 1)",
    "constants of the algorithm (Gauss-Legendre tables, thresholds, cut-offs)": "[P] regenerated from the source and re-checked on every run",
}

TOL = 1e-12          # correspondence, absolute (DESIGN.md 6/C13)
ACC = 1e-7           # accuracy demanded by the property
SLACK = 1e-12        # rounding slack of the validity streams

R_LADDER = [1e-8, 0.05, 0.1, 0.2, 0.2999, 0.3, 0.3001, 0.4, 0.5, 0.6, 0.7499, 0.75, 0.7501, 0.8, 0.9, 0.9249, 0.925, 0.9251,
            0.93, 0.95, 0.97, 0.99, 0.999, 0.9999, 0.99999]
THRESHOLDS = [0.3, 0.75, 0.925]

# inputs on which the code before /repo 378a266 (`asr > 100`) was wrong by up to 5e-2 / negative (|r| >= 0.925, near the mean)
CORPUS = [
    (0.925, [(0.5, 0.5), (-0.5, 0.3), (1.0, 1.2), (-2.0, -2.0), (3.0, 3.0), (0.0, 0.0)]),
    (0.95, [(0.5, 0.5), (-0.5, 0.3), (1.0, 1.2), (0.1, -0.1)]),
    (-0.95, [(0.5, 0.5), (-0.5, 0.3), (0.2, -0.2)]),
    (0.99, [(0.5, 0.5), (1.0, 1.2), (-2.0, -2.0)]),
    (-0.99999, [(0.5, 0.5), (-0.5, 0.6)]),
]
# far-tail inputs on which the code before /repo 4b6a233 (exp of the unmasked exponent, inf*0) returned NaN; (r, x, y, true value)
FAR_CORPUS = [
    (0.93, 1000.0, -1000.0, 0.0), (0.93, -1000.0, 1000.0, 0.0), (0.93, -1e6, 0.3, 0.0), (0.93, 0.3, -1e6, 0.0),
    (-0.93, 1e6, 1e6, 1.0), (-0.93, -1e6, -1e6, 0.0), (0.925, 200.0, -200.0, 0.0), (0.99999, 1e6, -1e6, 0.0),
    (-0.99999, 2e4, 2e4, 1.0),
]


def K():
    return common.pm("images_kernels")


def n_found(ctx):
    """violations that carry a failing input of the property; correspondence-only reports do not stop the search"""
    return sum(1 for _, f in ctx.violations if f)


_CORR_COUNT = {}


def corr_limited(ctx, key, what, case, limit=2):
    """correspondence-only report (`no-failing-input-found`), at most `limit` per kind; the rest is counted"""
    _CORR_COUNT[key] = _CORR_COUNT.get(key, 0) + 1
    ctx.count("correspondence_only:" + key)
    if _CORR_COUNT[key] <= limit:
        ctx.violation(what, case, found_input=False, correspondence=key)


def pre_build(ctx):
    """translator: regenerate Generated/KernelConsts.lean from PERSIM_ROOT's source (DESIGN.md 3.2)"""
    path, err, ex = consts.generate(common.REPO, common.LEAN_DIR)
    info = {"source": consts.FILE, "output": consts.OUT, "error": err}
    if ex is not None:
        info["rules"] = [{"threshold": None if c[0] is None else str(c[0]), "lg": c[1], "weights": len(c[2]), "nodes": len(c[3])}
                         for c in ex["chain"]]
        info["comparisons"] = ["%s: %s %s %s" % (f, l, o, v) for f, l, o, v in ex["compares"]]
        info["literals"] = {f: len(v) for f, v in ex["literals"].items()}
    ctx.extra["translator"] = info
    ctx.extra["source_digest"] = common.source_digest(consts.FILE)
    py2lean.pre_build(ctx, ("kernels",))     # source translator: uniform, norm_cdf, sbvn_cdf, dispatch of gaussian


# ----------------------------------------------------------------------------- references (independent of the algorithm)

def ref_owen(h, k, rho):
    """bivariate normal CDF at standardised (h,k), correlation rho in (-1,1): Owen (1956)
       Phi2 = (Phi(h)+Phi(k))/2 - T(h,(k-rho h)/(h s)) - T(k,(h-rho k)/(k s)) - [0 or 1/2]"""
    from scipy import special
    h = np.array(h, dtype=float).reshape(-1)
    k = np.array(k, dtype=float).reshape(-1)
    if rho == 0:
        return special.ndtr(h) * special.ndtr(k)
    h = np.where(h == 0, 1e-300, h)
    k = np.where(k == 0, 1e-300, k)
    s = math.sqrt((1.0 - rho) * (1.0 + rho))
    with np.errstate(all="ignore"):
        ah = (k - rho * h) / (h * s)
        ak = (h - rho * k) / (k * s)
        hk_pos = (np.sign(h) * np.sign(k)) > 0
    delta = np.where(hk_pos, 0.0, 0.5)
    return 0.5 * special.ndtr(h) + 0.5 * special.ndtr(k) - special.owens_t(h, ah) - special.owens_t(k, ak) - delta


def ref_quad(h, k, rho):
    """the same value by adaptive integration of the density in one variable; returns (value, error estimate)"""
    from scipy import special, integrate
    h = float(h); k = float(k)
    if rho == 0:
        return float(special.ndtr(h) * special.ndtr(k)), 0.0
    s = math.sqrt((1.0 - rho) * (1.0 + rho))
    f = lambda u: math.exp(-0.5 * u * u) / math.sqrt(2.0 * math.pi) * float(special.ndtr((k - rho * u) / s))
    lo = -40.0
    if h <= lo:
        return 0.0, 0.0
    h = min(h, 40.0)
    c = k / rho
    a = abs(rho)
    cand = [0.0, c, c - 9 * s / a, c + 9 * s / a, c - 2 * s / a, c + 2 * s / a]
    edges = [lo] + sorted(set(p for p in cand if lo < p < h)) + [h]
    tot = err = 0.0
    import warnings
    with warnings.catch_warnings():
        warnings.simplefilter("ignore")
        for a0, b0 in zip(edges[:-1], edges[1:]):
            v, e = integrate.quad(f, a0, b0, epsabs=1e-14, epsrel=1e-13, limit=400)
            tot += v; err += e
    return tot, err


def ref_mvn(h, k, rho):
    """scipy's Genz integrator; None where scipy itself refuses the covariance (|rho| within ~1e-8 of 1: its positive-definiteness
    test fails) - the reference is then simply not available, the adaptive integral still decides"""
    from scipy import stats
    if 1.0 - abs(rho) < 1e-7:
        return None
    try:
        return _ref_mvn(h, k, rho)
    except (np.linalg.LinAlgError, ValueError):
        return None


def _ref_mvn(h, k, rho):
    from scipy import stats
    return float(stats.multivariate_normal.cdf([h, k], mean=[0.0, 0.0], cov=[[1.0, rho], [rho, 1.0]],
                                               abseps=1e-12, releps=1e-12, maxpts=2000000))


def uniform_spec(x, y, mu0, mu1, w, h):
    """CDF of the uniform distribution on the box centred at mu, exactly (Fractions), written from the definition"""
    F = Fraction
    def marg(t, m, l):
        a = F(m) - F(l) / 2
        if F(t) <= a:
            return F(0)
        if F(t) >= a + F(l):
            return F(1)
        return (F(t) - a) / F(l)
    return marg(x, mu0, w) * marg(y, mu1, h)


# ----------------------------------------------------------------------------- generators

def gen_r(ctx):
    r = ctx.rng
    u = r.random()
    if u < 0.10:
        return 0.0
    if u < 0.60:
        v = r.choice(R_LADDER)
    elif u < 0.75:                    # one ulp on either side of a threshold
        t = r.choice(THRESHOLDS)
        v = r.choice([t, math.nextafter(t, 0.0), math.nextafter(t, 1.0)])
    elif u < 0.83:
        v = 1.0 - 10 ** r.uniform(-5, -1)
    elif u < 0.88:                    # the last decades below 1: 1-1e-8 ... 1-1e-15 and the largest double below 1
        v = r.choice([1.0 - 10 ** r.uniform(-15, -8), 1.0 - 1e-8, 1.0 - 1e-10, 1.0 - 1e-12, 1.0 - 1e-15, math.nextafter(1.0, 0.0)])
    else:
        v = r.uniform(0.0, 0.99)
    return v if r.random() < 0.5 else -v


def gen_params(ctx, rho=None, allow_unit=True):
    """(mu0, mu1, sxx, syy, sxy, kind)"""
    r = ctx.rng
    rho = gen_r(ctx) if rho is None else rho
    kind = r.choice(["unit", "pow4", "dec", "dec", "wide", "tiny"]) if allow_unit else r.choice(["dec", "wide", "tiny"])
    if kind == "unit":
        sxx = syy = 1.0
    elif kind == "pow4":              # sqrt(sxx*syy) exact: r = sxy / 2^k exactly
        sxx = 4.0 ** r.randint(-6, 6); syy = 4.0 ** r.randint(-6, 6)
    elif kind == "dec":
        sxx = round(r.uniform(0.05, 20), 3); syy = round(r.uniform(0.05, 20), 3)
    elif kind == "tiny":              # diagrams in small units: variances (and so the covariance) far below 1e-8
        sxx = 10 ** r.uniform(-13, -7); syy = sxx * 10 ** r.uniform(-1, 1)
    else:
        sxx = 10 ** r.uniform(-4, 4); syy = 10 ** r.uniform(-4, 4)
    sxy = rho * math.sqrt(sxx * syy)
    m = r.choice(["zero", "small", "neg", "big"])
    if m == "zero":
        mu0 = mu1 = 0.0
    elif m == "small":
        mu0 = r.uniform(0, 3); mu1 = r.uniform(0, 3)
    elif m == "neg":
        mu0 = -r.uniform(0, 50); mu1 = r.uniform(-50, 50)
    else:
        mu0 = r.uniform(-1, 1) * 1000 * math.sqrt(sxx); mu1 = r.uniform(-1, 1) * 1000 * math.sqrt(syy)
    return mu0, mu1, sxx, syy, sxy, kind


def gen_ts(ctx, n, rho):
    """standardised offsets (t,u) of n evaluation points"""
    r = ctx.rng
    out = []
    for _ in range(n):
        m = r.random()
        if m < 0.08:
            t, u = 0.0, 0.0
        elif m < 0.16:
            t = r.choice([0.0, 1e-9, -1e-9, 1e-3]); u = r.uniform(-3, 3)
        elif m < 0.45:
            t, u = r.uniform(-3, 3), r.uniform(-3, 3)
        elif m < 0.70:
            t, u = r.uniform(-12, 12), r.uniform(-12, 12)
        elif m < 0.80:                 # dh = dk (xmy = 0) or dh = -dk
            t = r.uniform(-6, 6); u = t if r.random() < 0.5 else -t
        elif m < 0.88:                 # hk < -100: opposite far corners
            t = r.choice([-1, 1]) * r.uniform(10.5, 12); u = -t * r.uniform(0.9, 1.0)
        elif m < 0.94:                 # on the ridge k = rho*h
            t = r.uniform(-8, 8); u = rho * t
        else:                          # the window's edge
            t = r.choice([-12.0, 12.0]); u = r.choice([-12.0, 12.0, r.uniform(-12, 12)])
        out.append((t, u) if r.random() < 0.5 else (u, t))
    return out


def points(mu0, mu1, sxx, syy, ts):
    sx, sy = math.sqrt(sxx), math.sqrt(syy)
    return [mu0 + t * sx for t, _ in ts], [mu1 + u * sy for _, u in ts]


def std(xs, ys, mu0, mu1, sxx, syy, sxy):
    """standardised coordinates and correlation as the mathematics defines them"""
    h = (np.array(xs) - mu0) / math.sqrt(sxx)
    k = (np.array(ys) - mu1) / math.sqrt(syy)
    return h, k, sxy / math.sqrt(sxx * syy)


class _Cov:
    """line coverage of the anchored file over the first cases of each correspondence stream"""
    cov = None

    @classmethod
    def get(cls):
        if cls.cov is None:
            cls.cov = common.LineCov([consts.FILE])
        return cls.cov


GAUSS_RAISED = []          # (parameters, exception) of calls that raised on a valid covariance matrix


def code_gauss(xs, ys, mu0, mu1, sxx, syy, sxy):
    with np.errstate(all="ignore"):
        try:
            v = K().gaussian(np.array(xs, dtype=float), np.array(ys, dtype=float), mu=np.array([mu0, mu1]),
                             sigma=np.array([[sxx, sxy], [sxy, syy]]))
        except Exception as e:
            if sxx > 0 and syy > 0 and sxy * sxy < sxx * syy:
                # positive variances and |r| < 1 (the property's quantifier): no value at all is returned.  NaN makes every
                # clause evaluated on this call fail, with these parameters as the failing input
                GAUSS_RAISED.append(((mu0, mu1, sxx, syy, sxy), "%s: %s" % (type(e).__name__, e)))
                return np.full(len(xs), np.nan)
            raise
    return np.array(v, dtype=float).reshape(-1)


def code_uniform(xs, ys, mu0, mu1, w, h):
    with np.errstate(all="ignore"):
        v = K().uniform(np.array(xs, dtype=float), np.array(ys, dtype=float), mu=np.array([mu0, mu1]), width=w, height=h)
    return np.array(v, dtype=float).reshape(-1)


def branch_of(r):
    a = abs(r)
    if r == 0:
        return "r=0"
    return "gl3" if a < 0.3 else "gl6" if a < 0.75 else "gl10" if a < 0.925 else "genz" if a < 1 else "|r|>=1"


# ----------------------------------------------------------------------------- accuracy decision (used by tests and on disagreements)

def confirm_inaccurate(h, k, rho, value):
    """True iff the adaptive integral confirms |value - Phi2(h,k;rho)| > ACC (or the value is not finite)"""
    if not math.isfinite(value):
        return True, None
    q, e = ref_quad(h, k, rho)
    return (abs(value - q) > ACC and e < 1e-9), q


def check_accuracy(ctx, stream, xs, ys, par, vals, what="gaussian"):
    """compare real-code values with the closed-form reference; report confirmed failures.  returns #failures"""
    mu0, mu1, sxx, syy, sxy = par
    h, k, rho = std(xs, ys, mu0, mu1, sxx, syy, sxy)
    if not abs(rho) < 1:
        return 0
    ref = ref_owen(h, k, rho)
    bad = 0
    with np.errstate(all="ignore"):
        d = np.abs(vals - ref)
    for i in range(len(vals)):
        ok = bool(d[i] <= ACC)          # NaN -> False
        if not ok:
            conf, q = confirm_inaccurate(h[i], k[i], rho, float(vals[i]))
            if not conf:
                ctx.count("reference_disagreement_unconfirmed")
                ok = True
            else:
                bad += 1
                if n_found(ctx) <= 5:
                    ctx.violation("%s differs from the bivariate normal CDF by more than 1e-7: code=%r reference(Owen)=%r "
                                  "adaptive integral=%r at standardised (h,k)=(%r,%r), r=%r [%s]"
                                  % (what, float(vals[i]), float(ref[i]), q, float(h[i]), float(k[i]), rho, branch_of(rho)),
                                  {"op": "gauss", "x": [xs[i]], "y": [ys[i]], "mu": [mu0, mu1], "sigma": [sxx, syy, sxy]},
                                  stream=stream)
        ctx.test(stream, ok)
    return bad


# ----------------------------------------------------------------------------- correspondence

def corr_uniform(ctx):
    r = ctx.rng
    cases, lines = [], []
    n = ctx.n(2000, 30000)
    for i in range(n):
        mode = r.choice(["pow2", "dyadic", "dyadic", "dec", "neg"])
        if mode in ("pow2", "dyadic", "neg"):
            q = 2.0 ** r.choice([-10, -4, -1, 0, 3])
            g = lambda lo, hi: r.randint(lo, hi) * q
            if mode == "pow2":
                w = 2.0 ** r.randint(-6, 6); h = 2.0 ** r.randint(-6, 6)
            else:
                w = g(1, 40); h = g(1, 40)
            if mode == "neg" and r.random() < 0.5:
                w = -w
            mu0, mu1 = g(-64, 64), g(-64, 64)
            m = 8
            xs = [mu0 + r.choice([-1, 1]) * r.choice([0.0, abs(w) / 2, abs(w) / 4, g(0, 60), abs(w)]) for _ in range(m)]
            ys = [mu1 + r.choice([-1, 1]) * r.choice([0.0, abs(h) / 2, abs(h) / 4, g(0, 60), abs(h)]) for _ in range(m)]
        else:
            w = round(r.uniform(0.01, 5), 3); h = round(r.uniform(0.01, 5), 3)
            mu0 = round(r.uniform(-10, 10), 2); mu1 = round(r.uniform(-10, 10), 2)
            m = 8
            xs = [mu0 + r.uniform(-1.2, 1.2) * w for _ in range(m)]
            ys = [mu1 + r.uniform(-1.2, 1.2) * h for _ in range(m)]
        args = (enc(xs), enc(ys), enc(mu0), enc(mu1), enc(w), enc(h))
        lines.append("ker.uniform %s %s %s %s %s %s" % args)
        lines.append("ker.uniformf %s %s %s %s %s %s" % args)
        cases.append((mode, xs, ys, mu0, mu1, w, h))
    # the degenerate box (division 0/0): only the Float side, NaN = NaN
    lines.append("ker.uniformf [1,2] [1,2] 0 0 0 1")
    cases.append(("zero-width", [1.0, 2.0], [1.0, 2.0], 0.0, 0.0, 0.0, 1.0))
    ans = ask(lines)
    ai = 0
    cov = _Cov.get()
    for ci, (mode, xs, ys, mu0, mu1, w, h) in enumerate(cases):
        if ci < 60:
            with cov:
                code = code_uniform(xs, ys, mu0, mu1, w, h)
        else:
            code = code_uniform(xs, ys, mu0, mu1, w, h)
        if mode == "zero-width":
            fl = ans[ai]; ai += 1
            rat = None
        else:
            rat, fl = ans[ai], ans[ai + 1]; ai += 2
        inside = any(abs(x - mu0) < abs(w) / 2 for x in xs) or any(abs(y - mu1) < abs(h) / 2 for y in ys)
        ctx.case({"op": "uniform", "mode": mode, "x": xs, "y": ys, "mu": [mu0, mu1], "w": w, "h": h}, inside, sample_every=131)
        ctx.count("uniform:" + mode)
        agree = isinstance(fl, list) and len(fl) == len(code) and all(close(a, b, 0.0) for a, b in zip(code, fl))
        how = "Float model (same IEEE operations)"
        if agree and rat is not None:
            if not (isinstance(rat, list) and len(rat) == len(code)):
                agree = False
            else:
                for c, q in zip(code, rat):
                    c = float(c)
                    if mode == "pow2":                       # every operation of the code is exact here
                        ok = Fraction(c) == q
                    elif mode in ("dyadic", "neg"):          # exact up to the rounding of the final division
                        ok = abs(Fraction(c) - q) <= Fraction(1, 2 ** 52) * max(1, abs(q))
                    else:
                        ok = abs(Fraction(c) - q) <= Fraction(1, 10 ** 12)
                    if not ok:
                        agree = False
                        how = "Rat model"
        if not agree:
            disagreement_uniform(ctx, how, (xs, ys, mu0, mu1, w, h), code, rat, fl)
            if n_found(ctx) > 5:
                return


def disagreement_uniform(ctx, how, case, code, rat, fl):
    """correspondence broke: is the *property* violated?  evaluate the definition of the uniform CDF exactly"""
    xs, ys, mu0, mu1, w, h = case
    bad = None
    if w > 0 and h > 0:
        for i, (x, y) in enumerate(zip(xs, ys)):
            s = uniform_spec(x, y, mu0, mu1, w, h)
            c = float(code[i])
            if not (math.isfinite(c) and abs(Fraction(c) - s) <= Fraction(1, 10 ** 9)):
                bad = (i, c, s)
                break
    if bad:
        i, c, s = bad
        ctx.violation("uniform kernel is not the CDF of the uniform distribution on the box: code=%r definition=%s (=%r) at x=%r y=%r"
                      % (c, s, float(s), xs[i], ys[i]),
                      {"op": "uniform", "x": [xs[i]], "y": [ys[i]], "mu": [mu0, mu1], "w": w, "h": h}, correspondence="ker.uniform")
    else:
        corr_limited(ctx, "ker.uniform", "uniform: code differs from the %s but agrees with the definition on this input" % how,
                     {"correspondence": "ker.uniform", "line": [xs, ys, mu0, mu1, w, h], "code": code.tolist(),
                      "model": [str(q) for q in rat] if isinstance(rat, list) else rat, "model_float": fl})


def corr_gauss(ctx):
    r = ctx.rng
    cases, lines = [], []
    # corpus first: the inputs on which the pre-378a266 code was wrong
    for rho, pts in CORPUS:
        xs = [p[0] for p in pts]; ys = [p[1] for p in pts]
        cases.append(("gauss", xs, ys, 0.0, 0.0, 1.0, 1.0, rho, "corpus"))
        lines.append("ker.gauss %s %s 0 0 1 1 %s" % (enc(xs), enc(ys), enc(rho)))
    # `gaussian(birth, pers)` with mu=None, sigma=None: the standard isotropic normal
    dx = [-3.0, -0.5, 0.0, 0.25, 1.0, 12.0]; dy = [0.5, -0.5, 0.0, 2.0, -1.0, 12.0]
    cases.append(("defaults", dx, dy, 0.0, 0.0, 1.0, 1.0, 0.0, "unit"))
    lines.append("ker.gauss %s %s 0 0 1 1 0" % (enc(dx), enc(dy)))
    for rho, x, y, _ in FAR_CORPUS:
        cases.append(("gauss", [x], [y], 0.0, 0.0, 1.0, 1.0, rho, "far-corpus"))
        lines.append("ker.gauss %s %s 0 0 1 1 %s" % (enc([x]), enc([y]), enc(rho)))
    n = ctx.n(6000, 120000)
    for i in range(n):
        mu0, mu1, sxx, syy, sxy, kind = gen_params(ctx)
        rho_nom = sxy / math.sqrt(sxx * syy)
        ts = gen_ts(ctx, 8, rho_nom)
        if r.random() < 0.15:             # beyond the 12 sd window: far tails in every quadrant
            T = 10 ** r.uniform(1.1, 6)
            c = r.uniform(-3, 3)
            ts = [(-T, c), (c, -T), (-T, -T), (T, T), (T, c), (T, -T), (-T, T), (12.0, -T)]
            kind = "far:" + kind
        xs, ys = points(mu0, mu1, sxx, syy, ts)
        u = r.random()
        if u < 0.70:
            op = "gauss"
        elif u < 0.90:
            op = "bvn"              # bvn_cdf directly (also r = 0 and, rarely, |r| >= 1)
            if r.random() < 0.05:
                sxy = r.choice([-1, 1]) * math.sqrt(sxx * syy) * r.choice([1.0, 1.5])
        else:
            op = "sbvn"
        cases.append((op, xs, ys, mu0, mu1, sxx, syy, sxy, kind))
        if op == "sbvn":
            lines.append("ker.sbvn %s %s %s %s %s %s" % tuple(enc(v) for v in (xs, ys, mu0, mu1, sxx, syy)))
        else:
            lines.append("ker.%s %s %s %s %s %s %s %s" % ((op,) + tuple(enc(v) for v in (xs, ys, mu0, mu1, sxx, syy, sxy))))
    # norm_cdf on a ladder
    zs = [-40.0, -12.0, -8.3, -6.0, -5.9, -3.0, -2.0, -1.99, -1.0, -1e-9, 0.0, 1e-9, 0.5, 1.0, 2.0, 2.01, 3.0, 6.0, 8.3, 12.0, 40.0] + \
         [r.uniform(-12, 12) for _ in range(ctx.n(500, 5000))]
    lines.append("ker.ncdf %s" % enc(zs))
    # gauss_legendre_quad: tables and rule choice at Rat, exactly
    rs = [0.0, 0.2999, 0.3, -0.3, 0.3001, 0.7499, 0.75, -0.75, 0.7501, 0.925, 0.99, -0.1, 1.0, 1.5] + [gen_r(ctx) for _ in range(40)]
    for q in rs:
        lines.append("ker.glq %s" % enc(q))
    ans = ask(lines)
    Kmod = K()
    cov = _Cov.get()
    for idx, ((op, xs, ys, mu0, mu1, sxx, syy, sxy, kind), a) in enumerate(zip(cases, ans)):
        X, Y = np.array(xs, dtype=float), np.array(ys, dtype=float)
        with np.errstate(all="ignore"):
            if idx < 400:
                cov.__enter__()
            try:
                if op == "gauss":
                    code = code_gauss(xs, ys, mu0, mu1, sxx, syy, sxy)
                elif op == "defaults":
                    code = np.array(Kmod.gaussian(X, Y), dtype=float)
                else:
                    # helpers called in the harness's own convention: if the helper is gone / takes other arguments, the same
                    # value is asked of the PUBLIC `gaussian` (inside its domain), and the helper itself is a correspondence matter
                    try:
                        if op == "bvn":
                            code = np.array(Kmod.bvn_cdf(X, Y, mu_x=mu0, mu_y=mu1, sigma_xx=sxx, sigma_yy=syy, sigma_xy=sxy), dtype=float)
                        else:
                            code = np.array(Kmod.sbvn_cdf(X, Y, mu_x=mu0, mu_y=mu1, sigma_x=sxx, sigma_y=syy), dtype=float)
                    except Exception as e:
                        corr_limited(ctx, "helper:" + op, "images_kernels.%s_cdf cannot be called as before (%s: %s); the value is taken "
                                     "from the public gaussian() instead" % (op, type(e).__name__, e), {"correspondence": "helper:" + op}, limit=1)
                        if op == "bvn" and not (sxy != 0.0 and sxy * sxy < sxx * syy):
                            continue                     # r = 0 or |r| >= 1 through bvn_cdf: not reachable through gaussian()
                        code = code_gauss(xs, ys, mu0, mu1, sxx, syy, sxy if op == "bvn" else 0.0)
            finally:
                if idx < 400:
                    cov.__exit__()
        rho = sxy / math.sqrt(sxx * syy)
        br = "product" if (op in ("sbvn", "defaults") or (op == "gauss" and sxy == 0.0)) else branch_of(rho)
        ctx.count("%s:%s" % (op, br))
        ctx.count("variance:" + kind.replace("far:", ""))
        if kind.startswith("far"):
            ctx.count("far_tail_cases")
        for t in THRESHOLDS:
            if abs(abs(rho) - t) <= 1e-15:
                ctx.count("r_within_1ulp_of_%s" % t)
        nontriv = br not in ("product", "r=0")
        ctx.case({"op": op, "x": xs, "y": ys, "mu": [mu0, mu1], "sigma": [sxx, syy, sxy]}, nontriv, sample_every=211)
        agree = isinstance(a, list) and len(a) == len(code) and all(close(c, m, TOL) for c, m in zip(code, a))
        if not agree:
            disagreement_gauss(ctx, op, (xs, ys, mu0, mu1, sxx, syy, sxy), code, a)
            if n_found(ctx) > 5:
                return
    ctx.extra["anchored_line_coverage"] = cov.summary()
    # norm_cdf
    a = ans[len(cases)]
    from scipy import special
    with np.errstate(all="ignore"):
        st, code, _ = call(lambda: np.array(K().norm_cdf(np.array(zs)), dtype=float))
    ctx.case({"op": "ncdf", "n": len(zs)}, True)
    if st == "err" or np.shape(code) != (len(zs),):
        corr_limited(ctx, "helper:norm_cdf", "images_kernels.norm_cdf cannot be called as norm_cdf(array) any more (%s)" % (code,),
                     {"correspondence": "helper:norm_cdf"}, limit=1)
    elif not (isinstance(a, list) and len(a) == len(zs) and all(close(c, m, TOL) for c, m in zip(code, a))):
        i = next((i for i in range(len(zs)) if not (isinstance(a, list) and i < len(a) and close(code[i], a[i], TOL))), 0)
        wrong = abs(float(code[i]) - float(special.ndtr(zs[i]))) > ACC
        ctx.violation("norm_cdf(%r): code=%r model=%r scipy.special.ndtr=%r" % (zs[i], float(code[i]), a[i] if isinstance(a, list) else a,
                                                                            float(special.ndtr(zs[i]))),
                      {"op": "ncdf", "x": [zs[i]]} if wrong else
                      {"correspondence": "ker.ncdf", "line": zs[i], "code": float(code[i]), "model": a[i] if isinstance(a, list) else a},
                      found_input=wrong)
    # gauss_legendre_quad
    for q, a in zip(rs, ans[len(cases) + 1:]):
        st, v, _ = call(lambda: K().gauss_legendre_quad(q))
        if st == "err" or not (isinstance(v, tuple) and len(v) == 3):
            corr_limited(ctx, "helper:gauss_legendre_quad", "images_kernels.gauss_legendre_quad(r) cannot be called as before (%s)" % (v,),
                         {"correspondence": "helper:gauss_legendre_quad"}, limit=1)
            break
        lg, w, x = v
        ctx.case({"op": "glq", "r": q}, True)
        ctx.count("glq:lg=%d" % lg)
        # the decimal literals of the source, read back from the floats: repr round-trips to the shortest decimal, and the
        # model's exact rational must round to the same double
        ok = isinstance(a, list) and len(a) == 3 and int(a[0]) == lg and len(a[1]) == len(w) and len(a[2]) == len(x) and \
            all(float(m) == float(c) for m, c in zip(a[1], w)) and all(float(m) == float(c) for m, c in zip(a[2], x))
        if not ok:
            ctx.violation("gauss_legendre_quad(%r) returns a different rule than the model (lg=%r)" % (q, lg),
                          {"correspondence": "ker.glq", "line": q, "code": [lg, list(map(float, w)), list(map(float, x))],
                           "model": [str(v) for v in a] if isinstance(a, list) else a}, found_input=False)
            break


def disagreement_gauss(ctx, op, case, code, model):
    """correspondence broke: does the *property* fail on the real code?  compare with the references"""
    xs, ys, mu0, mu1, sxx, syy, sxy = case
    h, k, rho = std(xs, ys, mu0, mu1, sxx, syy, sxy if op != "sbvn" else 0.0)
    found = None
    if abs(rho) < 1:
        ref = ref_owen(h, k, rho)
        for i in range(len(code)):
            c = float(code[i])
            if not (math.isfinite(c) and abs(c - ref[i]) <= ACC):
                conf, q = confirm_inaccurate(h[i], k[i], rho, c)
                if conf:
                    found = (i, c, float(ref[i]), q)
                    break
    if found:
        i, c, rf, q = found
        ctx.violation("%s differs from the bivariate normal CDF by more than 1e-7 (and from the model): code=%r reference=%r "
                      "adaptive integral=%r model=%r, r=%r [%s]" % (op, c, rf, q, model[i] if isinstance(model, list) else model,
                                                                     rho, branch_of(rho)),
                      {"op": op, "x": [xs[i]], "y": [ys[i]], "mu": [mu0, mu1], "sigma": [sxx, syy, sxy]}, correspondence="ker." + op)
    else:
        d = max((abs(float(c) - float(m)) for c, m in zip(code, model)), default=None) if isinstance(model, list) else None
        corr_limited(ctx, "ker." + op, "%s: code differs from the Float transcription by %r (> 1e-12) but is within 1e-7 of the reference "
                     "on this input" % (op, d),
                     {"correspondence": "ker." + op, "line": [xs, ys, mu0, mu1, sxx, syy, sxy], "code": code.tolist(), "model": model})


# ----------------------------------------------------------------------------- [T] streams on the real code

_CORR_SEEN = set()


def corr_once(ctx, key, what, case):
    """a difference where the statement does not decide (tighter-than-stated agreement, the code's own helper): reported once per
       kind as a correspondence break, never as a failing input"""
    ctx.count("correspondence_only:" + key)
    if key in _CORR_SEEN:
        return
    _CORR_SEEN.add(key)
    ctx.violation(what, case, found_input=False, correspondence=key)


def tails_ok(v, c):
    """the tails clause on the 17 values of the tails stream (8 low-tail points, the upper corner, 8 marginal points at offsets c):
       -> (within the statement's 1e-7 of 0 / 1 / the marginal, low tails and corner also within the 1e-12 the present code achieves)"""
    from scipy import special
    v = np.asarray(v, dtype=float)
    marg = special.ndtr(np.array(list(c) + list(c)))
    with np.errstate(all="ignore"):
        fin = bool(np.all(np.isfinite(v)))
        ok = fin and bool(np.all(np.abs(v[:8]) <= ACC)) and bool(abs(v[8] - 1.0) <= ACC) and bool(np.all(np.abs(v[9:] - marg) <= ACC))
        tight = ok and bool(np.all(np.abs(v[:8]) <= SLACK)) and bool(abs(v[8] - 1.0) <= SLACK)
    return ok, tight

def t_gauss(ctx):
    """accuracy and validity of `gaussian` on the real code (the clauses no theorem decides)"""
    r = ctx.rng
    from scipy import special
    # --- corpus: pre-fix failing inputs
    for rho, pts in CORPUS:
        xs = [p[0] for p in pts]; ys = [p[1] for p in pts]
        v = code_gauss(xs, ys, 0.0, 0.0, 1.0, 1.0, rho)
        check_accuracy(ctx, "accuracy_corpus_r>=0.925", xs, ys, (0.0, 0.0, 1.0, 1.0, rho), v)
        if n_found(ctx) > 5:
            return
    # --- accuracy vs the closed form, range
    nsets = ctx.n(3000, 50000)
    m = 48
    for i in range(nsets):
        mu0, mu1, sxx, syy, sxy, kind = gen_params(ctx)
        rho = sxy / math.sqrt(sxx * syy)
        if not abs(rho) < 1:
            continue
        ts = gen_ts(ctx, m, rho)
        xs, ys = points(mu0, mu1, sxx, syy, ts)
        v = code_gauss(xs, ys, mu0, mu1, sxx, syy, sxy)
        ctx.count("accuracy_sets:" + branch_of(rho))
        check_accuracy(ctx, "accuracy_vs_owen", xs, ys, (mu0, mu1, sxx, syy, sxy), v)
        inr = bool(np.all((v >= -SLACK) & (v <= 1 + SLACK)))
        ctx.test("range_[0,1]", inr)
        if not inr:
            j = int(np.argmax(~((v >= -SLACK) & (v <= 1 + SLACK))))
            ctx.violation("gaussian kernel value outside [0,1]: %r" % float(v[j]),
                          {"op": "gauss", "law": "range", "x": [xs[j]], "y": [ys[j]], "mu": [mu0, mu1], "sigma": [sxx, syy, sxy]})
        if n_found(ctx) > 5:
            return
    # --- accuracy vs adaptive integration and vs scipy's multivariate normal, point by point
    for i in range(ctx.n(1000, 20000)):
        mu0, mu1, sxx, syy, sxy, kind = gen_params(ctx)
        rho = sxy / math.sqrt(sxx * syy)
        if not abs(rho) < 1 or rho == 0:
            continue
        ts = gen_ts(ctx, 1, rho)
        xs, ys = points(mu0, mu1, sxx, syy, ts)
        v = float(code_gauss(xs, ys, mu0, mu1, sxx, syy, sxy)[0])
        h, k, rr = std(xs, ys, mu0, mu1, sxx, syy, sxy)
        q, e = ref_quad(h[0], k[0], rr)
        ok = math.isfinite(v) and (abs(v - q) <= ACC or e >= 1e-9)
        ctx.test("accuracy_vs_adaptive_integral", ok)
        if e >= 1e-9:
            ctx.count("adaptive_integral_inconclusive")
        okm = True
        if i % 3 == 0:
            mv = ref_mvn(float(h[0]), float(k[0]), rr)
            if mv is None:
                ctx.count("scipy_mvn_not_available_(|r|_within_1e-7_of_1)")
            else:
                okm = math.isfinite(v) and (abs(v - mv) <= ACC or abs(mv - q) > 1e-9)   # scipy counts only where it agrees with the integral
                ctx.test("accuracy_vs_scipy_mvn", okm)
        if not (ok and okm):
            ctx.violation("gaussian differs from the bivariate normal CDF by more than 1e-7: code=%r adaptive integral=%r (est. err %r), r=%r"
                          % (v, q, e, rr), {"op": "gauss", "x": xs, "y": ys, "mu": [mu0, mu1], "sigma": [sxx, syy, sxy]})
            if n_found(ctx) > 5:
                return
    # --- monotone in each argument on fine ladders; rectangle mass; tails; marginals
    for i in range(ctx.n(1000, 15000)):
        mu0, mu1, sxx, syy, sxy, kind = gen_params(ctx, allow_unit=True)
        rho = sxy / math.sqrt(sxx * syy)
        if not abs(rho) < 1:
            continue
        sx, sy = math.sqrt(sxx), math.sqrt(syy)
        par = (mu0, mu1, sxx, syy, sxy)
        # ladder: a fixed other coordinate, steps from 1e-7 sd to 0.5 sd
        L = 96
        c0 = r.uniform(-4, 4)
        step = 10 ** r.uniform(-7, -0.3)
        base = r.choice([r.uniform(-12, 12 - L * step), r.uniform(-3, 1), -L * step / 2])
        ladder = [base + j * step for j in range(L)]
        for axis in (0, 1):
            if axis == 0:
                xs = [mu0 + t * sx for t in ladder]; ys = [mu1 + c0 * sy] * L
            else:
                xs = [mu0 + c0 * sx] * L; ys = [mu1 + t * sy for t in ladder]
            v = code_gauss(xs, ys, *par)
            dv = np.diff(v)
            ok = bool(np.all(dv >= -SLACK)) and bool(np.all(np.isfinite(v)))
            ctx.test("monotone_in_%s" % "xy"[axis], ok)
            if not ok:
                j = int(np.argmax(~(dv >= -SLACK)))
                ctx.violation("gaussian kernel decreases in %s: F=%r then %r" % ("xy"[axis], float(v[j]), float(v[j + 1])),
                              {"op": "gauss", "law": "monotone", "x": [xs[j], xs[j + 1]], "y": [ys[j], ys[j + 1]],
                               "mu": [mu0, mu1], "sigma": [sxx, syy, sxy]})
        # rectangles: pixel-sized to window-sized
        R = 24
        x0 = [mu0 + r.uniform(-6, 6) * sx for _ in range(R)]
        y0 = [mu1 + r.uniform(-6, 6) * sy for _ in range(R)]
        dx = [10 ** r.uniform(-4, 0.8) * sx for _ in range(R)]
        dy = [10 ** r.uniform(-4, 0.8) * sy for _ in range(R)]
        x1 = [a + b for a, b in zip(x0, dx)]; y1 = [a + b for a, b in zip(y0, dy)]
        F11 = code_gauss(x1, y1, *par); F01 = code_gauss(x0, y1, *par)
        F10 = code_gauss(x1, y0, *par); F00 = code_gauss(x0, y0, *par)
        mass = F11 - F01 - F10 + F00
        ok = bool(np.all(mass >= -SLACK)) and bool(np.all(mass <= 1 + SLACK))
        ctx.test("rectangle_mass_nonneg", ok)
        if not ok:
            j = int(np.argmax(~((mass >= -SLACK) & (mass <= 1 + SLACK))))
            ctx.violation("gaussian kernel gives mass %r to the rectangle [%r,%r]x[%r,%r]" % (float(mass[j]), x0[j], x1[j], y0[j], y1[j]),
                          {"op": "gauss", "law": "rect", "x": [x0[j], x1[j]], "y": [y0[j], y1[j]], "mu": [mu0, mu1],
                           "sigma": [sxx, syy, sxy]})
        # tails (12 and 38 sd) and marginals
        for T in (12.0, 38.0):
            c = [r.uniform(-3, 3) for _ in range(4)]
            xs = [mu0 - T * sx] * 4 + [mu0 + t * sx for t in c] + [mu0 + T * sx] + [mu0 + T * sx] * 4 + [mu0 + t * sx for t in c]
            ys = [mu1 + t * sy for t in c] + [mu1 - T * sy] * 4 + [mu1 + T * sy] + [mu1 + t * sy for t in c] + [mu1 + T * sy] * 4
            v = code_gauss(xs, ys, *par)
            ok, tight = tails_ok(v, c)
            ctx.test("tails_0_1_and_marginals", ok)
            marg = special.ndtr(np.array(c + c))
            if ok and not tight:
                corr_once(ctx, "tails_tighter_than_the_statement",
                          "gaussian kernel at %g sd: within the statement's 1e-7 of 0 / 1 but not within 1e-12 as the present code is "
                          "(low tails %r, upper corner %r) — correspondence only" % (T, v[:8].tolist(), float(v[8])),
                          {"correspondence": "tails", "op": "gauss", "law": "tails", "x": xs, "y": ys, "mu": [mu0, mu1],
                           "sigma": [sxx, syy, sxy], "T": T, "c": c})
            if not ok:
                ctx.violation("gaussian kernel tails: low tails %r, upper corner %r, marginals off by %r"
                              % (v[:8].tolist(), float(v[8]), float(np.max(np.abs(v[9:] - marg)))),
                              {"op": "gauss", "law": "tails", "x": xs, "y": ys, "mu": [mu0, mu1], "sigma": [sxx, syy, sxy], "T": T, "c": c})
        if n_found(ctx) > 5:
            return
    # --- zero covariance: the product of the two marginals.  Verdict: within the statement's 1e-7 of Phi(h)*Phi(k) (an independent
    # Phi: scipy.special.ndtr).  Correspondence only: bit-for-bit / 1e-12 agreement with the product of the code's OWN `norm_cdf`
    # values (how the present code computes it; a kernel that calls another accurate Phi differs there in the last bits)
    own_cdf = getattr(K(), "norm_cdf", None)
    for i in range(ctx.n(600, 8000)):
        mu0, mu1, sxx, syy, _, kind = gen_params(ctx, rho=0.0)
        ts = gen_ts(ctx, 16, 0.0)
        xs, ys = points(mu0, mu1, sxx, syy, ts)
        v = code_gauss(xs, ys, mu0, mu1, sxx, syy, 0.0)
        X, Y = np.array(xs), np.array(ys)
        truth = special.ndtr((X - mu0) / math.sqrt(sxx)) * special.ndtr((Y - mu1) / math.sqrt(syy))
        with np.errstate(all="ignore"):
            good = np.abs(v - truth) <= ACC                     # NaN -> False
        ok = bool(np.all(good))
        ctx.test("zero_cov_is_product_of_marginals", ok)
        if not ok:
            j = int(np.argmax(~good))
            ctx.violation("zero covariance: gaussian=%r, the product of the marginals Phi(h)Phi(k)=%r (differ by more than 1e-7)"
                          % (float(v[j]), float(truth[j])),
                          {"op": "gauss", "law": "product", "x": [xs[j]], "y": [ys[j]], "mu": [mu0, mu1], "sigma": [sxx, syy, 0.0]})
            if n_found(ctx) > 5:
                return
            continue
        own = None
        if own_cdf is not None:
            with np.errstate(all="ignore"):
                st, own, _ = call(lambda: own_cdf((X - mu0) / np.sqrt(sxx)) * own_cdf((Y - mu1) / np.sqrt(syy)))
            own = np.array(own, dtype=float).reshape(-1) if st == "ok" else None
        if own is None or own.shape != v.shape:
            corr_once(ctx, "zero_cov_own_marginals", "images_kernels.norm_cdf is not callable as norm_cdf(array) any more; the zero-covariance "
                      "product is within 1e-7 of Phi(h)Phi(k) — correspondence only", {"correspondence": "zero_cov_own_marginals"})
            continue
        exact = bool(np.all(v == own))
        near = bool(np.all(np.abs(v - own) <= 1e-12 * np.maximum(1.0, np.abs(own)))) and bool(np.all(np.abs(v - truth) <= 1e-12))
        ctx.test("zero_cov_equals_own_marginals_bitwise_(correspondence)", exact)
        if not exact:
            j = int(np.argmax(~(v == own)))
            corr_once(ctx, "zero_cov_bits" if near else "zero_cov_1e-12",
                      "zero covariance: gaussian=%r, product of the code's own norm_cdf values=%r, Phi(h)Phi(k)=%r: %s; within the "
                      "statement's 1e-7 of the product of the marginals — correspondence only"
                      % (float(v[j]), float(own[j]), float(truth[j]),
                         "agree to 1e-12 but not bit for bit" if near else "differ by more than 1e-12"),
                      {"correspondence": "zero_cov_product", "op": "gauss", "law": "product", "x": [xs[j]], "y": [ys[j]],
                       "mu": [mu0, mu1], "sigma": [sxx, syy, 0.0]})


def t_far_tails(ctx):
    """far tails (beyond the 12 sd window): finite, in [0,1], -> 0 / 1 / marginal.  The code before /repo 4b6a233 returned NaN
    here for |r| >= 0.925 (FAR_CORPUS holds those inputs)."""
    r = ctx.rng
    from scipy import special
    for rho, x, y, want in FAR_CORPUS:
        v = float(code_gauss([x], [y], 0.0, 0.0, 1.0, 1.0, rho)[0])
        ok = abs(v - want) <= ACC        # NaN -> False (the accuracy the property demands)
        ctx.test("far_tails_corpus", ok)
        if not ok:
            ctx.violation("gaussian kernel in the far tail (r=%r): value %r at (%r,%r), the bivariate normal CDF is %r" % (rho, v, x, y, want),
                          {"op": "gauss", "law": "far_tail", "x": [x], "y": [y], "mu": [0.0, 0.0], "sigma": [1.0, 1.0, rho], "expect": want})
            if n_found(ctx) > 5:
                return
    for i in range(ctx.n(600, 10000)):
        mu0, mu1, sxx, syy, sxy, kind = gen_params(ctx)
        rho = sxy / math.sqrt(sxx * syy)
        if not abs(rho) < 1:
            continue
        T = 10 ** r.uniform(1.1, 6)
        c = r.uniform(-3, 3)
        ts = [(-T, c), (c, -T), (-T, -T), (T, T), (T, c), (c, T), (T, -T), (-T, T), (-T, -12.0), (12.0, -T)]
        xs, ys = points(mu0, mu1, sxx, syy, ts)
        v = code_gauss(xs, ys, mu0, mu1, sxx, syy, sxy)
        pc = float(special.ndtr(c))
        want = np.array([0, 0, 0, 1, pc, pc, 0, 0, 0, 0], dtype=float)
        with np.errstate(all="ignore"):
            good = np.abs(v - want) <= ACC     # NaN -> False
        ok = bool(np.all(good))
        ctx.test("far_tails", ok)
        if not ok:
            j = int(np.argmax(~good))
            ctx.violation("gaussian kernel in the far tail (%.3g sd, r=%r [%s]): value %r, the bivariate normal CDF is %r"
                          % (T, rho, branch_of(rho), float(v[j]), float(want[j])),
                          {"op": "gauss", "law": "far_tail", "x": [xs[j]], "y": [ys[j]], "mu": [mu0, mu1], "sigma": [sxx, syy, sxy],
                           "expect": float(want[j])})
            if n_found(ctx) > 5:
                return


def uni_tol(xs, ys, mu0, mu1, w, h):
    """rounding of the uniform kernel against its definition: the subtraction x-(mu-w/2) is rounded, so relative to the
       coordinates' size in units of the box sides"""
    t = max([abs(x - mu0) / w for x in xs] + [abs(y - mu1) / h for y in ys] + [0.0])
    return 1e-12 * max(1.0, (abs(mu0) + abs(w)) / w, (abs(mu1) + abs(h)) / h, t)


def uniform_law_holds(law, xs, ys, mu0, mu1, w, h):
    """one law of the uniform-kernel clause on the real code at the recorded points (used by the stream and by `replay`):
       range / box_cdf: every point; monotone: consecutive points (coordinates non-decreasing); tails: points [left of the box,
       below it, beyond the upper-right corner]; rect: the rectangle [x0,x1]x[y0,y1]"""
    v = code_uniform(xs, ys, mu0, mu1, w, h)
    if not bool(np.all(np.isfinite(v))):
        return False, v
    if law == "range":
        return bool(np.all((v >= -SLACK) & (v <= 1 + SLACK))), v
    if law == "box_cdf":
        spec = [float(uniform_spec(x, y, mu0, mu1, w, h)) for x, y in zip(xs, ys)]
        tol = uni_tol(xs, ys, mu0, mu1, w, h)
        return all(abs(a - b) <= tol for a, b in zip(v, spec)), v
    if law == "monotone":
        return bool(np.all(np.diff(v) >= -SLACK)), v
    if law == "tails":
        return bool(abs(v[0]) <= SLACK and abs(v[1]) <= SLACK and abs(v[2] - 1.0) <= SLACK), v
    if law == "rect":
        F = lambda a, b: float(code_uniform([a], [b], mu0, mu1, w, h)[0])
        m = F(xs[1], ys[1]) - F(xs[0], ys[1]) - F(xs[1], ys[0]) + F(xs[0], ys[0])
        return -SLACK <= m <= 1 + SLACK, np.array([m])
    raise common.HarnessError("unknown uniform law %r" % law)


def t_uniform(ctx):
    """the uniform kernel's laws on the real code (rounding is outside the theorems: slack 1e-12 on range / monotonicity / tails /
       rectangle mass, the definition to 1e-12 relative to the coordinates in box units)"""
    r = ctx.rng
    for i in range(ctx.n(800, 12000)):
        w = r.choice([2.0 ** r.randint(-8, 8), round(r.uniform(0.01, 9), 3), 10 ** r.uniform(-4, 4)])
        h = r.choice([2.0 ** r.randint(-8, 8), round(r.uniform(0.01, 9), 3), 10 ** r.uniform(-4, 4)])
        mu0 = r.choice([0.0, r.uniform(-50, 50), r.uniform(-1, 1) * 100 * w])
        mu1 = r.choice([0.0, r.uniform(-50, 50), r.uniform(-1, 1) * 100 * h])
        m = 40
        tx = sorted(r.choice([-0.5, 0.5, 0.0, r.uniform(-0.7, 0.7), r.uniform(-30, 30)]) for _ in range(m))
        ty = sorted(r.choice([-0.5, 0.5, 0.0, r.uniform(-0.7, 0.7), r.uniform(-30, 30)]) for _ in range(m))
        xs = [mu0 + t * w for t in tx]; ys = [mu1 + t * h for t in ty]
        c = r.uniform(-0.6, 0.6)
        sets = {"x": (xs, [mu1 + c * h] * m), "y": ([mu0 + c * w] * m, ys), "xy": (xs, ys)}
        fails = []                                  # (law, xs, ys) of the first witness of each failing law
        res = {}
        for law in ("range", "monotone"):
            res[law] = True
            for name, (a, b) in sets.items():
                ok, v = uniform_law_holds(law, a, b, mu0, mu1, w, h)
                if not ok:
                    res[law] = False
                    if law == "range":
                        j = int(np.argmax(~((v >= -SLACK) & (v <= 1 + SLACK))))
                        fails.append((law, [a[j]], [b[j]]))
                    else:
                        j = int(np.argmax(~(np.diff(v) >= -SLACK)))
                        fails.append((law, [a[j], a[j + 1]], [b[j], b[j + 1]]))
                    break
        res["box_cdf"], v = uniform_law_holds("box_cdf", xs, ys, mu0, mu1, w, h)
        if not res["box_cdf"]:
            j = next((j for j in range(m) if not uniform_law_holds("box_cdf", [xs[j]], [ys[j]], mu0, mu1, w, h)[0]), 0)
            fails.append(("box_cdf", [xs[j]], [ys[j]]))
        # tails: 0 left of / below the box, 1 beyond the upper-right corner
        far = ([mu0 - 2 * w, mu0, mu0 + 2 * w], [mu1, mu1 - 2 * h, mu1 + 2 * h])
        res["tails"], _ = uniform_law_holds("tails", far[0], far[1], mu0, mu1, w, h)
        if not res["tails"]:
            fails.append(("tails", far[0], far[1]))
        # rectangles between consecutive points
        x0, x1 = xs[:-1], xs[1:]; y0, y1 = ys[:-1], ys[1:]
        mass = code_uniform(x1, y1, mu0, mu1, w, h) - code_uniform(x0, y1, mu0, mu1, w, h) \
            - code_uniform(x1, y0, mu0, mu1, w, h) + code_uniform(x0, y0, mu0, mu1, w, h)
        res["rect"] = bool(np.all(mass >= -SLACK))
        if not res["rect"]:
            j = int(np.argmax(~(mass >= -SLACK)))
            fails.append(("rect", [x0[j], x1[j]], [y0[j], y1[j]]))
        for name, law in (("uniform_range", "range"), ("uniform_monotone", "monotone"), ("uniform_is_box_cdf", "box_cdf"),
                          ("uniform_tails", "tails"), ("uniform_rectangle_mass", "rect")):
            ctx.test(name, res[law])
        if fails:
            law, fx, fy = fails[0]
            _, fv = uniform_law_holds(law, fx, fy, mu0, mu1, w, h)
            ctx.violation("uniform kernel law fails on the real code (%s): law `%s` at x=%r y=%r: value(s) %r, definition %r"
                          % (" ".join("%s=%s" % kv for kv in res.items()), law, fx, fy, fv.tolist(),
                             [float(uniform_spec(x, y, mu0, mu1, w, h)) for x, y in zip(fx, fy)]),
                          {"op": "uniform", "law": law, "x": fx, "y": fy, "mu": [mu0, mu1], "w": w, "h": h,
                           "all_failing_laws": [f[0] for f in fails]})
            if n_found(ctx) > 5:
                return


def t_old_model(ctx):
    """the regression witness: the model of the pre-378a266 code (`asr > 100`) must be caught by the accuracy reference
    on the corpus — shows that the accuracy stream has teeth, independently of the state of /repo"""
    lines, cs = [], []
    for rho, pts in CORPUS:
        xs = [p[0] for p in pts]; ys = [p[1] for p in pts]
        lines.append("ker.bvn_old %s %s 0 0 1 1 %s" % (enc(xs), enc(ys), enc(rho)))
        cs.append((rho, xs, ys))
    worst = 0.0
    for (rho, xs, ys), a in zip(cs, ask(lines)):
        ref = ref_owen(xs, ys, rho)
        worst = max(worst, max(abs(float(m) - float(q)) for m, q in zip(a, ref)))
    ctx.extra["old_model_max_error_on_corpus"] = worst
    ctx.test("old_model_(asr>100)_is_rejected_by_the_reference", worst > 1e-3)
    if not worst > 1e-3:
        raise common.HarnessError("the model of the pre-fix code is no longer told apart by the accuracy reference (max error %r)" % worst)
    lines = ["ker.bvn_oldtail %s %s 0 0 1 1 %s" % (enc([x]), enc([y]), enc(rho)) for rho, x, y, _ in FAR_CORPUS]
    nans = sum(1 for a in ask(lines) if isinstance(a, list) and math.isnan(float(a[0])))
    ctx.extra["old_tail_model_nan_on_far_corpus"] = "%d/%d" % (nans, len(FAR_CORPUS))
    ctx.test("old_model_(unmasked_exp)_gives_NaN_on_the_far_corpus", nans == len(FAR_CORPUS))
    if nans != len(FAR_CORPUS):
        raise common.HarnessError("the model of the pre-4b6a233 code no longer reproduces the far-tail NaN (%d/%d)" % (nans, len(FAR_CORPUS)))


def broken_theorems(ctx):
    """names of the generated obligations that no longer check (line numbers of the build errors -> theorem names)"""
    import os, re
    out = []
    for rel in PROP_FILES[:2]:           # (the source translator's file is mapped by py2lean.broken_obligations)
        path = os.path.join(common.LEAN_DIR, rel)
        try:
            src = open(path).read().split("\n")
        except OSError:
            continue
        for msg in getattr(ctx, "proof_broken", []) or []:
            m = re.search(re.escape(rel) + r":(\d+):", msg)
            if not m:
                continue
            for ln in range(min(int(m.group(1)), len(src)) - 1, -1, -1):
                t = re.match(r"\s*theorem\s+([\w.']+)", src[ln])
                if t:
                    if t.group(1) not in out:
                        out.append(t.group(1))
                    break
    return out


KNOWN_UNI_SITE = "persim/images_kernels.py:uniform-box-edge-rounds-at-mean"


def known_uniform_probe(ctx):
    """the listed finding: `x - (mu[0] - width/2)` rounds the box edge at ulp(mu) before the subtraction, so for a box much
    narrower than ulp-scale multiples of its birth coordinate the value is the CDF of a shifted box.  Listed input (all
    arguments are floats, the exact CDF is computed in rationals of them)."""
    x, y, mu, width, height = 1073741824.000055, 5.5, (1073741824.0000498, 5.0), 2.646458139134114e-05, 1.0
    def fails():
        from persim.images_kernels import uniform
        v = float(uniform(np.array([x]), np.array([y]), mu=mu, width=width, height=height)[0])
        W, H = Fraction(width), Fraction(height)
        w = min(max(Fraction(x) - (Fraction(mu[0]) - W / 2), 0), W)
        h = min(max(Fraction(y) - (Fraction(mu[1]) - H / 2), 0), H)
        ex = w * h / (W * H)
        err = abs(Fraction(v) - ex)
        return err > Fraction(1, 10 ** 9), ("uniform([%r], [%r], mu=%r, width=%r, height=%r) = %r, the CDF of that box is %r"
                                            % (x, y, mu, width, height, v, float(ex)))
    common.known_probe(ctx, "C13", KNOWN_UNI_SITE, fails,
                       {"kind": "known_probe", "x": x, "y": y, "mu": list(mu), "width": width, "height": height})


def run(ctx):
    ctx.extra["core_theorems"] = CORE_THEOREMS
    ctx.extra["clauses"] = CLAUSES
    known_uniform_probe(ctx)
    bt = broken_theorems(ctx)
    for n in py2lean.broken_obligations(ctx, [py2lean.prop_file("kernels")]):
        if n not in bt:
            bt.append(n)
    if bt:
        print("generated/proved obligations that no longer check: %s" % ", ".join(bt), flush=True)
    corr_uniform(ctx)
    if n_found(ctx) <= 5:
        corr_gauss(ctx)
    ncorr = ctx.evaluations
    if n_found(ctx) <= 5:
        t_old_model(ctx)
        t_uniform(ctx)
    if n_found(ctx) <= 5:
        t_gauss(ctx)
    if n_found(ctx) <= 5:
        t_far_tails(ctx)
    ctx.extra["proof_part"] = {
        "what": "uniform kernel (range, monotone, tails, rectangle mass, product of clamps, Lebesgue measure of box ∩ quadrant); "
                "product form for every monotone Phi into [0,1] (range, monotone, rectangle mass) and the zero-covariance dispatch; "
                "generated constant obligations (Gauss-Legendre tables, thresholds, literals)",
        "files": PROP_FILES,
        "broken": list(getattr(ctx, "proof_broken", []) or []),
        "broken_theorems": bt,
    }
    ctx.extra["test_part"] = {
        "what": "NOT proved: that bvn_cdf (Drezner-Wesolowsky/Genz) approximates the bivariate normal CDF to 1e-7, lies in [0,1] and is "
                "monotone for r != 0.  Tested on the real code: accuracy vs Owen's closed form / adaptive integration / scipy mvn, "
                "range, monotonicity on ladders, rectangle mass, tails, marginals, zero-covariance product",
        "correspondence_evaluations": ncorr,
        "streams": {k: dict(v) for k, v in ctx.tests.items()},
        "tolerances": {"correspondence_abs": TOL, "accuracy": ACC, "rounding_slack": SLACK},
    }


# ----------------------------------------------------------------------------- replay

def replay(ctx, rep):
    c = rep["case"]
    if "op" not in c:
        print("no failing input was found for this violation; content:\n%r" % (c,))
        return True
    from scipy import special
    if c["op"] == "uniform":
        v = code_uniform(c["x"], c["y"], c["mu"][0], c["mu"][1], c["w"], c["h"])
        spec = [float(uniform_spec(x, y, c["mu"][0], c["mu"][1], c["w"], c["h"])) for x, y in zip(c["x"], c["y"])]
        print("code:", v.tolist(), "\ndefinition:", spec)
        if c.get("law"):                      # a law of the [T] uniform stream: re-evaluated at the recorded points
            ok, val = uniform_law_holds(c["law"], c["x"], c["y"], c["mu"][0], c["mu"][1], c["w"], c["h"])
            print("law `%s`: %s (%r)" % (c["law"], "holds" if ok else "FAILS", val.tolist()))
            return ok
        return all(math.isfinite(a) and abs(a - b) <= 1e-9 for a, b in zip(v, spec))
    if c["op"] == "ncdf":
        v = np.array(K().norm_cdf(np.array(c["x"])), dtype=float)
        print("code:", v.tolist(), "ndtr:", special.ndtr(np.array(c["x"])).tolist())
        return bool(np.all(np.abs(v - special.ndtr(np.array(c["x"]))) <= ACC))
    mu0, mu1 = c["mu"]; sxx, syy, sxy = c["sigma"]
    if c["op"] == "sbvn":
        sxy = 0.0
    xs, ys = c["x"], c["y"]
    if c["op"] == "bvn":
        with np.errstate(all="ignore"):
            v = np.array(K().bvn_cdf(np.array(xs, dtype=float), np.array(ys, dtype=float), mu_x=mu0, mu_y=mu1, sigma_xx=sxx,
                                     sigma_yy=syy, sigma_xy=sxy), dtype=float)
    else:
        v = code_gauss(xs, ys, mu0, mu1, sxx, syy, sxy)
    h, k, rho = std(xs, ys, mu0, mu1, sxx, syy, sxy)
    law = c.get("law")
    print("python: from persim.images_kernels import gaussian; gaussian(np.array(%r), np.array(%r), mu=np.array(%r), "
          "sigma=np.array([[%r,%r],[%r,%r]]))" % (xs, ys, [mu0, mu1], sxx, sxy, sxy, syy))
    print("code:", v.tolist())
    if law == "monotone":
        return bool(np.all(np.diff(v) >= -SLACK))
    if law == "rect":
        F = lambda a, b: float(code_gauss([a], [b], mu0, mu1, sxx, syy, sxy)[0])
        m = F(xs[1], ys[1]) - F(xs[0], ys[1]) - F(xs[1], ys[0]) + F(xs[0], ys[0])
        print("rectangle mass:", m)
        return -SLACK <= m <= 1 + SLACK
    if law == "far_tail":
        print("expected:", c["expect"])
        return bool(np.all(np.abs(v - c["expect"]) <= ACC))
    ref = ref_owen(h, k, rho) if abs(rho) < 1 else None
    print("reference:", None if ref is None else ref.tolist())
    if law == "range":
        return bool(np.all((v >= -SLACK) & (v <= 1 + SLACK)))
    if law == "product":
        truth = special.ndtr((np.array(xs) - mu0) / math.sqrt(sxx)) * special.ndtr((np.array(ys) - mu1) / math.sqrt(syy))
        print("product of the marginals:", truth.tolist())
        with np.errstate(all="ignore"):
            return bool(np.all(np.abs(v - truth) <= ACC))
    if law == "tails" and c.get("c") is not None and len(v) == 17:
        ok, tight = tails_ok(v, c["c"])
        print("tails within 1e-7:", ok, "| within 1e-12 (correspondence):", tight)
        return ok
    if ref is None:
        return True
    ok = True
    for i in range(len(v)):
        if not (math.isfinite(v[i]) and abs(v[i] - ref[i]) <= ACC):
            conf, q = confirm_inaccurate(h[i], k[i], rho, float(v[i]))
            print("adaptive integral:", q)
            ok = ok and not conf
    return ok


MANIFEST = {
    "text": "Proof, partial (45 obligations = 27 theorems, of which 14 core, + 18 generated constant obligations). PROVED in Lean for all real (ordered-field) inputs: the uniform kernel is completely the CDF of the uniform "
            "distribution on the box centred at the point — values in [0,1], non-decreasing in each argument, 0 at or below the lower-left "
            "corner in either coordinate and 1 at or beyond the upper-right corner, non-negative mass on every rectangle, equal to the product "
            "of the two clamped marginals and to Lebesgue measure of (box ∩ lower-left quadrant)/area; the zero-covariance branch of the "
            "Gaussian kernel is the product Φ((x−μ0)/√σ00)·Φ((y−μ1)/√σ11) and, for every monotone Φ with values in [0,1], lies in [0,1], "
            "is monotone in each argument, gives every rectangle the product of two non-negative differences, tends to 0/1 in the tails and — "
            "with Φ the standard normal CDF — equals the mass N(μ0,σ00)⊗N(μ1,σ11) gives to the quadrant (the bivariate normal CDF with "
            "diagonal covariance); the pre-fix code differs from the present one exactly by the leading term of Genz's expansion (witness at "
            "r=0.95), and the far-tail repair is exact over ordered fields; the algorithm's constants "
            "(three Gauss–Legendre tables: weights sum to 1, nodes in (0,1) decreasing, all 2·lg moment conditions, Legendre roots, closed-form "
            "weights; thresholds 0.3/0.75/0.925 and the three −100 cut-offs; every numeric literal) are re-extracted from the source on "
            "every run and re-checked by Lean, so a changed digit or threshold breaks a proof obligation. NOT PROVED, only TESTED: that the "
            "Drezner–Wesolowsky/Genz quadrature (|r|<0.925) and expansion (|r|≥0.925) of bvn_cdf approximate the bivariate normal CDF to 1e-7, "
            "stay in [0,1] and are monotone when the covariance is non-zero — a machine-checked error bound for these quadratures is not "
            "attainable with this tooling. For that clause the Lean model is a faithful transcription of the algorithm executed at Float and "
            "tied to the code by correspondence (1e-12) on both sides of 0.3/0.75/0.925, |r| up to the largest double below 1 (1-1e-15 .. 1-1e-8 included), tails to ±12σ and far tails to 1e6σ, "
            "variances 1e-4…1e4; accuracy (vs Owen's closed form, adaptive integration, scipy), range, monotonicity, rectangle mass, tails and marginals "
            "are test streams on the real code. The `asr > 100` defect (fixed in 378a266) and the far-tail NaN (inf·0, fixed in "
            "4b6a233) lay exactly in this untheoremed branch and were found by that test part.",
    "note": "Trusted: Lean kernel + Mathlib, axioms propext/Classical.choice/Quot.sound; the correspondence harness and the constant "
            "translator (ast); scipy.special.owens_t/ndtr, scipy.integrate.quad and scipy.stats.multivariate_normal as accuracy references; "
            "erfc as a monotone Φ into [0,1] (contract of scipy.special.erfc, compared with the driver's own erfc on every run). Theorems "
            "are exact-arithmetic; rounding is covered only by the [T] streams (slack 1e-12 on range / monotonicity / rectangle mass; tails, "
            "marginals and the zero-covariance product at the statement's 1e-7, tighter agreement is reported as a correspondence break "
            "without a failing input). Evidence reports proof_part and test_part "
            "separately. Clause by clause - [T] ONLY (no theorem), all for the Gaussian kernel with NON-ZERO covariance (bvn_cdf): values "
            "in [0,1] (stream range_[0,1]); non-decreasing in each argument (monotone_in_x, monotone_in_y); non-negative mass on every "
            "rectangle (rectangle_mass_nonneg); tails 0 and 1 (tails_0_1_and_marginals, far_tails); agreement with a reference bivariate "
            "normal CDF to 1e-7 (accuracy_vs_owen, accuracy_vs_adaptive_integral, accuracy_vs_scipy_mvn, accuracy_corpus_r>=0.925). Also "
            "[T]: that the code's erfc-based norm_cdf is the standard normal CDF (ker.ncdf, zero_cov_is_product_of_marginals). Everything "
            "else in the statement - the uniform kernel completely, and for zero covariance: product of the marginals, range, monotone, "
            "rectangle mass, tails, equality with the bivariate normal CDF for Phi the standard normal CDF - is [P] (coverage.clauses).",
    "technique": "Lean 4 theorems (uniform kernel, product form, generated constant obligations) + Float transcription tied by "
                 "differential correspondence + reference tests for the correlated Gaussian",
}
MANIFEST["note"] += " " + py2lean.manifest_note("kernels")
MANIFEST["note"] += ' Known finding replayed on every run (common.known_probe, exact rational oracle): the uniform kernel forms the box edge mu - width/2 before subtracting, so a box narrower than about 1e-7 of its birth coordinate is shifted by up to half an ulp of mu (DESIGN 10.13).'
