"""C05 — the mGH estimates (lower, upper) always bracket the true modified Gromov–Hausdorff distance.

Theorems: lean/PersimVerif/Props/C05.lean (model lean/PersimVerif/Model/MGH.lean over Nat matrices, the
NumPy generator an explicit input; specification lean/PersimVerif/Spec/MGH.lean).
Tie: `find_lb`, `find_largest_size_bounded_curvature`, `represent_distance_matrix_rows_as_distributions`,
`find_unique_max_distributions`, `check_assignment_feasibility`, `construct_mapping`,
`find_ub_of_min_distortion`, `find_ub`, `estimate` and the public `gromov_hausdorff` of the real module,
called directly on BFS metrics of generated connected graphs, with every `np.random.permutation` /
`np.random.choice` draw recorded and fed to the model; integer outputs compared exactly.
[T]/oracle: exhaustive 2*mGH (Lean `mgh.spec` and an independent NumPy brute force) for |X|,|Y| <= 6
against the real code's outputs; exact constraint search `mgh2_exact` up to 12 vertices; greedy feasibility against
exhaustive injections.
What the property observes is the return value of the PUBLIC gromov_hausdorff(A_G, A_H).  The helpers above are private
and are called here with the harness's own convention: when such a call raises, returns another shape, draws from
np.random in another way or makes another number of internal calls than the model transcribes, that is a correspondence
break (`convention_break`): the bracket is evaluated on the public entry point against the best exact oracle, and only
a failure THERE is claimed as a failing input.
Source translator (DESIGN.md 3.2): `pre_build` re-translates every function from `estimate` downwards from the source text into
lean/PersimVerif/Generated/SrcMGH.lean (harness/translator/py2lean_mgh.py, key "mgh") and Lean re-proves the obligations
`src_<f>_eq_model` (generated definition = model, for all inputs); `run` first reports which of them no longer check.
The public entry point in front of `estimate` (`gromov_hausdorff`, `make_distance_matrix_from_adjacency_matrix`, the int-type
cast) is re-translated too (py2lean_ghentry.py, key "ghentry", Generated/SrcGHEntry.lean) and, composed with the translated
`estimate`, proved equal to the composed model `MGHPublic.publicGH` (Lemmas/SrcGHEntryPublic.lean).
"""
import itertools, math, random, warnings
import numpy as np
from .. import common
from ..common import enc, ask, call
from ..translator import py2lean

LEVEL = "proof"
RULE = ("pairs of connected simple graphs from one PRNG: paths, cycles, stars, cliques, complete bipartite, grids, "
        "lollipops, random trees, G(n,p) conditioned on connectivity (p from 0.15 to 0.9), 1..9 vertices (quick) / 1..40 "
        "(thorough), plus in both tiers graphs with 66..127 vertices and diameter >= 65 and graphs with 128..200 vertices "
        "(paths incl. diameter exactly 127, brooms, stars, cycles, trees, G(n,p)) where int8 arithmetic would overflow; equal "
        "and unequal sizes, isomorphic pairs by random relabelling, both argument orders; int8 (as "
        "produced by the real pipeline) and int16/int64 matrices; mapping_sample_size_order from {(0,0),(1,1),(.5,1),"
        "(1,0),(0,1),(-1,-1),(1.5,.5),(2,0)}; the generator state is either seeded NumPy or adversarial draws "
        "(identity/reversed/random permutations, first image 0 / last / random); [T] streams on the public entry point against an exact "
        "2*mGH: 320 / 3500 pairs of <= 6 vertices (exhaustive), 260 / 2600 pairs dense-X (clique, bipartite, star, lollipop, dense G(n,p)) "
        "against thin-Y (path, cycle, tree, grid) with |X| >= |Y|, 3..9 vertices, natural and random labellings, both argument orders "
        "(the Y->X half of the upper bound decides; every public call passes each graph in one of 63 forms fixed by the recorded seed: "
        "symmetric / upper / lower adjacency x CSR or dense C-contiguous / transposed / Fortran-ordered / fancy-indexed / strided / "
        "read-only x int / bool / float), 140 / 1500 pairs of 5..12 vertices (constraint search), 2500 / 25000 isomorphic "
        "pairs of 10..15 vertices (2*mGH = 0); non-trivial = both graphs have >= 3 "
        "vertices and are not both cliques; distinct by digest of (op, matrices, order, draws)")
ASSUMPTIONS = [
    "graphs are connected and simple, so the matrices handed to estimate() are BFS metrics: square, symmetric, zero diagonal, "
    "positive off the diagonal (the graph-format layer in front of them is property C17)",
    "np.random.permutation(n) returns a permutation of range(n) and np.random.choice(m) a value in range(m) "
    "(checked on every recorded draw); the theorems hold for every such draw",
    "the code's integer arithmetic is exact (no fixed-width wrap-around): true of the repaired code, which converts the int8 "
    "scalars diam_X, max_d, d to Python ints; the theorems hold for every value of the sort-key product, so they also cover "
    "a wrapped product, but not a wrapped index computation in the feasibility test",
    "mapping_sample_size_order only determines how many permutations are drawn (>= 1 for finite orders); the theorems "
    "hold for every non-empty list of permutations (an order whose float sample size is 0 raises StopIteration in code and model alike; "
    "non-finite orders fail in NumPy's int conversion, outside the model)",
]
TRUSTED = ["NumPy semantics of argmin (first minimum), np.unique(axis=0), np.delete, masked sums and integer dtype "
           "promotion, as transcribed in Model/MGH.lean and compared on every run"]
SRC = "persim/gromov_hausdorff.py"
ANCHORED = ["estimate", "find_lb", "find_largest_size_bounded_curvature", "confirm_lb_using_bounded_curvature",
            "confirm_lb_using_bounded_curvature_row", "represent_distance_matrix_rows_as_distributions",
            "find_unique_max_distributions", "check_assignment_feasibility", "find_ub", "find_ub_of_min_distortion",
            "construct_mapping"]
ORDERS = [(0.0, 0.0), (1.0, 1.0), (0.5, 1.0), (1.0, 0.0), (0.0, 1.0), (-1.0, -1.0), (1.5, 0.5), (2.0, 0.0)]


def G():
    return common.pm("gromov_hausdorff")


# ----------------------------------------------------------------------------- graphs

def adj_from_edges(n, edges):
    A = np.zeros((n, n), dtype=int)
    for a, b in edges:
        if a != b:
            A[a, b] = A[b, a] = 1
    return A


def connected(A):
    n = len(A)
    seen, todo = {0}, [0]
    while todo:
        v = todo.pop()
        for w in range(n):
            if A[v, w] and w not in seen:
                seen.add(w); todo.append(w)
    return len(seen) == n


def gen_graph(r, n, kind=None):
    kind = kind or r.choice(["path", "cycle", "star", "clique", "tree", "tree", "gnp", "gnp", "gnp", "bip", "grid", "lolli"])
    if n <= 2 or kind == "path":
        return "path", adj_from_edges(n, [(i, i + 1) for i in range(n - 1)])
    if kind == "cycle":
        return kind, adj_from_edges(n, [(i, (i + 1) % n) for i in range(n)])
    if kind == "star":
        return kind, adj_from_edges(n, [(0, i) for i in range(1, n)])
    if kind == "clique":
        return kind, adj_from_edges(n, [(i, j) for i in range(n) for j in range(i)])
    if kind == "tree":
        return kind, adj_from_edges(n, [(i, r.randrange(i)) for i in range(1, n)])
    if kind == "bip":
        a = r.randint(1, n - 1)
        return kind, adj_from_edges(n, [(i, j) for i in range(a) for j in range(a, n)])
    if kind == "grid":
        w = r.randint(2, max(2, int(math.isqrt(n))))
        return kind, adj_from_edges(n, [(i, i + 1) for i in range(n - 1) if (i + 1) % w] + [(i, i + w) for i in range(n - w)])
    if kind == "lolli":
        k = r.randint(2, n - 1)
        return kind, adj_from_edges(n, [(i, j) for i in range(k) for j in range(i)] + [(i, i + 1) for i in range(k - 1, n - 1)])
    p = r.choice([0.15, 0.25, 0.4, 0.6, 0.9])
    for _ in range(200):
        A = adj_from_edges(n, [(i, j) for i in range(n) for j in range(i) if r.random() < p])
        if connected(A):
            return "gnp", A
    return gen_graph(r, n, "tree")


def relabel(r, A):
    p = list(range(len(A)))
    r.shuffle(p)
    p = np.array(p, dtype=int)
    return A[np.ix_(p, p)]


def gen_pair(ctx, nmax):
    """(kind, AG, AH, isomorphic?)"""
    r = ctx.rng
    t = r.random()
    n = r.randint(1, nmax) if r.random() < 0.85 else r.randint(1, min(nmax, 3))
    k1, A = gen_graph(r, n)
    if t < 0.15:
        return k1 + "~iso", A, relabel(r, A), True
    m = n if t < 0.45 else r.randint(1, nmax)
    k2, B = gen_graph(r, m)
    if r.random() < 0.5:
        B = relabel(r, B)
    return k1 + "/" + k2, A, B, False


def gen_large_pair(ctx, cheap=False, lo=128, hi=200):
    """graphs with lo..hi vertices.  128..200 (int8 matrices up to diameter 127, int16 beyond) are the sizes at which the
    unrepaired `len(K) * diam_X` raised; 66..127 with diameter >= 65 are the sizes at which its int8 index arithmetic
    `i + (d - 1)` wrapped silently (unsound lower bounds).  cheap=True keeps the lower-bound loop short."""
    r = ctx.rng

    def broom(n):          # a path on min(n,128) vertices (diameter 127 for n >= 128) with extra leaves at middle vertices
        L = min(n, 128) - (0 if n >= 128 else r.randint(0, 8))
        return adj_from_edges(n, [(i, i + 1) for i in range(L - 1)] + [(r.randint(L // 3, 2 * L // 3), j) for j in range(L, n)])

    def one(kinds):
        k = r.choice(kinds)
        n = r.randint(lo, hi)
        if k == "path128":
            return k, gen_graph(r, 128 if hi >= 128 else hi, "path")[1]
        if k == "broom":
            return k, broom(n)
        return k, gen_graph(r, n, k)[1]
    if cheap:
        k1, A = one(["star", "path128", "clique", "bip"])
        if r.random() < 0.4:
            return k1 + "~iso", A, relabel(r, A), True
        k2, B = one(["star", "clique", "bip", "lolli"])
        return k1 + "/" + k2, A, relabel(r, B), False
    k1, A = one(["path128", "path", "star", "cycle", "broom", "tree", "gnp", "lolli", "grid"])
    t = r.random()
    if t < 0.3:
        return k1 + "~iso", A, relabel(r, A), True
    if t < 0.5:                                   # equal size, different shape
        k2 = r.choice(["path", "star", "cycle", "tree", "gnp"])
        return k1 + "/" + k2, A, relabel(r, gen_graph(r, len(A), k2)[1]), False
    k2, B = one(["path128", "path", "star", "cycle", "broom", "tree", "gnp"])
    return k1 + "/" + k2, A, relabel(r, B), False


def metric(A, dtype=None):
    D = G().make_distance_matrix_from_adjacency_matrix(np.array(A))
    return D if dtype is None else D.astype(dtype)


def L(D):
    return np.asarray(D).astype(int).tolist()


# ----------------------------------------------------------------------------- RNG capture

class Draws:
    """records (and optionally dictates) every np.random.permutation / np.random.choice call made by the code,
    grouped by call of find_ub_of_min_distortion"""

    def __init__(self, rng=None, mode="numpy", np_seed=None):
        self.mode, self.rng, self.np_seed = mode, rng, np_seed
        self.calls = []          # one dict per find_ub_of_min_distortion call: {"perms": [...], "y0s": [...], "n": |X|, "m": |Y|}
        self.loose = {"perms": [], "y0s": []}
        self.bad = []
        self.unmodelled = []     # draws made in a way the model has no counterpart for (np.random.choice with extra arguments)

    def _cur(self):
        return self.calls[-1] if self._depth else self.loose

    def _perm(self, n):
        if self.mode == "numpy":
            p = self._operm(n)
        else:
            k = int(n)
            what = self.rng.choice(["id", "rev", "rand", "rand", "rot"])
            p = list(range(k))
            if what == "rev":
                p.reverse()
            elif what == "rand":
                self.rng.shuffle(p)
            elif what == "rot" and k:
                s = self.rng.randrange(k); p = p[s:] + p[:s]
            p = np.array(p, dtype=int)
        pl = [int(x) for x in p]
        if sorted(pl) != list(range(int(n))):
            self.bad.append(("permutation", int(n), pl))
        self._cur()["perms"].append(pl)
        return p

    def _choice(self, m, *a, **k):
        if a or k:
            # not the call the model transcribes (`np.random.choice(|Y|)`): let NumPy answer it and mark the recording as
            # unmodelled; the caller reports a correspondence break and evaluates the property on the public entry point
            self.unmodelled.append("np.random.choice(%r, *%r, **%r)" % (m, a, k))
            return self._ochoice(m, *a, **k)
        if self.mode == "numpy":
            y = self._ochoice(m)
        else:
            y = self.rng.choice([0, int(m) - 1, self.rng.randrange(int(m))])
        if not (0 <= int(y) < int(m)):
            self.bad.append(("choice", int(m), int(y)))
        self._cur()["y0s"].append(int(y))
        return y

    def __enter__(self):
        g = G()
        self._depth = 0
        self._operm, self._ochoice = np.random.permutation, np.random.choice
        self._oub = g.find_ub_of_min_distortion
        if self.np_seed is not None:
            np.random.seed(self.np_seed)
        np.random.permutation, np.random.choice = self._perm, self._choice

        def wrapped(DX, DY, *a, **k):
            self.calls.append({"perms": [], "y0s": [], "n": len(DX), "m": len(DY)})
            self._depth += 1
            try:
                return self._oub(DX, DY, *a, **k)
            finally:
                self._depth -= 1
        g.find_ub_of_min_distortion = wrapped
        return self

    def __exit__(self, *a):
        np.random.permutation, np.random.choice = self._operm, self._ochoice
        G().find_ub_of_min_distortion = self._oub


def new_draws(ctx):
    r = ctx.rng
    if r.random() < 0.6:
        return Draws(mode="numpy", np_seed=r.randrange(2 ** 31))
    import random
    return Draws(rng=random.Random(r.randrange(2 ** 31)), mode="adversarial")


def n_mappings(n, order):
    """how many permutations the lazy generator can yield; both evaluations (razor edge of the float ceil)"""
    a = int(np.ceil(np.prod(np.array([n, np.log(n + 1)]) ** np.array(order))))
    b = int(math.ceil((float(n) ** order[0]) * (math.log(n + 1) ** order[1])))
    return {a, b}


# ----------------------------------------------------------------------------- independent oracle (NumPy brute force)

def min_dis_brute(DX, DY):
    DX, DY = np.asarray(DX, dtype=int), np.asarray(DY, dtype=int)
    n, m = len(DX), len(DY)
    best = None
    F = np.array(list(itertools.product(range(m), repeat=n)), dtype=int).reshape(-1, n)
    for lo in range(0, len(F), 20000):
        f = F[lo:lo + 20000]
        dis = np.zeros(len(f), dtype=int)
        for a in range(n):
            for b in range(n):
                dis = np.maximum(dis, np.abs(DX[a, b] - DY[f[:, a], f[:, b]]))
        v = int(dis.min())
        best = v if best is None else min(best, v)
    return best


def mgh2_brute(DX, DY):
    return max(min_dis_brute(DX, DY), min_dis_brute(DY, DX))


def exists_map_within(DX, DY, t):
    """is there ANY map f: X -> Y with dis f <= t?  Exact constraint search (forward checking, smallest domain first);
    independent of the code and of the model; exhaustive by construction (it only prunes assignments that already
    violate |DX[x,x'] - DY[f x, f x']| <= t)"""
    DX, DY = np.asarray(DX, dtype=int), np.asarray(DY, dtype=int)
    n, m = len(DX), len(DY)
    # compat[x, x'][y, y'] = |DX[x,x'] - DY[y,y']| <= t
    compat = np.abs(DX[:, :, None, None] - DY[None, None, :, :]) <= t
    dom0 = np.array([[compat[x, x, y, y] for y in range(m)] for x in range(n)], dtype=bool)

    def go(dom, todo):
        if not todo:
            return True
        x = min(todo, key=lambda v: int(dom[v].sum()))
        rest = [v for v in todo if v != x]
        for y in np.flatnonzero(dom[x]):
            d2 = dom.copy()
            ok = True
            for v in rest:
                d2[v] &= compat[x, v, y, :] & compat[v, x, :, y]
                if not d2[v].any():
                    ok = False
                    break
            if ok and go(d2, rest):
                return True
        return False
    return go(dom0, list(range(n)))


def min_dis_exact(DX, DY):
    """min over all maps X -> Y of the distortion (integer metrics): first threshold at which a map exists"""
    hi = int(max(np.max(DX), np.max(DY)))
    for t in range(0, hi + 1):
        if exists_map_within(DX, DY, t):
            return t
    return hi


def mgh2_exact(DX, DY):
    return max(min_dis_exact(DX, DY), min_dis_exact(DY, DX))


def dis_of(DX, DY, f):
    DX, DY = np.asarray(DX, dtype=int), np.asarray(DY, dtype=int)
    n = len(DX)
    return max([abs(int(DX[a, b]) - int(DY[f[a], f[b]])) for a in range(n) for b in range(n)] + [0])


def half_integral(x):
    x = float(x)
    return x >= 0 and math.isfinite(x) and float(2 * x).is_integer()


N_FORMS = 63


def as_form(A, k):
    """adjacency `A` (symmetric 0/1) in form `k` of N_FORMS = 3 x 7 x 3, the same labelled graph every time:
    k % 3         0 symmetric, 1 upper triangle only, 2 lower triangle only;
    (k // 3) % 7  0 dense C-contiguous, 1 CSR, and dense arrays in another memory layout: 2 the transposed view of the transposed
                  entries (`.T` of the lower / upper / symmetric matrix), 3 Fortran order, 4 the result of a fancy-indexed relabelling
                  `B[q][:, q]`, 5 the strided view `big[::2, ::2]` (other cells 1), 6 read-only (/repo fc69e2e: before it layouts 2-5
                  made scipy's Floyd-Warshall fail and gromov_hausdorff raise ValueError);
    (k // 21) % 3 dtype int, bool, float"""
    import scipy.sparse as sps
    M = np.array(A)
    M = M if k % 3 == 0 else (np.triu(M, 1) if k % 3 == 1 else np.tril(M, -1))
    M = np.ascontiguousarray(M.astype([int, bool, float][(k // 21) % 3]))
    c, n = (k // 3) % 7, len(M)
    if c == 1:
        return sps.csr_matrix(M)
    if c == 2:
        F = np.ascontiguousarray(M.T).T
    elif c == 3:
        F = np.asfortranarray(M)
    elif c == 4:
        q = np.array(random.Random(n).sample(range(n), n), dtype=int)
        inv = np.argsort(q)
        F = np.ascontiguousarray(M[np.ix_(inv, inv)])[q][:, q]
    elif c == 5:
        big = np.ones((2 * n, 2 * n), dtype=M.dtype)
        big[::2, ::2] = M
        F = big[::2, ::2]
    elif c == 6:
        F = M.copy()
        F.setflags(write=False)
    else:
        return M
    if F.shape != M.shape or F.dtype != M.dtype or not np.array_equal(F, M) or (c in (2, 3, 4, 5) and n > 1 and F.flags.c_contiguous):
        raise common.HarnessError("as_form %d: did not build the intended array" % k)
    return F


def bracket_on_real_code(A, B, order, np_seed, mgh2=None):
    """the property predicate on the real public entry point; returns (ok, details)"""
    g = G()
    with np.errstate(all="ignore"):
        # the same labelled graph in one of the forms the entry point documents (each edge stored once above or below the
        # diagonal, or symmetrically; CSR or dense - any memory layout, int / bool / float), chosen by the recorded seed so that a
        # replay uses the same form
        fa, fb = as_form(A, int(np_seed) % N_FORMS), as_form(B, (int(np_seed) // N_FORMS) % N_FORMS)
        np.random.seed(np_seed)
        st, v, _ = call(g.gromov_hausdorff, fa, fb, mapping_sample_size_order=np.array(order))
    if st == "err":
        return False, {"error": v}
    lb, ub = float(v[0]), float(v[1])
    DX, DY = metric(A), metric(B)
    if mgh2 is None and max(len(DX), len(DY)) > 6:
        # no exhaustive oracle at this size: what remains checkable is that bounds are returned, half-integral and ordered
        ok = half_integral(lb) and half_integral(ub) and lb <= ub
        return ok, {"lb": lb, "ub": ub, "mGH": "not computed (more than 6 vertices)"}
    if mgh2 is None:
        mgh2 = mgh2_brute(DX, DY)
    ok = half_integral(lb) and half_integral(ub) and 2 * lb <= mgh2 <= 2 * ub
    return ok, {"lb": lb, "ub": ub, "mGH": mgh2 / 2.0}


EXACT_MAX = 9      # largest graph for which `mgh2_exact` (constraint search) is used as the oracle of a confirmation


def oracle_for(A, B, iso=False):
    """(2*mGH, name of the oracle) for a pair of graphs, or (None, None) when no exact value is affordable:
    isomorphic by construction -> 0; <= 6 vertices -> exhaustive enumeration; <= EXACT_MAX -> exact constraint search"""
    if iso:
        return 0, "isomorphic"
    k = max(len(A), len(B))
    if k <= 6:
        return mgh2_brute(metric(A), metric(B)), "mgh2_brute"
    if k <= EXACT_MAX:
        return mgh2_exact(metric(A), metric(B)), "mgh2_exact"
    return None, None


def judge_public(A, B, order, np_seed, iso=False):
    """the property on the PUBLIC entry point gromov_hausdorff(A_G, A_H) with the best exact oracle available;
    -> (ok, details, replay case)"""
    mg, oname = oracle_for(A, B, iso)
    ok, det = bracket_on_real_code(A, B, tuple(order), np_seed, mgh2=mg)
    if ok and (iso or is_iso_pair(np.asarray(A), np.asarray(B))):
        ok = det["lb"] == 0.0
    case = {"AG": np.asarray(A).tolist(), "AH": np.asarray(B).tolist(), "order": [float(x) for x in order], "np_seed": np_seed, "iso": bool(iso)}
    if oname == "mgh2_exact":
        case["oracle"] = "mgh2_exact"
    det = dict(det, oracle=oname or "none at this size (bounds returned, half-integral, ordered)")
    return ok, det, case


def convention_break(ctx, what, corr, A, B, iso, order=(0.0, 0.0), base=None):
    """a PRIVATE helper called with the harness's own call convention raised, or the code's internal call / RNG pattern is not the
    one the model transcribes.  None of that is fixed by the property, which observes gromov_hausdorff(A_G, A_H): evaluate the
    bracket THERE (exact oracle where available); only a failure there is a failing input.  Otherwise a correspondence break,
    with the full failing-input search run once per kind of break (afterwards only the pair at hand is judged)."""
    seen = ctx.__dict__.setdefault("_c05_breaks", {})
    seen[corr] = seen.get(corr, 0) + 1
    ctx.count("convention_break:" + corr)
    if sum(1 for _, f in ctx.violations if f) >= 3:          # three failing inputs are on record: enough
        return True
    for s in ((0,) if max(len(A), len(B)) > 12 else (0, 1, 2)):
        ok, det, case = judge_public(A, B, order, s, iso)
        if not ok:
            ctx.violation("%s; gromov_hausdorff on the same two graphs (%d and %d vertices) violates the property: %r" % (what, len(A), len(B), det),
                          dict(case, raised_in=what[:200]), found_input=True, correspondence=corr, detail=det)
            return True
    if seen[corr] > 1:
        return False
    c = dict(base or {"AG": np.asarray(A).tolist(), "AH": np.asarray(B).tolist()}, public_entry_point=det)
    return search_failing_input(ctx, what + " [the public gromov_hausdorff brackets the distance on this pair: %r]" % (det,), c, corr, A, B, order)


class HelperRaised(Exception):
    """a private helper of the real module, called with the harness's own convention, raised"""

    def __init__(self, fn, kind):
        Exception.__init__(self, "%s raised %s" % (fn, kind))
        self.fn, self.kind = fn, kind


def priv(fn, *a, **k):
    """call a PRIVATE helper of the real module with the harness's convention; any exception becomes HelperRaised, which the
    callers turn into `convention_break` (the property is then evaluated on the public entry point), never into exit 2"""
    with np.errstate(all="ignore"):
        st, v, _ = call(fn, *a, **k)
    if st == "err":
        raise HelperRaised(getattr(fn, "__name__", str(fn)), v)
    return v


def iso_lb_nonzero(ctx, what, A, B):
    """the PRIVATE find_lb gave a non-zero value (or raised) on an isomorphic pair: the clause `isomorphic graphs always receive lower
    bound 0` is about what gromov_hausdorff returns, so it is confirmed there before anything is claimed"""
    ok, det, case = judge_public(A, B, (0.0, 0.0), 0, iso=True)
    if not ok:
        ctx.violation("isomorphic %d-vertex graphs do not receive lower bound 0 (%s directly; gromov_hausdorff: %r)" % (len(A), what, det),
                      case, found_input=True, detail=det)
        return True
    if not ctx.__dict__.get("_c05_iso_break"):
        ctx._c05_iso_break = True
        ctx.violation("%s, called directly, on an isomorphic pair, but gromov_hausdorff on the same pair returns lower bound 0: %r"
                      % (what, det), dict(case, correspondence="mgh.lb"), found_input=False, correspondence="mgh.lb")
    return False


def code_raised(ctx, fn, kind, A, B, iso, order=(0.0, 0.0)):
    """a routine of the real code, called directly with the harness's convention, raised on BFS metrics of connected graphs"""
    return convention_break(ctx, "%s, called directly with the harness's own convention, raised %s on two connected graphs with %d and %d "
                            "vertices" % (fn, kind, len(A), len(B)), "mgh.call:" + fn.split(" ")[0], A, B, iso, order)


def search_failing_input(ctx, what, case, corr, A=None, B=None, order=None, extra=None):
    """the correspondence broke: look for an input on which the bracket property itself fails on the real PUBLIC entry point"""
    r = ctx.rng
    cands = []
    if A is not None and max(len(A), len(B)) <= EXACT_MAX:
        for s in range(4):
            cands.append((np.array(A), np.array(B), tuple(order or (0.5, 1.0)), s))
    for _ in range(ctx.n(150, 600)):
        n, m = r.randint(1, 5), r.randint(1, 5)
        if r.random() < 0.2:
            n, m = r.randint(3, 6), r.randint(3, 6)
        _, X = gen_graph(r, n); _, Y = gen_graph(r, m)
        if r.random() < 0.2:
            Y = relabel(r, X)
        cands.append((X, Y, r.choice(ORDERS), r.randrange(2 ** 31)))
    if not hasattr(ctx, "_c05_big"):                 # evaluated once per run: these do not depend on the disagreement
        ctx._c05_big = []
        for k, nn in (("star", 128), ("path", 100), ("path", 128), ("cycle", 150)):
            X = gen_graph(r, nn, k)[1]
            Y, o, s = relabel(r, X), (0.0, 0.0), r.randrange(2 ** 31)
            ok, det = bracket_on_real_code(X, Y, o, s, mgh2=0)   # isomorphic by construction: 2*mGH = 0 without any search
            ctx._c05_big.append((ok and det.get("lb") == 0.0, det, X, Y, o, s))
    for ok, det, X, Y, o, s in ctx._c05_big:
        if not ok:
            ctx.violation("%s; the property fails on the real code for two isomorphic %d-vertex graphs: %r" % (what, len(X), det),
                          {"AG": X.tolist(), "AH": Y.tolist(), "order": list(o), "np_seed": s, "iso": True}, found_input=True,
                          correspondence=corr, detail=det)
            return True
    for X, Y, o, s in cands:
        ok, det, rc = judge_public(X, Y, o, s)
        if not ok:
            ctx.violation("%s; the bracket property fails on the real code: %r" % (what, det), rc, found_input=True,
                          correspondence=corr, detail=det)
            return True
    if not hasattr(ctx, "_c05_lbsearch"):            # once per run: a wide search on the lower bound alone (cheap: no mappings)
        ctx._c05_lbsearch = None
        g = G()
        for _ in range(ctx.n(12000, 60000)):
            n, m = r.randint(3, 8), r.randint(3, 8)
            _, X = gen_graph(r, n, r.choice([None, None, "tree", "path", "lolli", "gnp"]))
            _, Y = gen_graph(r, m, r.choice([None, None, "tree", "star", "star", "gnp"]))
            if r.random() < 0.5:
                X, Y = Y, X
            DX, DY = metric(X), metric(Y)
            st, lb, _ = call(g.find_lb, DX, DY)
            if st != "ok":
                continue
            try:
                lbi = int(lb)
            except (TypeError, ValueError):          # find_lb is private: another return convention is not the property's business
                continue
            if lbi > 0 and lbi > mgh2_exact(DX, DY):
                # a candidate from the private helper: CONFIRMED below on the public entry point against the same exact oracle
                # (graphs of 7-8 vertices included: `mgh2_exact`, recorded in the replay case so that replay re-evaluates it)
                ok, det, rc = judge_public(X, Y, (0.5, 1.0), 0)
                ctx.count("lbsearch_candidates")
                if not ok:
                    ctx._c05_lbsearch = (det, rc)
                    break
    if ctx._c05_lbsearch is not None:
        det, rc = ctx._c05_lbsearch
        ctx.violation("%s; the lower bound exceeds the exact distance on the real code: %r" % (what, det), rc, found_input=True,
                      correspondence=corr, detail=det)
        return True
    c = {"correspondence": corr}
    c.update(case)
    if extra:
        c.update(extra)
    ctx.violation(what + " (bracket property held on the disagreeing and on %d fresh small inputs)" % len(cands),
                  c, found_input=False)
    return False


def is_iso_pair(X, Y):
    if len(X) != len(Y) or len(X) > 6:
        return False
    n = len(X)
    return any((X[np.ix_(p, p)] == Y).all() for p in map(list, itertools.permutations(range(n))))


# ----------------------------------------------------------------------------- the run

class Batch:
    """collect protocol lines with a continuation, ask once"""

    def __init__(self):
        self.lines, self.conts = [], []

    def add(self, line, cont):
        self.lines.append(line); self.conts.append(cont)

    def flush(self, ctx):
        answers = ask(self.lines)
        for ln, a, c in zip(self.lines, answers, self.conts):
            if a == "bad-op":
                raise common.HarnessError("driver rejected %r" % ln[:300])
            c(a)
            if len(ctx.violations) > 5:
                break
        self.lines, self.conts = [], []


def nat(x):
    return int(x)


def found_any(ctx):
    """a failing input of the property is already on record (a broken correspondence alone does not end the search:
    the exact-oracle streams below are part of it)"""
    return any(f for _, f in ctx.violations) or len(ctx.violations) > 40


# source translator (DESIGN.md 3.2): the mGH functions are re-translated from the source text on every run (key "mgh"), and so
# is the public entry point in front of them (key "ghentry": gromov_hausdorff, make_distance_matrix_from_adjacency_matrix, the
# int-type cast), whose composition with the translated `estimate` is proved equal to the composed model `publicGH`
TRUSTED = list(TRUSTED) + [py2lean.trusted_note("mgh"), py2lean.trusted_note("ghentry")]
PROP_FILES = ["PersimVerif/Props/C05.lean"] + py2lean.prop_files("mgh") + py2lean.prop_files("ghentry")


def pre_build(ctx):
    """source translator: regenerate Generated/SrcMGH.lean and Generated/SrcGHEntry.lean from PERSIM_ROOT's source"""
    py2lean.pre_build(ctx, ("mgh", "ghentry"))


def run(ctx):
    py2lean.report_broken(ctx, PROP_FILES)
    g = G()
    ctx.extra["source_digest"] = common.source_digest(SRC, ANCHORED)
    nmax = ctx.n(9, 40)
    b = Batch()
    cov = common.LineCov([SRC])

    # ---- corpus (runs first): doc examples, the test-suite graphs, degenerate sizes, wrap-around keys
    P3 = adj_from_edges(3, [(0, 1), (1, 2)]); C4 = adj_from_edges(4, [(0, 1), (1, 2), (2, 3), (3, 0)])
    K3 = gen_graph(ctx.rng, 3, "clique")[1]; K4 = gen_graph(ctx.rng, 4, "clique")[1]
    one = np.zeros((1, 1), dtype=int); C5 = gen_graph(ctx.rng, 5, "cycle")[1]
    P20 = gen_graph(ctx.rng, 20, "path")[1]; S20 = gen_graph(ctx.rng, 20, "star")[1]
    corpus = [("P3/C4", P3, C4, False), ("K3/K4", K3, K4, False), ("K4/pt", K4, one, False), ("pt/pt", one, one, True),
              ("P2/C5", adj_from_edges(2, [(0, 1)]), C5, False), ("C5/C5", C5, relabel(ctx.rng, C5), True),
              ("P20/S20", P20, S20, False), ("S20/P20", S20, P20, False)]
    pairs = list(corpus)
    npairs = ctx.n(400, 2500)
    for i in range(npairs):
        big = ctx.thorough and i % 3 == 0
        pairs.append(gen_pair(ctx, nmax if (big or not ctx.thorough) else 12))

    P100 = gen_graph(ctx.rng, 100, "path")[1]
    pairs.append(("path~iso", P100, relabel(ctx.rng, P100), True))          # diameter 99: index arithmetic beyond int8
    for i in range(ctx.n(4, 22)):
        pairs.append(gen_large_pair(ctx, cheap=(not ctx.thorough) or i % 2 == 0))
    for i in range(ctx.n(1, 22)):
        pairs.append(gen_large_pair(ctx, cheap=False, lo=66, hi=127))
    with cov:
        for idx, (kind, A, B, iso) in enumerate(pairs[:60]):
            one_pair(ctx, b, kind, A, B, iso)
    for kind, A, B, iso in pairs[60:]:
        one_pair(ctx, b, kind, A, B, iso)
    feas_stream(ctx, b)
    degenerate_orders(ctx, b)
    b.flush(ctx)
    ctx.extra["branch_hits"] = cov.summary()
    secs = ctx.extra.setdefault("stream_seconds", {"correspondence": round(ctx.elapsed(), 1)})
    for stream in (oracle_stream, onto_stream, feas_exhaustive, large_graph_probe, iso_midsize, oracle_midsize):
        if found_any(ctx):
            return
        t0 = ctx.elapsed()
        stream(ctx)
        secs[stream.__name__] = round(ctx.elapsed() - t0, 1)


def one_pair(ctx, b, kind, A, B, iso):
    """all correspondence operations on one pair; an exception of the real code on these valid inputs is a failing input"""
    try:
        _one_pair(ctx, b, kind, A, B, iso)
    except common.HarnessError:
        raise
    except HelperRaised as e:
        code_raised(ctx, e.fn, e.kind, A, B, iso)
    except (ArithmeticError, IndexError, ValueError, TypeError, AttributeError, StopIteration) as e:
        import traceback
        tb = traceback.extract_tb(e.__traceback__)
        inside = [f for f in tb if f.filename.startswith(common.REPO)]
        if not inside:
            raise
        code_raised(ctx, "%s (line %d)" % (inside[-1].name, inside[-1].lineno), type(e).__name__, A, B, iso)


def _one_pair(ctx, b, kind, A, B, iso):
    g, r = G(), ctx.rng
    large = max(len(A), len(B)) > 60
    dt = None if large else r.choice([None, None, None, np.int16, np.int64])
    DX, DY = metric(A, dt), metric(B, dt)
    n, m = len(DX), len(DY)
    if large:
        ctx.count("large_pairs(>=128 vertices)" if max(n, m) >= 128 else "mid_pairs(66..127 vertices)")
        if max(int(DX.max()), int(DY.max())) >= 65:
            ctx.count("large:diameter>=65")
        ctx.count("large:dtype=%s,%s" % (DX.dtype, DY.dtype))
        if int(DX.max()) == 127 or int(DY.max()) == 127:
            ctx.count("large:diameter_exactly_127")
    nontriv = n >= 3 and m >= 3 and not (int(DX.max()) <= 1 and int(DY.max()) <= 1)
    ctx.count("kind:" + kind.replace("~iso", "").split("/")[0]); ctx.count("size:%d" % max(n, m))
    ctx.count("equal_size" if n == m else "unequal_size")
    if iso:
        ctx.count("isomorphic_pairs")
    eDX, eDY = enc(L(DX)), enc(L(DY))
    base = {"AG": np.asarray(A).tolist(), "AH": np.asarray(B).tolist(), "dtype": str(DX.dtype)}

    # --- find_lb
    with np.errstate(all="ignore"):
        st, lb, _ = call(g.find_lb, DX, DY)
    if st == "err":
        return code_raised(ctx, "find_lb", lb, A, B, iso)
    try:
        lb = int(lb)
    except (TypeError, ValueError):
        return convention_break(ctx, "find_lb(DX, DY) returns %r, not one integer" % (lb,), "mgh.call:find_lb", A, B, iso, base=base)

    def c_lb(ans, lb=lb):
        ctx.case(dict(base, op="find_lb"), nontriv, sample_every=211)
        if iso:
            ctx.test("iso_lb_zero(real code)", lb == 0)
            if lb != 0:
                iso_lb_nonzero(ctx, "find_lb = %s" % lb, A, B)
        if nat(ans) != lb:
            search_failing_input(ctx, "find_lb: code=%s model=%s" % (lb, ans), dict(base, op="find_lb", code=lb, model=str(ans)),
                                 "mgh.lb", A, B)
    b.add("mgh.lb %s %s" % (eDX, eDY), c_lb)

    # --- the pieces of find_lb, on one d
    diam = int(DX.max())
    if diam >= 1 and r.random() < 0.7:
        d = r.randint(1, diam)
        K = priv(g.find_largest_size_bounded_curvature, DX, DX.max(), DX.dtype.type(d))

        def c_curv(ans, K=K, d=d, DX=DX):
            ctx.case(dict(base, op="curvature", d=d), nontriv, sample_every=0)
            Km = [[int(x) for x in row] for row in ans[0]]
            idx = [int(x) for x in ans[1]]
            sub = np.asarray(DX)[np.ix_(idx, idx)].astype(int).tolist() if idx else []
            if Km != L(K) or sub != Km:
                search_failing_input(ctx, "find_largest_size_bounded_curvature(d=%d): code returns %s, model returns %s (rows %s)"
                                     % (d, L(K), Km, idx), dict(base, op="curvature", d=d), "mgh.curv", A, B)
        b.add("mgh.curv %s %d" % (eDX, d), c_curv)
        maxd = max(int(DX.max()), int(DY.max()))
        dists = priv(g.represent_distance_matrix_rows_as_distributions, DX, max(DX.max(), DY.max()))

        def c_dists(ans, dists=dists):
            ctx.case(dict(base, op="distributions"), nontriv, sample_every=0)
            if [[int(x) for x in row] for row in ans] != L(dists):
                search_failing_input(ctx, "rows-as-distributions: code=%s model=%s" % (L(dists), ans),
                                     dict(base, op="distributions"), "mgh.dists", A, B)
        b.add("mgh.dists %s %d" % (eDX, maxd), c_dists)
        um = priv(g.find_unique_max_distributions, dists)

        def c_um(ans, um=um):
            ctx.case(dict(base, op="unique_max"), nontriv, sample_every=0)
            if [[int(x) for x in row] for row in ans] != L(um):
                search_failing_input(ctx, "find_unique_max_distributions: code=%s model=%s" % (L(um), ans),
                                     dict(base, op="unique_max"), "mgh.umax", A, B)
        b.add("mgh.umax %s" % enc(L(dists)), c_um)
        dY = priv(g.represent_distance_matrix_rows_as_distributions, DY, max(DX.max(), DY.max()))
        v, u = um[r.randrange(len(um))], dY[r.randrange(len(dY))]
        fe = bool(priv(g.check_assignment_feasibility, v, u, d))

        def c_fe(ans, v=v, u=u, d=d, fe=fe):
            ctx.case(dict(base, op="feasibility", d=d), nontriv, sample_every=0)
            if ans != fe:
                search_failing_input(ctx, "check_assignment_feasibility(%s,%s,%d): code=%s model=%s" % (L(v), L(u), d, fe, ans),
                                     dict(base, op="feasibility", v=L(v), u=L(u), d=d), "mgh.feas", A, B)
        b.add("mgh.feas %s %s %d" % (enc(L(v)), enc(L(u)), d), c_fe)

    # --- construct_mapping
    for _ in range(1 if large else 2):
        dr = new_draws(ctx)
        with dr:
            pi = dr._perm(n)
            imgs, dist = priv(g.construct_mapping, DX, DY, pi)
        if dr.unmodelled or len(dr.loose["y0s"]) != 1:
            convention_break(ctx, "construct_mapping draws its first image by %s, not by one np.random.choice(|Y|)"
                             % (dr.unmodelled[:1] or "%d calls of np.random.choice" % len(dr.loose["y0s"])), "mgh.rng", A, B, iso, base=base)
            break
        y0 = dr.loose["y0s"][0]
        imgs = [int(x) for x in imgs]; dist = int(dist)
        pil = [int(x) for x in pi]
        f = [0] * n
        for k, x in enumerate(pil):
            f[x] = imgs[k]
        true_dis = dis_of(DX, DY, f)
        ctx.test("mapping_distortion_is_dis_f(real code)", true_dis == dist)

        def c_map(ans, pil=pil, y0=y0, imgs=imgs, dist=dist, true_dis=true_dis):
            ctx.case(dict(base, op="construct_mapping", pi=pil, y0=y0), nontriv, sample_every=223)
            if [int(x) for x in ans[0]] != imgs or nat(ans[1]) != dist or true_dis != dist:
                search_failing_input(ctx, "construct_mapping(pi=%s,y0=%d): code=(%s,%s) model=%s, independent distortion of the "
                                     "returned map=%s" % (pil, y0, imgs, dist, ans, true_dis),
                                     dict(base, op="construct_mapping", pi=pil, y0=y0), "mgh.map", A, B)
        b.add("mgh.map %s %s %s %d" % (eDX, eDY, enc(pil), y0), c_map)

    # --- find_ub_of_min_distortion / find_ub / estimate / gromov_hausdorff
    order = r.choice(ORDERS)
    if max(n, m) > 12 and order in ((2.0, 0.0), (1.5, 0.5), (1.0, 1.0)):
        order = (0.5, 1.0)
    if large:
        order = r.choice([(0.0, 0.0), (-1.0, -1.0), (0.0, 0.5)])
    ctx.count("order:%s" % (order,))
    goal = r.choice([0, 0, lb, r.randint(0, max(1, diam))])
    dr = new_draws(ctx)
    with dr, np.errstate(all="ignore"):
        st, ub1, _ = call(g.find_ub_of_min_distortion, DX, DY, mapping_sample_size_order=np.array(order), goal_distortion=goal)
    if st == "err":
        return code_raised(ctx, "find_ub_of_min_distortion", ub1, A, B, iso, order)
    if not check_draws(ctx, dr, base):
        return convention_break(ctx, "find_ub_of_min_distortion draws by %s, which the model does not transcribe" % dr.unmodelled[0],
                                "mgh.rng", A, B, iso, order, base=base)
    try:
        ub1 = int(ub1)
    except (TypeError, ValueError):
        return convention_break(ctx, "find_ub_of_min_distortion(DX, DY, ...) returns %r, not one integer" % (ub1,),
                                "mgh.call:find_ub_of_min_distortion", A, B, iso, order, base=base)
    c0 = dr.calls[0]

    def c_ubmin(ans, c0=c0, ub1=ub1, goal=goal, order=order):
        ctx.case(dict(base, op="find_ub_of_min_distortion", order=list(order), goal=goal, draws=c0), nontriv, sample_every=227)
        good = not isinstance(ans, str) and nat(ans[0]) == ub1 and nat(ans[1]) == len(c0["y0s"]) and \
            draws_consistent(c0, order, ub1 <= goal)
        if not good:
            search_failing_input(ctx, "find_ub_of_min_distortion(order=%s, goal=%s): code=%s after %d mappings / %d permutations drawn, "
                                 "model=%s, expected sample size %s" % (order, goal, ub1, len(c0["y0s"]), len(c0["perms"]), ans,
                                                                        sorted(n_mappings(c0["n"], order))),
                                 dict(base, op="find_ub_of_min_distortion", order=list(order), goal=goal), "mgh.ubmin", A, B, order)
    b.add("mgh.ubmin %s %s %s %s %d" % (eDX, eDY, enc(c0["perms"]), enc(c0["y0s"]), goal), c_ubmin)

    dr = new_draws(ctx)
    which = r.random()
    with dr, np.errstate(all="ignore"):
        if which < 0.35:
            st, v, _ = call(g.find_ub, DX, DY, mapping_sample_size_order=np.array(order), double_lb=lb)
        elif which < 0.7:
            st, v, _ = call(g.estimate, DX, DY, mapping_sample_size_order=np.array(order))
        else:
            st, v, _ = call(g.gromov_hausdorff, np.array(A), np.array(B), mapping_sample_size_order=np.array(order))
    if st == "err":
        return code_raised(ctx, "find_ub/estimate/gromov_hausdorff", v, A, B, iso, order)
    if not check_draws(ctx, dr, base):
        return convention_break(ctx, "the upper-bound heuristic draws by %s, which the model does not transcribe" % dr.unmodelled[0],
                                "mgh.rng", A, B, iso, order, base=base)
    if len(dr.calls) != 2:
        # the model transcribes find_ub as one X->Y and one Y->X call of find_ub_of_min_distortion; another call structure is not
        # fixed by the property (a sound shortcut is legitimate): judge the returned bounds on the public entry point
        return convention_break(ctx, "find_ub made %d calls of find_ub_of_min_distortion (the model: X->Y then Y->X)" % len(dr.calls),
                                "mgh.ubcalls", A, B, iso, order, base=base)
    c1, c2 = dr.calls
    args = "%s %s %s %s" % (enc(c1["perms"]), enc(c1["y0s"]), enc(c2["perms"]), enc(c2["y0s"]))
    if which < 0.35:
        ub = int(v)

        def c_ub(ans, ub=ub, c1=c1, c2=c2, order=order):
            ctx.case(dict(base, op="find_ub", order=list(order), draws=[c1, c2]), nontriv, sample_every=229)
            good = not isinstance(ans, str) and nat(ans[0]) == ub and nat(ans[1]) == len(c1["y0s"]) and nat(ans[2]) == len(c2["y0s"])
            if not good:
                search_failing_input(ctx, "find_ub(order=%s): code=%s model=%s" % (order, ub, ans),
                                     dict(base, op="find_ub", order=list(order)), "mgh.ub", A, B, order)
        b.add("mgh.ub %s %s %s %d" % (eDX, eDY, args, lb), c_ub)
    else:
        if which >= 0.7:
            # the public entry point builds its own (int8) matrices
            eX, eY = enc(L(metric(A))), enc(L(metric(B)))
            opname = "gromov_hausdorff"
        else:
            eX, eY = eDX, eDY
            opname = "estimate"
        lo, hi = float(v[0]), float(v[1])
        ctx.test("half_integral(real code)", half_integral(lo) and half_integral(hi))
        ctx.test("lb<=ub(real code)", lo <= hi)
        if iso:
            ctx.test("iso_lb_zero(real code)", lo == 0.0)

        def c_est(ans, lo=lo, hi=hi, order=order, opname=opname, c1=c1, c2=c2):
            ctx.case(dict(base, op=opname, order=list(order), draws=[c1, c2]), nontriv, sample_every=233)
            good = not isinstance(ans, str) and half_integral(lo) and half_integral(hi) and lo <= hi and \
                nat(ans[0]) == 2 * lo and nat(ans[1]) == 2 * hi and (lo == 0.0 or not iso)
            if not good:
                search_failing_input(ctx, "%s(order=%s): code=(%s,%s) model(doubled)=%s" % (opname, order, lo, hi, ans),
                                     dict(base, op=opname, order=list(order)), "mgh.est", A, B, order)
        b.add("mgh.est %s %s %s" % (eX, eY, args), c_est)
    if len(b.lines) > 4000:
        b.flush(ctx)


def degenerate_orders(ctx, b):
    """malformed stream: an order whose float sample size is 0 (|X|^-2000 underflows) -> the lazy generator is empty ->
    `next()` raises StopIteration out of find_ub_of_min_distortion; the model rejects the empty permutation list the same way"""
    g, r = G(), ctx.rng
    for _ in range(ctx.n(12, 60)):
        n, m = r.randint(2, 7), r.randint(1, 7)
        _, A = gen_graph(r, n); _, B = gen_graph(r, m)
        DX, DY = metric(A), metric(B)
        dr = Draws(mode="numpy", np_seed=r.randrange(2 ** 31))
        with dr, np.errstate(all="ignore"):
            st, v, _ = call(g.find_ub_of_min_distortion, DX, DY, mapping_sample_size_order=np.array([-2000.0, 0.0]))
        code = "err:" + v if st == "err" else int(v)
        drawn = dr.calls[0] if dr.calls else {"perms": ["?"], "y0s": []}

        def c(ans, code=code, A=A, B=B, drawn=drawn):
            ctx.case({"op": "find_ub_of_min_distortion", "order": [-2000.0, 0.0], "AG": A.tolist(), "AH": B.tolist()}, False)
            ctx.count("errors:" + str(code))
            if ans != code or drawn["perms"]:
                search_failing_input(ctx, "sample size 0: code=%s (drew %d permutations) model=%s" % (code, len(drawn["perms"]), ans),
                                     {"op": "find_ub_of_min_distortion", "order": [-2000.0, 0.0], "AG": A.tolist(), "AH": B.tolist()},
                                     "mgh.ubmin", A, B)
        b.add("mgh.ubmin %s %s [] [] 0" % (enc(L(DX)), enc(L(DY))), c)


def check_draws(ctx, dr, base):
    """False when the code drew in a way the model has no counterpart for (the caller reports a correspondence break)"""
    if dr.bad:
        raise common.HarnessError("np.random contract broken: %r" % dr.bad[:3])
    ctx.count("rng:" + dr.mode)
    return not dr.unmodelled


def draws_consistent(c, order, matched):
    """the lazy generator: N permutations available, one more drawn after every mapping while any is left"""
    k, p = len(c["y0s"]), len(c["perms"])
    for N in n_mappings(c["n"], order):
        if N >= 1 and 1 <= k <= N and p == min(k + 1, N) and (k == N or matched):
            return True
    return False


def gen_distribution(r, length, total):
    v = [0] * length
    for _ in range(total):
        v[r.randrange(length)] += 1
    return v


def feas_stream(ctx, b):
    """check_assignment_feasibility on arbitrary distributions (not only those that arise from graphs)"""
    g, r = G(), ctx.rng
    for _ in range(ctx.n(2000, 40000)):
        md = r.randint(1, 7)
        p = r.randint(0, 7); q = p + r.randint(0, 3) if r.random() < 0.8 else r.randint(0, 9)
        v, u = gen_distribution(r, md, p), gen_distribution(r, md, q)
        d = r.randint(1, md + 1)
        try:
            fe = bool(priv(g.check_assignment_feasibility, np.array(v, dtype=np.int8), np.array(u, dtype=np.int8), d))
        except HelperRaised as e:
            return feas_unusable(ctx, e, v, u, d)

        def c(ans, v=v, u=u, d=d, fe=fe):
            ctx.case({"op": "feasibility", "v": v, "u": u, "d": d}, sum(v) >= 2, sample_every=239)
            if ans != fe:
                search_failing_input(ctx, "check_assignment_feasibility(%s,%s,%d): code=%s model=%s" % (v, u, d, fe, ans),
                                     {"op": "feasibility", "v": v, "u": u, "d": d}, "mgh.feas")
        b.add("mgh.feas %s %s %d" % (enc(v), enc(u), d), c)

        def ce(ans, v=v, u=u, d=d, fe=fe):
            py = assignable_brute_py(v, u, d)
            ctx.test("injection_oracles_agree(lean search vs python matching)", py == ans)
            if py != ans:
                raise common.HarnessError("the two injection oracles disagree on %r %r %r" % (v, u, d))
            ok = ans == fe
            ctx.test("greedy_feasibility_vs_exhaustive(sampled)", ok)
            if not ok:
                feas_failure(ctx, v, u, d, fe, ans)
        b.add("mgh.feas.exh %s %s %d" % (enc(v), enc(u), d), ce)


def feas_unusable(ctx, e, v, u, d):
    """check_assignment_feasibility (private) cannot be called as (v, u, d) any more: a correspondence break, reported once, with the
    failing-input search on the public entry point; the direct feasibility streams are skipped"""
    if not ctx.__dict__.get("_c05_feas_unusable"):
        ctx._c05_feas_unusable = True
        search_failing_input(ctx, "check_assignment_feasibility(%s,%s,%d), called directly with the harness's own convention, raised %s"
                             % (list(v), list(u), d, e.kind), {"op": "feasibility", "v": list(v), "u": list(u), "d": d}, "mgh.call:check_assignment_feasibility")


def assignable_brute_py(v, u, d):
    """independent of the Lean search: bipartite matching by augmenting paths on the expanded vectors"""
    ev = [len(v) - c for c in range(len(v)) for _ in range(v[c])]
    eu = [len(u) - c for c in range(len(u)) for _ in range(u[c])]
    match = [-1] * len(eu)

    def aug(k, seen):
        for l in range(len(eu)):
            if abs(ev[k] - eu[l]) < d and l not in seen:
                seen.add(l)
                if match[l] < 0 or aug(match[l], seen):
                    match[l] = k
                    return True
        return False
    return all(aug(k, set()) for k in range(len(ev)))


def feas_failure(ctx, v, u, d, code, exh):
    """the greedy of the real code disagrees with the exhaustive search: a wrong answer can only hurt the property when it
    says `infeasible` wrongly (unsound lower bound); look for graphs where it does"""
    py = assignable_brute_py(v, u, d)
    what = "check_assignment_feasibility(%s,%s,%d) = %s but exhaustive injection search says %s (python matching: %s)" % (v, u, d, code, exh, py)
    search_failing_input(ctx, what, {"op": "feasibility", "v": v, "u": u, "d": d, "code": code, "exhaustive": exh}, "mgh.feas.exh")


def feas_exhaustive(ctx):
    """[T] thorough: all pairs of distributions with max_d <= 5, |v| <= 6, |u| <= 7 (quick: a slice of the space)"""
    if found_any(ctx):
        return
    g = G()

    def dists(md, tot):
        if md == 1:
            yield (tot,); return
        for a in range(tot + 1):
            for rest in dists(md - 1, tot - a):
                yield (a,) + rest
    lines, cases = [], []
    mds = [1, 2, 3, 4, 5] if ctx.thorough else [1, 2, 3]
    pmax, qmax = (6, 7) if ctx.thorough else (4, 5)
    stride = 0
    for md in mds:
        for p in range(0, pmax + 1):
            for q in range(p, qmax + 1):
                for v in dists(md, p):
                    for u in dists(md, q):
                        stride += 1
                        if ctx.thorough and md == 5 and p + q >= 9 and stride % 7:
                            continue
                        for d in range(1, md + 1):
                            cases.append((v, u, d))
    if len(cases) > ctx.n(60000, 600000):
        step = len(cases) // ctx.n(60000, 600000) + 1
        cases = cases[ctx.rng.randrange(step)::step]
    lines = ["mgh.feas.exh %s %s %d" % (enc(list(v)), enc(list(u)), d) for v, u, d in cases]
    answers = ask(lines)
    bad = 0
    for (v, u, d), a in zip(cases, answers):
        try:
            fe = bool(priv(g.check_assignment_feasibility, np.array(v, dtype=np.int8), np.array(u, dtype=np.int8), d))
        except HelperRaised as e:
            return feas_unusable(ctx, e, v, u, d)
        ok = a == fe
        ctx.test("greedy_feasibility_vs_exhaustive(enumerated)", ok)
        if not ok:
            bad += 1
            feas_failure(ctx, list(v), list(u), d, fe, a)
            if bad > 2:
                return
    ctx.extra["feasibility_space"] = {"max_d": mds[-1], "v_entries_max": pmax, "u_entries_max": qmax, "cases": len(cases)}


def oracle_stream(ctx):
    """[T] the bracket property on the real code against the exhaustive value of 2*mGH (Lean spec and NumPy brute force)"""
    r = ctx.rng
    g = G()
    cases, lines = [], []
    for i in range(ctx.n(320, 3500)):
        big = r.random() < (0.12 if not ctx.thorough else 0.2)
        hi = 6 if big else 5
        n, m = r.randint(1, hi), r.randint(1, hi)
        _, A = gen_graph(r, n)
        iso = r.random() < 0.15
        if r.random() < 0.3:
            # long thin graph against a tree / star-like graph of 5-6 vertices: different diameters, curvature taken from
            # the smaller-diameter graph (the distance distributions are sized by the LARGER diameter)
            n, m = r.choice([5, 6]), r.choice([5, 6])
            _, A = gen_graph(r, n, r.choice(["path", "tree", "lolli"]))
            iso = False
            _, B0 = gen_graph(r, m, r.choice(["tree", "tree", "star", "gnp"]))
            cases.append((A, relabel(r, B0), False, r.choice(ORDERS), r.randrange(2 ** 31)))
            lines.append("mgh.spec %s %s" % (enc(L(metric(A))), enc(L(metric(cases[-1][1])))))
            ctx.count("oracle:different_diameter_class")
            continue
        if iso:
            B = relabel(r, A)
        else:
            _, B = gen_graph(r, m)
            if r.random() < 0.5:
                B = relabel(r, B)
        cases.append((A, B, iso, r.choice(ORDERS), r.randrange(2 ** 31)))
        lines.append("mgh.spec %s %s" % (enc(L(metric(A))), enc(L(metric(B)))))
    answers = ask(lines)
    for (A, B, iso, order, s), a in zip(cases, answers):
        if a == "bad-op":
            raise common.HarnessError("mgh.spec rejected a case")
        DX, DY = metric(A), metric(B)
        py = mgh2_brute(DX, DY)
        ctx.test("lean_spec_vs_numpy_bruteforce", int(a) == py)
        if int(a) != py:
            raise common.HarnessError("the two exhaustive oracles disagree: lean=%s numpy=%s on %r %r" % (a, py, A.tolist(), B.tolist()))
        ok, det = bracket_on_real_code(A, B, order, s, mgh2=py)
        ctx.test("lb<=mGH<=ub, half-integral (real code vs exhaustive)", ok)
        okiso = (not iso) or det.get("lb") == 0.0
        if iso:
            ctx.test("iso_lb_zero(real code)", okiso)
            ctx.test("iso_mGH_zero(oracle)", py == 0)
        if det.get("lb") is not None and 2 * det["lb"] == py == 2 * det["ub"]:
            ctx.count("oracle:tight")
        elif det.get("lb") is not None:
            ctx.count("oracle:strict_gap")
        if not (ok and okiso):
            ctx.violation("the mGH estimates do not bracket the exhaustive distance (or iso lb != 0): %r" % det,
                          {"AG": A.tolist(), "AH": B.tolist(), "order": list(order), "np_seed": s, "iso": iso},
                          found_input=True, detail=det)
            if len(ctx.violations) > 5:
                return


def onto_stream(ctx):
    """[T] the UPPER bound against the exact distance where the two directions differ most: |X| >= |Y|, X dense / of small diameter
    (clique, complete bipartite, star, dense G(n,p), lollipop), Y long and thin (path, cycle, tree, broom) in its NATURAL labelling or
    a relabelling, so that a cheap X->Y map exists (collapse X onto a few low-numbered neighbouring vertices of Y: distortion about
    diam X) while every Y->X map is expensive (distortion about diam Y - diam X).  upper >= mGH then hinges on the Y->X half of
    find_ub: an upper bound taken from one direction only, or a shortcut that skips the other direction when the sampled map
    'looks onto', shows here.  Both argument orders, every order in ORDERS, several generator seeds; exact oracle (exhaustive up to
    6 vertices, constraint search up to EXACT_MAX)."""
    r = ctx.rng
    for i in range(ctx.n(260, 2600)):
        m = r.randint(3, 7)
        n = r.randint(m, min(EXACT_MAX, m + 3))
        _, X = gen_graph(r, n, r.choice(["clique", "clique", "clique", "bip", "star", "lolli"]))
        if r.random() < 0.3:
            X = adj_from_edges(n, [(a, b) for a in range(n) for b in range(a) if r.random() < 0.8] + [(0, a) for a in range(1, n)])
        _, Y = gen_graph(r, m, r.choice(["path", "path", "cycle", "tree", "lolli", "grid"]))
        if r.random() < 0.35:
            Y = relabel(r, Y)
        if r.random() < 0.5:
            X = relabel(r, X)
        A, B = (X, Y) if r.random() < 0.7 else (Y, X)
        order, s = r.choice(ORDERS), r.randrange(2 ** 31)
        ok, det, case = judge_public(A, B, order, s)
        ctx.test("ub>=mGH>=lb where the two directions differ (real code vs exact oracle, |X|>=|Y|)", ok)
        ctx.count("onto_stream:n=%d" % max(len(A), len(B)))
        if det.get("lb") is not None and isinstance(det.get("mGH"), float):
            ctx.count("onto_stream:" + ("tight" if det["lb"] == det["mGH"] == det["ub"] else "strict_gap"))
        if not ok:
            ctx.violation("the mGH estimates do not bracket the exact distance of a dense graph on %d and a thin graph on %d vertices: %r"
                          % (len(X), len(Y), det), case, found_input=True, detail=det)
            return


def oracle_midsize(ctx):
    """[T] the bracket on the real code against the EXACT 2*mGH of graphs with 7-10 vertices (constraint search
    `mgh2_exact`, cross-validated against the exhaustive enumeration on every small case of this run): the sizes at
    which a mapping construction that stops early, or a bound that is only wrong for long cycles/paths, shows"""
    if found_any(ctx):
        return
    r = ctx.rng
    for _ in range(ctx.n(30, 400)):                     # the oracle itself against brute force
        n, m = r.randint(1, 5), r.randint(1, 5)
        DX, DY = metric(gen_graph(r, n)[1]), metric(gen_graph(r, m)[1])
        a, b = mgh2_exact(DX, DY), mgh2_brute(DX, DY)
        ctx.test("constraint_search_vs_bruteforce", a == b)
        if a != b:
            raise common.HarnessError("mgh2_exact=%s but brute force=%s on %r %r" % (a, b, DX.tolist(), DY.tolist()))
    for i in range(ctx.n(140, 1500)):
        n, m = r.randint(6, 10), r.randint(5, 10)
        fam = r.random()
        if fam < 0.3:                                   # even cycle against a path of about half its length, and neighbours
            k = r.randint(3, 6)
            _, A = gen_graph(r, 2 * k - r.choice([0, 0, 1]), "cycle")
            _, B = gen_graph(r, k + r.choice([0, 1, 1, 2]), "path")
        elif fam < 0.5:
            _, A = gen_graph(r, n, r.choice(["cycle", "path", "lolli", "tree"]))
            _, B = gen_graph(r, m, r.choice(["path", "star", "tree", "gnp"]))
        else:
            _, A = gen_graph(r, n)
            _, B = gen_graph(r, m)
        if r.random() < 0.5:
            A, B = B, A
        B = relabel(r, B)
        DX, DY = metric(A), metric(B)
        mgh2 = mgh2_exact(DX, DY)
        order, s = r.choice(ORDERS), r.randrange(2 ** 31)
        ok, det = bracket_on_real_code(A, B, order, s, mgh2=mgh2)
        ctx.test("lb<=mGH<=ub, half-integral (real code vs exact constraint search, 6-10 vertices)", ok)
        ctx.count("oracle_midsize:n=%d" % max(len(DX), len(DY)))
        if det.get("lb") is not None:
            ctx.count("oracle_midsize:" + ("tight" if 2 * det["lb"] == mgh2 == 2 * det["ub"] else "strict_gap"))
        if not ok:
            ctx.violation("the mGH estimates do not bracket the exact distance of two graphs with %d and %d vertices: %r" % (len(DX), len(DY), det),
                          {"AG": np.asarray(A).tolist(), "AH": np.asarray(B).tolist(), "order": list(order), "np_seed": s, "iso": False,
                           "oracle": "mgh2_exact"}, found_input=True, detail=det)
            return


FINDING_SITE = "persim/gromov_hausdorff.py:int8-key-product"


def iso_midsize(ctx):
    """[T] `isomorphic graphs always receive lower bound 0` on the real code for MANY graphs of 10-15 vertices (trees,
    sparse random graphs, spiders) against a random relabelling: 2*mGH = 0 is known without any search, so this clause
    has an exact oracle at sizes where exhaustive mGH is out of reach.  An unsound tightening of the lower bound that
    only shows on graphs beyond the exhaustive range (>= 11 vertices) is caught here."""
    if found_any(ctx):
        return
    g, r = G(), ctx.rng
    fallback = False
    for _ in range(ctx.n(2500, 25000)):
        n = r.randint(10, 15)
        kind = r.choice(["tree", "tree", "tree", "gnp", "spider"])
        if kind == "spider":                       # a few legs of different lengths around a centre
            edges, v = [], 1
            while v < n:
                leg = min(r.randint(1, 4), n - v)
                prev = 0
                for _ in range(leg):
                    edges.append((prev, v)); prev = v; v += 1
            A = adj_from_edges(n, edges)
        else:
            kind, A = gen_graph(r, n, kind)
        B = relabel(r, A)
        DX, DY = metric(A), metric(B)
        ctx.count("iso_midsize:" + kind)
        if not fallback:
            st, lb, _ = call(g.find_lb, DX, DY)
            try:
                ok = st == "ok" and float(lb) == 0.0
            except (TypeError, ValueError):
                ok = False
            if ok:
                ctx.test("iso_lb_zero_midsize(real code)", True)
                continue
            # find_lb is private and called here with the harness's convention: confirm on gromov_hausdorff before claiming
            if iso_lb_nonzero(ctx, "find_lb = %s" % (lb if st == "ok" else "raised " + str(lb)), A, B):
                ctx.test("iso_lb_zero_midsize(real code)", False)
                return
            fallback = True     # the private route is unusable on this tree: the clause goes through the public entry point from here on
            continue
        okp, det, case = judge_public(A, B, (0.0, 0.0), 0, iso=True)
        ctx.test("iso_lb_zero_midsize(real code)", okp)
        if not okp:
            ctx.violation("isomorphic %d-vertex graphs do not receive lower bound 0: %r" % (n, det), case, found_input=True, detail=det)
            return


def large_graph_probe(ctx):
    """graphs with >= 128 vertices and diameter <= 127: in the unrepaired code `len(K) * diam_X` is `Python int * np.int8`;
    NumPy 2 refuses a Python int that does not fit the scalar's type (OverflowError), so no bounds are returned at all
    (repaired in /repo by `int(diam_X)`).  A crash here is a failing input of the property (VIOLATION with replay) unless
    known_findings.txt (never written here) carries a `known:` entry for it, in which case it prints KNOWN-FINDING."""
    if found_any(ctx):
        return
    g = G()
    A = adj_from_edges(128, [(0, i) for i in range(1, 128)])
    np.random.seed(0)
    with np.errstate(all="ignore"):
        st, v, _ = call(g.gromov_hausdorff, A, relabel(ctx.rng, A), mapping_sample_size_order=np.array([0.0, 0.0]))
    entries = [(k, t) for k, t in common.known_findings("C05") if FINDING_SITE in t]
    rec = {"input": "star on 128 vertices vs a relabelling of itself", "outcome": ("err:" + v) if st == "err" else [float(v[0]), float(v[1])],
           "disposition": [k for k, _ in entries] or "none recorded in known_findings.txt"}
    ctx.extra["large_graph_probe"] = rec
    if st == "ok":
        ok = float(v[0]) == 0.0 and half_integral(v[1])
        ctx.test("large_graphs_return_bounds(128 vertices, isomorphic pair)", ok)
        if not ok:
            ctx.violation("128-vertex isomorphic stars: estimates %r (lower bound must be 0, upper a multiple of 1/2)" % (rec["outcome"],),
                          {"op": "large_star", "n": 128}, found_input=True)
        return
    if any(k == "known" for k, _ in entries):
        ctx.known(FINDING_SITE, "site=%s gromov_hausdorff raises %s on graphs with >= 128 vertices and diameter <= 127 "
                  "(len(K) * np.int8 scalar under NumPy 2); no bounds are returned" % (FINDING_SITE, v))
    else:
        ctx.violation("gromov_hausdorff raises %s on two isomorphic 128-vertex stars instead of returning bounds "
                      "(len(K) * np.int8 scalar overflows under NumPy 2)" % v, {"op": "large_star", "n": 128}, found_input=True)


def replay(ctx, rep):
    c = rep["case"]
    if "AG" in c and "np_seed" in c:
        A, B = np.array(c["AG"]), np.array(c["AH"])
        mg = 0 if (c.get("iso") and len(A) > 6) else (mgh2_exact(metric(A), metric(B)) if c.get("oracle") == "mgh2_exact" else None)
        ok, det = bracket_on_real_code(A, B, tuple(c["order"]), c["np_seed"], mgh2=mg)
        if ok and (c.get("iso") or is_iso_pair(A, B)):
            ok = det["lb"] == 0.0
        print("gromov_hausdorff(AG, AH, mapping_sample_size_order=%s) after np.random.seed(%s): %r" % (c["order"], c["np_seed"], det))
        return ok
    if c.get("op") == "large_star":
        A = adj_from_edges(c["n"], [(0, i) for i in range(1, c["n"])])
        st, v, _ = call(G().gromov_hausdorff, A, A, mapping_sample_size_order=np.array([0.0, 0.0]))
        print("gromov_hausdorff(star(%d), star(%d)):" % (c["n"], c["n"]), st, v)
        return st == "ok" and float(v[0]) == 0.0 and half_integral(v[1])
    if c.get("op") == "iso":                      # records written before the confirmation went through the public entry point
        ok, det, _ = judge_public(np.array(c["AG"]), np.array(c["AH"]), (0.0, 0.0), 0, iso=True)
        print("gromov_hausdorff on an isomorphic pair:", det)
        return ok
    print("correspondence replay (no failing input was found): re-run `VERIF_SEED=%s ./check.py C05 --tier %s`; case: %s"
          % (rep.get("seed"), rep.get("tier"), str(c)[:1500]))
    from types import SimpleNamespace
    before = len(ctx.violations)
    if "AG" in c:
        b = Batch()
        one_pair(ctx, b, "replay", np.array(c["AG"]), np.array(c["AH"]), False)
        b.flush(ctx)
    elif c.get("op") == "feasibility":
        v, u, d = c["v"], c["u"], c["d"]
        try:
            fe = bool(priv(G().check_assignment_feasibility, np.array(v, dtype=np.int8), np.array(u, dtype=np.int8), d))
        except HelperRaised as e:
            print("check_assignment_feasibility (private) is not callable as (v, u, d) on this tree: %s; nothing about the property "
                  "is decided by this record" % e)
            return True
        a = ask(["mgh.feas %s %s %d" % (enc(v), enc(u), d), "mgh.feas.exh %s %s %d" % (enc(v), enc(u), d)])
        print("code:", fe, "model:", a[0], "exhaustive:", a[1])
        return fe == a[0] == a[1]
    return before == len(ctx.violations)


MANIFEST = {
    "text": "Proof: Lean theorems (Props/C05.lean) about a line-by-line model of estimate/find_lb/find_ub over Nat matrices, against "
            "the algorithm-independent definition mGH = 1/2 max(min_f dis f, min_g dis g) over all total maps, for distance matrices "
            "of every size, every value of the sort-key product, every list of permutations and first images (hence every "
            "generator state and every mapping_sample_size_order). ALL FULL STRENGTH, none _partial: trivial_lb_sound (diameter gap, "
            "size collision), curvature_is_principal (the returned K is a principal submatrix with entries >= d whatever the sort "
            "keys), thmA, thmB_row, greedy_complete (+ greedy_complete_list; [P2] discharged: a `false` answer of the sliding-window "
            "greedy yields a Hall violator, proved by a loop invariant, and a Hall violator excludes every injection), find_lb_sound, "
            "mapping_distortion_exact (construct_mapping returns a total map and exactly its distortion), "
            "find_ub_of_min_distortion_sound, find_ub_sound, find_ub_total/estimate_total (no failure with >= 1 permutation), "
            "brackets (lower <= mGH <= upper, both in (1/2)N; brackets_upper is its unconditional half), iso_lb_zero, "
            "mGH2_eq_zero_of_isometric, exhaustive_oracle_correct (the driver's mgh.spec search equals the specification), "
            "feasibility_fuel_irrelevant / curvature_fuel_irrelevant (the recursion bounds the model adds to the two while-loops are "
            "never exhausted), and the regression witnesses old_key_product_counterexample / old_feasibility_counterexample for the "
            "int8 defect repaired by /repo a42e80a. The model is tied to the code on every run: every anchored function "
            "is called directly on BFS metrics of generated connected graphs (up to 200 vertices) with all np.random draws recorded "
            "and replayed into the model, integer outputs compared exactly (find_lb, the curvature submatrix, distributions, unique "
            "maxima, feasibility, construct_mapping, find_ub_of_min_distortion incl. the number of mappings built and permutations "
            "drawn, find_ub, estimate, gromov_hausdorff). The property observes the public gromov_hausdorff only: when a private helper "
            "called with the harness's convention raises / returns another shape, or the code's internal calls and np.random draws are not "
            "the ones the model transcribes, the bracket is evaluated on the public entry point against an exact oracle (exhaustive <= 6 "
            "vertices, constraint search <= 9, 0 for isomorphic pairs) and only a failure there is claimed as a failing input; otherwise "
            "it is a correspondence break (no-failing-input-found). An exception of gromov_hausdorff itself on two connected graphs is a "
            "failing input.",
    "note": "Trusted: Lean kernel + Mathlib, axioms propext/Classical.choice/Quot.sound; the correspondence harness and its RNG capture; "
            "NumPy semantics transcribed in the model (argmin = first minimum, np.unique(axis=0), np.delete, masked sums); exact "
            "(non-wrapping) integer arithmetic in the code, which is what the repair a42e80a establishes and the graphs with 66..200 "
            "vertices exercise; np.random.permutation/choice contracts (checked on every recorded draw). [T] only: the "
            "bracket, half-integrality and iso-lb-0 evaluated on the real code against the exhaustive 2*mGH for |X|,|Y| <= 6 (Lean "
            "`mgh.spec`, proved equal to the specification and cross-checked with an independent NumPy brute force) and against the exact "
            "constraint search `mgh2_exact` (cross-checked with the brute force on small cases of every run) for 5..12 vertices, for dense-"
            "against-thin pairs with |X| >= |Y| up to 9 vertices, and for the 7-8-vertex candidates of the wide lower-bound search (the "
            "oracle's name is stored in the replay case and re-evaluated by replay); and the greedy "
            "feasibility against exhaustive injection search on all small distributions (thorough: max_d <= 5, |v| <= 6, |u| <= 7; the "
            "injection-search oracle is cross-checked with a Python matching). Graph-format handling in front of estimate() is C17.",
    "technique": "Lean 4 theorems over a hand-written model with the RNG as an explicit input + differential correspondence "
                 "with recorded np.random draws + exhaustive oracle for small graphs",
}
MANIFEST["note"] += " " + py2lean.manifest_note("mgh") + " " + py2lean.manifest_note("ghentry")
