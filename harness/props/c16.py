"""C16 — persistent entropy is the Shannon entropy of normalised bar lengths.

Theorems: lean/PersimVerif/Props/C16.lean (model lean/PersimVerif/Model/Entropy.lean at ℝ with Real.log).
Tie: `persistent_entropy` of the real code vs the same model executed at Float (driver op `ent`).
[T]: the property's laws evaluated directly on the real code (rounding is outside the theorems).
"""
import math
import numpy as np
from .. import common
from ..translator import py2lean
from ..common import enc, ask, close, call

LEVEL = "proof"
TRUSTED = [py2lean.trusted_note("entropy")]
PROP_FILES = ["PersimVerif/Props/C16.lean", py2lean.prop_file("entropy")]
RULE = ("barcodes generated from one PRNG: 1-4 diagrams of 0-12 bars, coordinates from lattice/half/dyadic/"
        "decimal/uniform modes over scales 2^-20..2^20, infinite deaths with prob 0.25, all 8 flag combinations, "
        "a malformed stream with non-positive bars; non-trivial = at least one diagram with >=2 finite bars; "
        "distinct by digest of (flags, diagrams)")
ASSUMPTIONS = ["np.log/np.sum agree with the model's Float.log/left fold to 1e-12 (compared on every case)",
               "coordinates are finite or +inf (the only non-finite value the routine treats); -inf/NaN inputs are outside the model"]
TOL = 1e-12


def gen_barcode(ctx, nmax=12, inf_p=0.25, bad_p=0.0):
    g, r = ctx.gen, ctx.rng
    mode = g.mode()
    n = r.randint(0, nmax)
    bars = []
    for _ in range(n):
        b, d = g.bar(mode, allow_diag=False)
        if r.random() < inf_p:
            d = math.inf
        if r.random() < bad_p:
            b, d = (d, b) if r.random() < 0.5 and math.isfinite(d) else (b, b)
        bars.append([b, d])
    return bars


def arr(d):
    return np.array(d, dtype=float).reshape(-1, 2)


def run_code(dgms, keep, vinf, norm, single=False):
    pe = common.pm("persistent_entropy").persistent_entropy
    arg = arr(dgms[0]) if single else [arr(d) for d in dgms]
    with np.errstate(all="ignore"):
        return call(pe, arg, keep_inf=keep, val_inf=vinf, normalize=norm)


def canon(res):
    st, v, _ = res
    if st == "err":
        return "err:" + v
    return [float(x) for x in v]


def pre_build(ctx):
    """source translator (DESIGN.md 3.2): regenerate Generated/SrcEntropy.lean from PERSIM_ROOT's source"""
    py2lean.pre_build(ctx, ("entropy",))


def run(ctx):
    py2lean.report_broken(ctx, PROP_FILES)
    r = ctx.rng
    cases, lines = [], []
    # corpus first
    corpus = [
        ([[[1.0, 2.0]]], False, None, True),                         # n=1 normalised: 0/0
        ([[]], False, None, False),                                  # empty barcode
        ([[[0.0, math.inf]]], False, None, True),                    # all bars infinite
        ([[[0.0, 1.0], [0.0, math.inf]]], True, None, False),         # keep_inf without value
        ([[[0.0, 1.0], [2.0, 2.0]]], False, None, False),             # zero-length bar
        ([[[0.0, 1.0], [0.0, math.inf]]], True, 0.0, False),          # substituted value gives length 0
        ([[[0.0, 1.0], [0.0, math.inf]]], True, 5.0, True),
    ]
    n = ctx.n(600, 12000)
    for i in range(n + len(corpus)):
        if i < len(corpus):
            dgms, keep, vinf, norm = corpus[i]
        else:
            bad = 0.15 if r.random() < 0.15 else 0.0
            dgms = [gen_barcode(ctx, bad_p=bad) for _ in range(r.randint(1, 4))]
            keep = r.random() < 0.4
            vinf = None if r.random() < 0.25 else r.choice([0.5, 7.0, 100.0, float(r.randint(1, 30))])
            norm = r.random() < 0.5
        single = len(dgms) == 1 and r.random() < 0.5
        cases.append((dgms, keep, vinf, norm, single))
        lines.append("ent %s %s %s %s" % (enc(keep), enc(vinf), enc(norm), enc(dgms)))
    answers = ask(lines)
    cov = common.LineCov(["persim/persistent_entropy.py"])
    ctx.extra["anchored_source_digest"] = {"persim/persistent_entropy.py": common.source_digest("persim/persistent_entropy.py")}
    for k, ((dgms, keep, vinf, norm, single), ans) in enumerate(zip(cases, answers)):
        if k < 120:                      # statement coverage of the anchored function on a slice of the run
            with cov:
                code = canon(run_code(dgms, keep, vinf, norm, single))
        else:
            code = canon(run_code(dgms, keep, vinf, norm, single))
        nontriv = any(sum(1 for b in d if math.isfinite(b[1])) >= 2 for d in dgms)
        ctx.case({"op": "ent", "keep_inf": keep, "val_inf": vinf, "normalize": norm, "dgms": dgms}, nontriv, sample_every=97)
        if isinstance(code, str) or isinstance(ans, str):
            ctx.count("errors:" + str(code if isinstance(code, str) else "ok"))
            agree = code == ans
        else:
            ctx.count("ok")
            agree = len(code) == len(ans) and all(close(a, b, TOL) for a, b in zip(code, ans))
        if not agree:
            # correspondence broke: is the *property* violated?  evaluate the definition independently
            spec = spec_value(dgms, keep, vinf, norm)
            bad = spec_disagrees(spec, code)
            ctx.violation("persistent_entropy differs from %s: code=%r model=%r definition=%r"
                          % ("the definition" if bad else "the model (definition agrees with code)", code, ans, spec),
                          {"dgms": dgms, "keep_inf": keep, "val_inf": vinf, "normalize": norm},
                          found_input=bad, correspondence="ent")
            if len(ctx.violations) > 5:
                return
    ctx.extra["anchored_statement_coverage"] = cov.summary()
    laws(ctx)


def spec_value(dgms, keep, vinf, norm):
    """the mathematical definition, written independently of the code and of the model (math.fsum)"""
    if keep and vinf is None:
        return "err:Exception"
    out = []
    for d in dgms:
        if keep:
            d = [[vinf if math.isinf(x) else x for x in b] for b in d]
        else:
            d = [b for b in d if b[1] != math.inf]
        l = [b[1] - b[0] for b in d]
        if not all(x > 0 for x in l):
            return "err:Exception"
        L = math.fsum(l)
        E = -math.fsum((x / L) * math.log(x / L) for x in l) if l else 0.0
        if norm:
            ln = math.log(len(l)) if len(l) > 0 else -math.inf
            E = E / ln if ln != 0 else math.nan
        out.append(E)
    return out


def spec_disagrees(spec, code):
    if isinstance(spec, str) or isinstance(code, str):
        return spec != code
    return len(spec) != len(code) or not all(close(a, b, 1e-9) for a, b in zip(spec, code))


def laws(ctx):
    """[T] the laws of the statement on the real code (float rounding is not covered by the theorems)"""
    r = ctx.rng
    pe = common.pm("persistent_entropy").persistent_entropy
    for _ in range(ctx.n(300, 5000)):
        bars = [b for b in gen_barcode(ctx, nmax=14, inf_p=0.0) if b[1] > b[0]]
        if len(bars) < 1:
            continue
        a = arr(bars)
        n = len(bars)
        H = float(pe(a)[0])
        ok = -1e-12 <= H <= math.log(n) + 1e-12
        ctx.test("bounds", ok)
        perm = a[np.random.RandomState(r.randint(0, 2**31 - 1)).permutation(n)]
        t = r.choice([-3.0, 0.5, 1000.0])
        lam = r.choice([0.25, 3.0, 1024.0])
        span = float(np.max(np.abs(a))) + 1.0
        okp = close(float(pe(perm)[0]), H, 1e-10)
        # translation adds t to both ends: lengths change by rounding only (relative to the coordinates' size)
        okt = close(float(pe(a + t)[0]), H, 1e-7 * max(1.0, (abs(t) + span) / float(np.min(a[:, 1] - a[:, 0]))))
        oks = close(float(pe(a * lam)[0]), H, 1e-10)
        ctx.test("perm", okp); ctx.test("translate", okt); ctx.test("scale", oks)
        eq = np.array([[float(i), float(i) + 2.5] for i in range(n)])
        oke = close(float(pe(eq)[0]), math.log(n), 1e-12)
        ctx.test("equal_lengths", oke)
        okn = True
        if n >= 2:
            Hn = float(pe(a, normalize=True)[0])
            okn = -1e-12 <= Hn <= 1 + 1e-12
            ctx.test("normalised_unit", okn)
        withinf = np.vstack([a, [[0.0, np.inf]]])
        oki = close(float(pe(withinf)[0]), H, 0.0) and \
            close(float(pe(withinf, keep_inf=True, val_inf=9.0)[0]), float(pe(np.vstack([a, [[0.0, 9.0]]]))[0]), 0.0)
        ctx.test("inf_handling", oki)
        both = pe([a, eq])
        okl = close(float(both[0]), H, 0.0) and close(float(both[1]), float(pe(eq)[0]), 0.0) and len(both) == 2
        ctx.test("list_is_map", okl)
        bad = np.vstack([a, [[2.0, 2.0 - r.choice([0.0, 1.0])]]])
        okr = call(pe, bad)[0] == "err"
        ctx.test("nonpositive_raises", okr)
        if not (ok and okp and okt and oks and oke and okn and oki and okl and okr):
            ctx.violation("entropy law fails on the real code (bounds=%s perm=%s translate=%s scale=%s equal=%s norm=%s inf=%s list=%s raises=%s)"
                          % (ok, okp, okt, oks, oke, okn, oki, okl, okr), {"bars": bars, "t": t, "lam": lam}, law=True)
            if len(ctx.violations) > 5:
                return


def replay(ctx, rep):
    c = rep["case"]
    if "dgms" in c:
        code = canon(run_code(c["dgms"], c["keep_inf"], c["val_inf"], c["normalize"]))
        spec = spec_value(c["dgms"], c["keep_inf"], c["val_inf"], c["normalize"])
        print("code:", code, "\ndefinition:", spec)
        return not spec_disagrees(spec, code)
    before = len(ctx.violations)
    print("law replay: re-run `./check.py C16` with VERIF_SEED=%s" % rep.get("seed"))
    return before == len(ctx.violations)

MANIFEST = {
    "text": "Proof: 18 Lean theorems about the model of persistent_entropy at the reals (0 <= H <= log n via Gibbs' inequality, "
            "= log n for equal lengths, invariance under reordering/translation/rescaling, normalised variant in [0,1] for n>=2, "
            "list -> vector, inf dropped/substituted, non-positive bar raises), for barcodes of every size. The model is tied to the "
            "code on every run by executing the same definitions at Float against the real function on generated barcodes and all flag "
            "combinations (1e-12), and the laws are also evaluated on the real code as tests.",
    "note": "Trusted: Lean kernel + Mathlib, axioms propext/Classical.choice/Quot.sound; the correspondence harness; np.log/np.sum as "
            "Real.log/sum up to rounding. Theorems are exact-arithmetic; float rounding is covered only by the [T] law stream.",
    "technique": "Lean 4 theorems over a hand-written model + differential correspondence with the real code",
}
MANIFEST["note"] += " " + py2lean.manifest_note("entropy")
