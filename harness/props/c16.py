"""C16 — persistent entropy is the Shannon entropy of normalised bar lengths.

Theorems: lean/PersimVerif/Props/C16.lean (model lean/PersimVerif/Model/Entropy.lean at ℝ with Real.log).
Tie: `persistent_entropy` of the real code vs the same model executed at Float (driver op `ent`).
[T]: the property's laws evaluated directly on the real code (rounding is outside the theorems).
"""
import math
import numpy as np
from .. import common
from ..translator import py2lean
from ..common import enc, ask, close, call

LEVEL = "proof"
TRUSTED = [py2lean.trusted_note("entropy")]
PROP_FILES = ["PersimVerif/Props/C16.lean", py2lean.prop_file("entropy")]
RULE = ("barcodes generated from one PRNG: 1-4 diagrams of 0-12 bars, coordinates from lattice/half/dyadic/"
        "decimal/uniform modes over scales 2^-20..2^20, infinite deaths with prob 0.25, infinite births with prob 0.03 "
        "(the code filters on the death column only), all 8 flag combinations, the two boolean flags written as Python bool / np.bool_ / int 0,1 "
        "(half of the cases plain bools; the expected behaviour is that of the flag's truth value), "
        "a malformed stream with non-positive bars; a representation stream (uint8/int8/int32/int64/float32 arrays, "
        "lists of nested lists / tuples, bars born after dying in unsigned dtypes) compared with the definition on the "
        "same numbers; non-trivial = at least one diagram with >=2 finite bars; distinct by digest of (flags, diagrams)")
ASSUMPTIONS = ["np.log/np.sum agree with the model's Float.log/left fold to 1e-12 (compared on every case)",
               "coordinates are finite or +inf (the only non-finite value the routine treats); -inf/NaN inputs are outside the model",
               "behaviour the statement leaves open (exception class, keep_inf without val_inf, empty barcode, one bar normalised, a bar "
               "born at +inf, an extra column) is tied to the model but never reported as a failing input"]
TOL = 1e-12
# theorems that carry a clause of the statement (helpers, concrete instances and rfl restatements excluded)
CORE_THEOREMS = ["H_nonneg", "H_le_log_n", "H_equal_lengths", "H_perm", "H_scale", "lengths_translate", "E1_translate",
                 "E1_perm", "E1_scale", "H_norm_in_unit", "nonpositive_raises", "keep_without_value_raises",
                 "inf_dropped", "ED_inf_dropped", "inf_birth_raises", "inf_substituted",
                 "H_single", "H_pos_of_two", "H_norm_pos"]


def gen_barcode(ctx, nmax=12, inf_p=0.25, bad_p=0.0, inf_birth_p=0.0):
    g, r = ctx.gen, ctx.rng
    mode = g.mode()
    n = r.randint(0, nmax)
    bars = []
    for _ in range(n):
        b, d = g.bar(mode, allow_diag=False)
        if r.random() < inf_p:
            d = math.inf
        if inf_birth_p and r.random() < inf_birth_p:
            b = math.inf
        if r.random() < bad_p:
            b, d = (d, b) if r.random() < 0.5 and math.isfinite(d) else (b, b)
        bars.append([b, d])
    return bars


def arr(d):
    return np.array(d, dtype=float).reshape(-1, 2)


# how a caller may write the two boolean flags: a Python bool, a numpy bool (the result of any numpy comparison, e.g.
# `keep_inf=(mode == "keep")` on arrays or `np.any(...)`), or the integers 0 / 1.  The statement quantifies over "all flag
# combinations (keep_inf, val_inf, normalize)"; a flag that is on is on however it is written, so the expected behaviour
# is that of the flag's truth value (on the unchanged tree the three spellings behave identically everywhere: the code
# tests `flag == True` / `flag == False`, and np.True_ == True, 1 == True, np.False_ == False, 0 == False).
FLAG_REPS = ("bool", "np.bool_", "int")


def flag(v, rep="bool"):
    v = bool(v)
    return v if rep == "bool" else np.bool_(v) if rep == "np.bool_" else int(v)


def gen_flag_reps(r):
    """(representation of keep_inf, representation of normalize): both plain bools in half of the cases"""
    return ["bool", "bool"] if r.random() < 0.5 else [r.choice(FLAG_REPS), r.choice(FLAG_REPS)]


def run_code(dgms, keep, vinf, norm, single=False, reps=("bool", "bool")):
    pe = common.pm("persistent_entropy").persistent_entropy
    arg = arr(dgms[0]) if single else [arr(d) for d in dgms]
    with np.errstate(all="ignore"):
        return call(pe, arg, keep_inf=flag(keep, reps[0]), val_inf=vinf, normalize=flag(norm, reps[1]))


def canon(res):
    st, v, _ = res
    if st == "err":
        return "err:" + v
    return [float(x) for x in v]


def claimed(ctx):
    """number of violations with a claimed failing input (correspondence-only reports do not stop the search)"""
    return sum(1 for _, found in ctx.violations if found)


def pre_build(ctx):
    """source translator (DESIGN.md 3.2): regenerate Generated/SrcEntropy.lean from PERSIM_ROOT's source"""
    py2lean.pre_build(ctx, ("entropy",))


def run(ctx):
    py2lean.report_broken(ctx, PROP_FILES)
    r = ctx.rng
    cases, lines = [], []
    reported = set()
    # corpus first
    corpus = [
        ([[[1.0, 2.0]]], False, None, True),                         # n=1 normalised: 0/0
        ([[]], False, None, False),                                  # empty barcode
        ([[[0.0, math.inf]]], False, None, True),                    # all bars infinite
        ([[[0.0, 1.0], [0.0, math.inf]]], True, None, False),         # keep_inf without value
        ([[[0.0, 1.0], [2.0, 2.0]]], False, None, False),             # zero-length bar
        ([[[0.0, 1.0], [0.0, math.inf]]], True, 0.0, False),          # substituted value gives length 0
        ([[[0.0, 1.0], [0.0, math.inf]]], True, 5.0, True),
        ([[[math.inf, 1.0]]], False, None, False),                    # infinite birth, finite death: kept by the filter -> raises
        ([[[0.0, 1.0], [math.inf, 2.0], [1.0, 4.0]]], False, None, True),
        ([[[0.0, 1.0], [math.inf, math.inf]]], False, None, False),    # infinite death: dropped whatever the birth
        ([[[0.0, 1.0], [math.inf, 9.0]]], True, 2.0, False),           # births are substituted too
        ([[[0.0, 1.0], [math.inf, math.inf]]], True, 2.0, False),      # (2,2): length 0 -> raises
    ]
    n = ctx.n(600, 12000)
    for i in range(n + len(corpus)):
        if i < len(corpus):
            dgms, keep, vinf, norm = corpus[i]
        else:
            bad = 0.15 if r.random() < 0.15 else 0.0
            ib = 0.03 if r.random() < 0.3 else 0.0
            dgms = [gen_barcode(ctx, bad_p=bad, inf_birth_p=ib) for _ in range(r.randint(1, 4))]
            keep = r.random() < 0.4
            vinf = None if r.random() < 0.25 else r.choice([0.5, 7.0, 100.0, float(r.randint(1, 30))])
            norm = r.random() < 0.5
        single = len(dgms) == 1 and r.random() < 0.5
        reps = ["bool", "bool"] if i < len(corpus) else gen_flag_reps(r)
        cases.append((dgms, keep, vinf, norm, single, reps))
        lines.append("ent %s %s %s %s" % (enc(keep), enc(vinf), enc(norm), enc(dgms)))
    answers = ask(lines)
    cov = common.LineCov(["persim/persistent_entropy.py"])
    ctx.extra["anchored_source_digest"] = {"persim/persistent_entropy.py": common.source_digest("persim/persistent_entropy.py")}
    for k, ((dgms, keep, vinf, norm, single, reps), ans) in enumerate(zip(cases, answers)):
        if k < 120:                      # statement coverage of the anchored function on a slice of the run
            with cov:
                code = canon(run_code(dgms, keep, vinf, norm, single, reps))
        else:
            code = canon(run_code(dgms, keep, vinf, norm, single, reps))
        ctx.count("flags_as:" + "/".join(reps))
        nontriv = any(sum(1 for b in d if math.isfinite(b[1])) >= 2 for d in dgms)
        if any(math.isinf(b[0]) for d in dgms for b in d):
            ctx.count("with_infinite_birth")
        ctx.case({"op": "ent", "keep_inf": keep, "val_inf": vinf, "normalize": norm, "flag_reps": reps, "dgms": dgms}, nontriv, sample_every=97)
        if isinstance(code, str) or isinstance(ans, str):
            ctx.count("errors:" + str(code if isinstance(code, str) else "ok"))
            agree = code == ans
        else:
            ctx.count("ok")
            agree = len(code) == len(ans) and all(close(a, b, TOL) for a, b in zip(code, ans))
        if not agree:
            # correspondence broke: is the *property* violated?  evaluate the definition independently.  Only what the
            # statement fixes gives a failing input (see `judge`): the exception class, the value of an empty / one-bar
            # normalised barcode, keep_inf without a value and bars born at infinity stay correspondence matters.
            spec, free = spec_value(dgms, keep, vinf, norm)
            verdict = judge(spec, free, code)
            ctx.count("correspondence_break:" + verdict)
            kind = (verdict, (free if isinstance(free, str) else "entries") if verdict == "corr" else None)
            if verdict != "fail" and kind in reported:
                continue                 # one report per kind of property-irrelevant difference; keep searching
            reported.add(kind)
            ctx.violation("persistent_entropy differs from %s: code=%r model=%r definition=%r"
                          % ("the definition" if verdict == "fail" else
                             "the model only where the statement leaves the behaviour open (%s)" % free if verdict == "corr" else
                             "the model (definition agrees with code)", code, ans, spec),
                          {"dgms": dgms, "keep_inf": keep, "val_inf": vinf, "normalize": norm, "single": single, "flag_reps": reps},
                          found_input=verdict == "fail", correspondence="ent")
            if claimed(ctx) > 5:
                return
    ctx.extra["anchored_statement_coverage"] = cov.summary()
    ctx.extra["core_theorems"] = CORE_THEOREMS
    representations(ctx)
    if claimed(ctx) > 5:
        return
    shared_arrays(ctx)
    if claimed(ctx) > 5:
        return
    laws(ctx)


def eval_shared(dgms, calls, single):
    """a short history of calls on the SAME array objects (as any loop over flag combinations makes); every call
    must return the definition's value for the numbers the caller put into the arrays"""
    arrs = [arr(d) for d in dgms]
    pe = common.pm("persistent_entropy").persistent_entropy
    out = []
    for c in calls:
        keep, vinf, norm = c[:3]
        reps = c[3] if len(c) > 3 else ("bool", "bool")          # how the two flags are written (FLAG_REPS)
        with np.errstate(all="ignore"):
            code = canon(call(pe, arrs[0] if single else arrs, keep_inf=flag(keep, reps[0]), val_inf=vinf, normalize=flag(norm, reps[1])))
        spec, free = spec_value(dgms, keep, vinf, norm)
        out.append((code, spec, judge(spec, free, code)))
    return out


def shared_arrays(ctx):
    r = ctx.rng
    corr_seen = False
    for _ in range(ctx.n(150, 2500)):
        dgms = [gen_barcode(ctx, inf_p=0.5) for _ in range(r.randint(1, 3))]
        single = len(dgms) == 1 and r.random() < 0.5
        calls = [(r.random() < 0.5, None if r.random() < 0.2 else r.choice([0.5, 7.0, 100.0, float(r.randint(1, 30))]), r.random() < 0.5,
                  gen_flag_reps(r)) for _ in range(r.randint(2, 4))]
        res = eval_shared(dgms, calls, single)
        bad = [i for i, (code, spec, v) in enumerate(res) if v == "fail"]
        open_ = [i for i, (code, spec, v) in enumerate(res) if v == "corr"]
        ctx.test("shared_array_histories", not bad)
        if bad or (open_ and not corr_seen):
            i = (bad or open_)[0]
            corr_seen = corr_seen or not bad
            ctx.violation("persistent_entropy differs from the definition at call %d of a history of calls on the same arrays%s: code=%r definition=%r"
                          % (i, "" if bad else " (only where the statement leaves the behaviour open)", res[i][0], res[i][1]),
                          {"shared": True, "dgms": dgms, "calls": [list(c) for c in calls], "single": single},
                          found_input=bool(bad), **({} if bad else {"correspondence": "shared_arrays"}))
            if bad:
                return


def spec_value(dgms, keep, vinf, norm):
    """the mathematical definition, written independently of the code and of the model (math.fsum).

    Returns (ref, free).  `ref` is "err" or the list of entropies; where the statement is silent `ref` records what the
    present code does and `free` says so:
      free = None      every part of `ref` is fixed by the statement (the value for bars of positive length, the
                       normalised value for n >= 2, the length of the vector, "a bar of non-positive length raises");
      free = "call:.." the whole call is outside what the statement fixes: keep_inf=True without a value (the statement
                       only speaks of replacing by "the supplied value"), or a bar born at +inf (a bar (inf, finite) may
                       as well be dropped as an "infinite bar" as rejected; barcodes have finite births);
      free = {i,..}    entries whose value the statement does not fix: an empty barcode (after removing infinite bars; 0/L
                       with L = 0) and the normalised value of a single bar (0/log 1).  A non-positive bar anywhere still
                       has to raise, and the vector still has one entry per diagram."""
    inf_birth = any(math.isinf(b[0]) for d in dgms for b in d)
    if keep and vinf is None:
        return "err", "call:keep_inf without val_inf"
    out, free = [], set()
    for i, d in enumerate(dgms):
        if keep:
            d = [[vinf if math.isinf(x) else x for x in b] for b in d]
        else:
            d = [b for b in d if b[1] != math.inf]
        l = [b[1] - b[0] for b in d]
        if not all(x > 0 for x in l):
            return "err", ("call:bar born at infinity" if inf_birth else None)
        L = math.fsum(l)
        E = -math.fsum((x / L) * math.log(x / L) for x in l) if l else 0.0
        if norm:
            ln = math.log(len(l)) if len(l) > 0 else -math.inf
            E = E / ln if ln != 0 else math.nan
        if len(l) == 0 or (norm and len(l) == 1):
            free.add(i)
        out.append(E)
    return out, ("call:bar born at infinity" if inf_birth else (free or None))


def is_err(x):
    """any exception satisfies "raises an error"; the class (canon gives "err:<Class>") is a correspondence matter"""
    return isinstance(x, str) and x.startswith("err")


def judge(spec, free, code):
    """"ok": the code does what the reference does; "fail": the property as stated fails; "corr": the code differs from
    the reference only where the statement leaves the behaviour open (reported with found_input=False)"""
    if isinstance(free, str):                                    # the whole call is open
        same = (is_err(spec) and is_err(code)) or (not is_err(spec) and not is_err(code) and len(spec) == len(code)
                                                   and all(close(a, b, 1e-9) for a, b in zip(spec, code)))
        return "ok" if same else "corr"
    if is_err(spec):
        return "ok" if is_err(code) else "fail"                  # a bar of non-positive length: any exception will do
    if is_err(code):
        return "corr" if free else "fail"                        # raising on an empty / one-bar barcode is not excluded
    if len(spec) != len(code):
        return "fail"                                            # one entry per diagram
    free = free or set()
    if any(not close(a, b, 1e-9) for i, (a, b) in enumerate(zip(spec, code)) if i not in free):
        return "fail"
    if any(not close(a, b, 1e-9) for i, (a, b) in enumerate(zip(spec, code)) if i in free):
        return "corr"
    return "ok"


INT_DTYPES = ["uint8", "int8", "int32", "int64", "uint16", "float32"]


def gen_int_barcode(r, dtype, bad):
    """small integer bars that fit the dtype; `bad` puts in a bar born after dying (or of length 0)"""
    lo = 0 if dtype.startswith("uint") or dtype == "float32" else -60
    n = r.randint(1, 8)
    bars = []
    for _ in range(n):
        b = r.randint(lo, 100)
        bars.append([b, b + r.randint(1, 27)])
    if bad:
        b = r.randint(lo + 30, 100)
        bars.insert(r.randint(0, len(bars)), [b, b - r.choice([0, 1, 2, 30])])
    return bars


def rep_eval(bars, rep, norm):
    """the real routine on one representation of `bars` and the definition on the same numbers"""
    pe = common.pm("persistent_entropy").persistent_entropy
    if rep == "lists":
        arg = [[list(map(int, b)) for b in bars]]                 # a list of diagrams, the diagram a nested list
    elif rep == "tuples":
        arg = [tuple((int(b[0]), int(b[1])) for b in bars)]
    elif rep == "extra_column":
        arg = np.array([[b[0], b[1], 7] for b in bars], dtype="int64")
    else:
        arg = np.array(bars, dtype=rep)
    with np.errstate(all="ignore"):
        code = canon(call(pe, arg, normalize=norm))
    spec, free = spec_value([[[float(b[0]), float(b[1])] for b in bars]], False, None, norm)
    verdict = judge(spec, free, code)
    if rep == "extra_column" and verdict == "fail":
        verdict = "corr"                 # an (n,3) array is not a barcode: outside the quantifier, correspondence only
    return code, spec, verdict


def representations(ctx):
    """[T] the value must not depend on how the same numbers are stored (fix 53d45dc: `np.asarray(dgm, dtype=float)`):
    integer arrays of every width, unsigned ones with a bar born after dying (the subtraction must not wrap round),
    nested lists, tuples, an array with an extra column (ill-formed: a difference there is reported without a claimed
    failing input).  Reference: the definition on the same numbers."""
    r = ctx.rng
    corr_seen = set()
    for k in range(ctx.n(240, 3000)):
        rep = (INT_DTYPES + ["lists", "tuples", "extra_column"])[k % (len(INT_DTYPES) + 3)]
        bad = r.random() < 0.35
        norm = r.random() < 0.3
        bars = gen_int_barcode(r, rep if rep in INT_DTYPES else "int64", bad)
        code, spec, verdict = rep_eval(bars, rep, norm)
        ctx.case({"op": "representation", "rep": rep, "bars": bars, "normalize": norm}, len(bars) >= 2, sample_every=53)
        ctx.count("representation:" + rep + (":born_after_dying" if bad else ""))
        ctx.test("representation", verdict != "fail")
        if verdict == "fail" or (verdict == "corr" and not corr_seen):
            corr_seen.add(rep)
            ctx.violation("persistent_entropy of the %s representation differs from the definition on the same numbers%s: code=%r definition=%r"
                          % (rep, "" if verdict == "fail" else " (outside what the statement fixes)", code, spec),
                          {"representation": rep, "bars": bars, "normalize": norm},
                          found_input=verdict == "fail", **({} if verdict == "fail" else {"correspondence": "representation"}))
            if claimed(ctx) > 5:
                return


LAWS = ["bounds", "perm", "translate", "scale", "equal_lengths", "normalised_unit", "inf_handling", "list_is_map",
        "nonpositive_raises"]


def eval_laws(bars, t, lam, perm_seed, drop):
    """the laws of the statement on the real code for one recorded barcode (all bars of positive length); returns
    {law: bool}.  A call that raises on such a barcode fails the law it belongs to (value None)."""
    pe = common.pm("persistent_entropy").persistent_entropy

    def ent(x, **kw):
        """list of floats, or None if the call raised"""
        with np.errstate(all="ignore"):
            st, v, _ = call(pe, x, **kw)
        return None if st == "err" else [float(y) for y in v]

    def same(x, y, tol):
        """|x - y| <= tol, absolute: an entropy is a sum of terms p log p of size <= 1/e, so rounding errors are absolute
        (of order n ulp(1)) whatever the size of H itself; 1e-12 is about 4500 ulp(1)"""
        return x is not None and y is not None and len(x) == 1 and len(y) == 1 and \
            math.isfinite(x[0]) and math.isfinite(y[0]) and abs(x[0] - y[0]) <= tol

    a = arr(bars)
    n = len(bars)
    out = {}
    on = flag(True, FLAG_REPS[perm_seed % 3])            # the flags that are switched on below: written as bool / np.bool_ / 1
    Hv = ent(a)
    ok = Hv is not None and len(Hv) == 1 and math.isfinite(Hv[0])
    H = Hv[0] if ok else math.nan
    out["bounds"] = ok and -1e-12 <= H <= math.log(n) + 1e-12
    perm = a[np.random.RandomState(perm_seed).permutation(n)]
    span = float(np.max(np.abs(a))) + 1.0
    out["perm"] = same(ent(perm), Hv, 1e-10)
    # translation adds t to both ends: a length l_j changes by at most ulp(|t| + span), i.e. relatively by
    # delta_j <= eps (|t| + span) / l_j, and dH/dl_j = -(log p_j + H)/L, so
    #   |H(a + t) - H(a)| <= eps (|t| + span)/L * sum_j |log p_j + H| <= eps n (|t| + span)/L * (log(L/minlen) + log n).
    # With n <= 14, eps n (.. + log n) <= 37 eps (1 + log(L/minlen)); 1e-12 ~ 4500 eps leaves a factor > 100 (measured:
    # largest deviation / tolerance = 4e-4 over 16750 cases, tolerance below 1e-9 in 99% of them, never above 1e-2).
    # It is never larger than 1e-12 (|t| + span)/minlen, the cruder bound through the shortest bar.
    l = a[:, 1] - a[:, 0]
    L, minlen = float(np.sum(l)), float(np.min(l))
    out["translate"] = same(ent(a + t), Hv, 1e-12 * (abs(t) + span) / L * (1.0 + math.log(L / minlen)) + 1e-12)
    out["scale"] = same(ent(a * lam), Hv, 1e-10)
    eq = np.array([[float(i), float(i) + 2.5] for i in range(n)])
    Heq = ent(eq)
    out["equal_lengths"] = same(Heq, [math.log(n)], 1e-12)
    if n >= 2:
        Hn = ent(a, normalize=on)
        out["normalised_unit"] = Hn is not None and len(Hn) == 1 and -1e-12 <= Hn[0] <= 1 + 1e-12
    k = perm_seed % (n + 1)                    # the infinite bar goes anywhere in the diagram, not only to the end
    withinf = np.vstack([a[:k], [[0.0, np.inf]], a[k:]])
    subst = np.vstack([a[:k], [[0.0, 9.0]], a[k:]])
    # "dropped" / "replaced by the supplied value" / "vector of individual entropies": equal up to rounding (a masked or
    # padded batch evaluation may sum in another order), not bit for bit
    out["inf_handling"] = same(ent(withinf), Hv, 1e-12) and same(ent(withinf, keep_inf=on, val_inf=9.0), ent(subst), 1e-12)
    both = ent([a, eq])
    out["list_is_map"] = both is not None and len(both) == 2 and same(both[:1], Hv, 1e-12) and same(both[1:], Heq, 1e-12)
    bad = np.vstack([a[:k], [[2.0, 2.0 - drop]], a[k:]])
    out["nonpositive_raises"] = ent(bad) is None           # any exception
    return out


def laws(ctx):
    """[T] the laws of the statement on the real code (float rounding is not covered by the theorems)"""
    r = ctx.rng
    for _ in range(ctx.n(300, 5000)):
        bars = [b for b in gen_barcode(ctx, nmax=14, inf_p=0.0) if b[1] > b[0]]
        if len(bars) < 1:
            continue
        perm_seed = r.randint(0, 2**31 - 1)
        t = r.choice([-3.0, 0.5, 1000.0])
        lam = r.choice([0.25, 3.0, 1024.0])
        drop = r.choice([0.0, 1.0])
        res = eval_laws(bars, t, lam, perm_seed, drop)
        for k, v in res.items():
            ctx.test(k, v)
        if not all(res.values()):
            ctx.violation("entropy law fails on the real code (%s)" % " ".join("%s=%s" % kv for kv in res.items()),
                          {"bars": bars, "t": t, "lam": lam, "perm_seed": perm_seed, "drop": drop}, law=True)
            if claimed(ctx) > 5:
                return


def replay(ctx, rep):
    """True iff the property as stated holds for the recorded case on this tree (a difference in behaviour the statement
    leaves open - verdict "corr" - is not a failure)"""
    c = rep["case"]
    if "dgms" in c:                      # replay files are strict JSON: an infinite coordinate is stored as the string "inf"
        c = dict(c, dgms=[[[float(x) for x in b] for b in d] for d in c["dgms"]])
    if c.get("shared"):
        res = eval_shared(c["dgms"], [tuple(x) for x in c["calls"]], c["single"])      # a call: keep_inf, val_inf, normalize[, flag_reps]
        for i, (code, spec, v) in enumerate(res):
            print("call", i, c["calls"][i], "code:", code, "definition:", spec, "verdict:", v)
        return not any(v == "fail" for _, _, v in res)
    if "dgms" in c:
        # the recorded call style: a lone array (single) or a list of arrays
        code = canon(run_code(c["dgms"], c["keep_inf"], c["val_inf"], c["normalize"], bool(c.get("single", False)),
                              c.get("flag_reps", ("bool", "bool"))))
        spec, free = spec_value(c["dgms"], c["keep_inf"], c["val_inf"], c["normalize"])
        v = judge(spec, free, code)
        print("code:", code, "\ndefinition:", spec, "\nleft open by the statement:", free, "\nverdict:", v)
        return v != "fail"
    if "representation" in c:
        code, spec, v = rep_eval(c["bars"], c["representation"], c["normalize"])
        print("representation:", c["representation"], "bars:", c["bars"], "\ncode:", code, "\ndefinition:", spec, "\nverdict:", v)
        return v != "fail"
    if "bars" in c and "perm_seed" in c:
        res = eval_laws(c["bars"], c["t"], c["lam"], c["perm_seed"], c["drop"])
        print("laws on the recorded barcode:", res)
        return all(res.values())
    raise common.HarnessError("C16 replay: unknown case shape %r" % sorted(c))

MANIFEST = {
    "text": "Proof: 27 Lean theorems (16 of them core: each carries a clause of the statement; the rest are helpers and rfl restatements "
            "such as list_is_map_*) about the model of persistent_entropy at the reals: 0 <= H <= log n via Gibbs' inequality, "
            "= log n for equal lengths, invariance under reordering/translation/rescaling both for the Shannon sum and for what the "
            "routine returns for a diagram (E1_perm, E1_scale for c > 0, E1_translate: value or error), normalised variant in [0,1] for "
            "n>=2, list -> vector, a bar with infinite death anywhere in the diagram is dropped / every infinite entry is replaced by the "
            "supplied value, a non-positive bar raises - including a bar with infinite birth and finite death, which the death-only "
            "filter keeps (inf_birth_raises) - for barcodes of every size. The model is tied to the code on every run by executing the "
            "same definitions at Float against the real function on generated barcodes (infinite deaths and births) and all flag "
            "combinations, keep_inf and normalize written as Python bool, np.bool_ or the integers 0/1 (1e-12); a representation stream (uint8/int8/int32/int64/uint16/float32 arrays, nested lists, tuples, an "
            "extra column, unsigned bars born after dying) compares the real function with the definition on the same numbers, and "
            "the laws are also evaluated on the real code as tests. A failing input is claimed only for what the statement fixes: "
            "the value for bars of positive length (normalised: n >= 2), one entry per diagram, and that a non-positive bar raises "
            "(any exception). The exception class, keep_inf=True without val_inf, the value of an empty or one-bar normalised barcode, "
            "bars born at +inf and arrays with an extra column are compared with the model / present behaviour as correspondence only "
            "(no-failing-input-found). Law tolerances: 1e-12 absolute for inf handling and list-is-map, a derived rounding bound "
            "1e-12 (|t|+span)/L (1+log(L/minlen)) for translation.",
    "note": "Trusted: Lean kernel + Mathlib, axioms propext/Classical.choice/Quot.sound; the correspondence harness; np.log/np.sum as "
            "Real.log/sum up to rounding. Theorems are exact-arithmetic; float rounding and the conversion of the input container "
            "to float64 are covered only by the [T] law and representation streams. -inf/NaN coordinates are outside the model.",
    "technique": "Lean 4 theorems over a hand-written model + differential correspondence with the real code",
}
MANIFEST["note"] += " " + py2lean.manifest_note("entropy")
