"""C16 — persistent entropy is the Shannon entropy of normalised bar lengths.

Theorems: lean/PersimVerif/Props/C16.lean (model lean/PersimVerif/Model/Entropy.lean at ℝ with Real.log).
Tie: `persistent_entropy` of the real code vs the same model executed at Float (driver op `ent`).
[T]: the property's laws evaluated directly on the real code (rounding is outside the theorems).
"""
import math
import numpy as np
from .. import common
from ..translator import py2lean
from ..common import enc, ask, close, call

LEVEL = "proof"
TRUSTED = [py2lean.trusted_note("entropy")]
PROP_FILES = ["PersimVerif/Props/C16.lean", py2lean.prop_file("entropy")]
RULE = ("barcodes generated from one PRNG: 1-4 diagrams of 0-12 bars, coordinates from lattice/half/dyadic/"
        "decimal/uniform modes over scales 2^-20..2^20, infinite deaths with prob 0.25, infinite births with prob 0.03 "
        "(the code filters on the death column only), all 8 flag combinations, "
        "a malformed stream with non-positive bars; a representation stream (uint8/int8/int32/int64/float32 arrays, "
        "lists of nested lists / tuples, bars born after dying in unsigned dtypes) compared with the definition on the "
        "same numbers; non-trivial = at least one diagram with >=2 finite bars; distinct by digest of (flags, diagrams)")
ASSUMPTIONS = ["np.log/np.sum agree with the model's Float.log/left fold to 1e-12 (compared on every case)",
               "coordinates are finite or +inf (the only non-finite value the routine treats); -inf/NaN inputs are outside the model"]
TOL = 1e-12
# theorems that carry a clause of the statement (helpers, concrete instances and rfl restatements excluded)
CORE_THEOREMS = ["H_nonneg", "H_le_log_n", "H_equal_lengths", "H_perm", "H_scale", "lengths_translate", "E1_translate",
                 "E1_perm", "E1_scale", "H_norm_in_unit", "nonpositive_raises", "keep_without_value_raises",
                 "inf_dropped", "ED_inf_dropped", "inf_birth_raises", "inf_substituted"]


def gen_barcode(ctx, nmax=12, inf_p=0.25, bad_p=0.0, inf_birth_p=0.0):
    g, r = ctx.gen, ctx.rng
    mode = g.mode()
    n = r.randint(0, nmax)
    bars = []
    for _ in range(n):
        b, d = g.bar(mode, allow_diag=False)
        if r.random() < inf_p:
            d = math.inf
        if inf_birth_p and r.random() < inf_birth_p:
            b = math.inf
        if r.random() < bad_p:
            b, d = (d, b) if r.random() < 0.5 and math.isfinite(d) else (b, b)
        bars.append([b, d])
    return bars


def arr(d):
    return np.array(d, dtype=float).reshape(-1, 2)


def run_code(dgms, keep, vinf, norm, single=False):
    pe = common.pm("persistent_entropy").persistent_entropy
    arg = arr(dgms[0]) if single else [arr(d) for d in dgms]
    with np.errstate(all="ignore"):
        return call(pe, arg, keep_inf=keep, val_inf=vinf, normalize=norm)


def canon(res):
    st, v, _ = res
    if st == "err":
        return "err:" + v
    return [float(x) for x in v]


def pre_build(ctx):
    """source translator (DESIGN.md 3.2): regenerate Generated/SrcEntropy.lean from PERSIM_ROOT's source"""
    py2lean.pre_build(ctx, ("entropy",))


def run(ctx):
    py2lean.report_broken(ctx, PROP_FILES)
    r = ctx.rng
    cases, lines = [], []
    # corpus first
    corpus = [
        ([[[1.0, 2.0]]], False, None, True),                         # n=1 normalised: 0/0
        ([[]], False, None, False),                                  # empty barcode
        ([[[0.0, math.inf]]], False, None, True),                    # all bars infinite
        ([[[0.0, 1.0], [0.0, math.inf]]], True, None, False),         # keep_inf without value
        ([[[0.0, 1.0], [2.0, 2.0]]], False, None, False),             # zero-length bar
        ([[[0.0, 1.0], [0.0, math.inf]]], True, 0.0, False),          # substituted value gives length 0
        ([[[0.0, 1.0], [0.0, math.inf]]], True, 5.0, True),
        ([[[math.inf, 1.0]]], False, None, False),                    # infinite birth, finite death: kept by the filter -> raises
        ([[[0.0, 1.0], [math.inf, 2.0], [1.0, 4.0]]], False, None, True),
        ([[[0.0, 1.0], [math.inf, math.inf]]], False, None, False),    # infinite death: dropped whatever the birth
        ([[[0.0, 1.0], [math.inf, 9.0]]], True, 2.0, False),           # births are substituted too
        ([[[0.0, 1.0], [math.inf, math.inf]]], True, 2.0, False),      # (2,2): length 0 -> raises
    ]
    n = ctx.n(600, 12000)
    for i in range(n + len(corpus)):
        if i < len(corpus):
            dgms, keep, vinf, norm = corpus[i]
        else:
            bad = 0.15 if r.random() < 0.15 else 0.0
            ib = 0.03 if r.random() < 0.3 else 0.0
            dgms = [gen_barcode(ctx, bad_p=bad, inf_birth_p=ib) for _ in range(r.randint(1, 4))]
            keep = r.random() < 0.4
            vinf = None if r.random() < 0.25 else r.choice([0.5, 7.0, 100.0, float(r.randint(1, 30))])
            norm = r.random() < 0.5
        single = len(dgms) == 1 and r.random() < 0.5
        cases.append((dgms, keep, vinf, norm, single))
        lines.append("ent %s %s %s %s" % (enc(keep), enc(vinf), enc(norm), enc(dgms)))
    answers = ask(lines)
    cov = common.LineCov(["persim/persistent_entropy.py"])
    ctx.extra["anchored_source_digest"] = {"persim/persistent_entropy.py": common.source_digest("persim/persistent_entropy.py")}
    for k, ((dgms, keep, vinf, norm, single), ans) in enumerate(zip(cases, answers)):
        if k < 120:                      # statement coverage of the anchored function on a slice of the run
            with cov:
                code = canon(run_code(dgms, keep, vinf, norm, single))
        else:
            code = canon(run_code(dgms, keep, vinf, norm, single))
        nontriv = any(sum(1 for b in d if math.isfinite(b[1])) >= 2 for d in dgms)
        if any(math.isinf(b[0]) for d in dgms for b in d):
            ctx.count("with_infinite_birth")
        ctx.case({"op": "ent", "keep_inf": keep, "val_inf": vinf, "normalize": norm, "dgms": dgms}, nontriv, sample_every=97)
        if isinstance(code, str) or isinstance(ans, str):
            ctx.count("errors:" + str(code if isinstance(code, str) else "ok"))
            agree = code == ans
        else:
            ctx.count("ok")
            agree = len(code) == len(ans) and all(close(a, b, TOL) for a, b in zip(code, ans))
        if not agree:
            # correspondence broke: is the *property* violated?  evaluate the definition independently
            spec = spec_value(dgms, keep, vinf, norm)
            bad = spec_disagrees(spec, code)
            ctx.violation("persistent_entropy differs from %s: code=%r model=%r definition=%r"
                          % ("the definition" if bad else "the model (definition agrees with code)", code, ans, spec),
                          {"dgms": dgms, "keep_inf": keep, "val_inf": vinf, "normalize": norm},
                          found_input=bad, correspondence="ent")
            if len(ctx.violations) > 5:
                return
    ctx.extra["anchored_statement_coverage"] = cov.summary()
    ctx.extra["core_theorems"] = CORE_THEOREMS
    representations(ctx)
    if len(ctx.violations) > 5:
        return
    shared_arrays(ctx)
    if len(ctx.violations) > 5:
        return
    laws(ctx)


def eval_shared(dgms, calls, single):
    """a short history of calls on the SAME array objects (as any loop over flag combinations makes); every call
    must return the definition's value for the numbers the caller put into the arrays"""
    arrs = [arr(d) for d in dgms]
    pe = common.pm("persistent_entropy").persistent_entropy
    out = []
    for keep, vinf, norm in calls:
        with np.errstate(all="ignore"):
            code = canon(call(pe, arrs[0] if single else arrs, keep_inf=keep, val_inf=vinf, normalize=norm))
        out.append((code, spec_value(dgms, keep, vinf, norm)))
    return out


def shared_arrays(ctx):
    r = ctx.rng
    for _ in range(ctx.n(150, 2500)):
        dgms = [gen_barcode(ctx, inf_p=0.5) for _ in range(r.randint(1, 3))]
        single = len(dgms) == 1 and r.random() < 0.5
        calls = [(r.random() < 0.5, None if r.random() < 0.2 else r.choice([0.5, 7.0, 100.0, float(r.randint(1, 30))]), r.random() < 0.5)
                 for _ in range(r.randint(2, 4))]
        res = eval_shared(dgms, calls, single)
        bad = [i for i, (code, spec) in enumerate(res) if spec_disagrees(spec, code)]
        ctx.test("shared_array_histories", not bad)
        if bad:
            ctx.violation("persistent_entropy differs from the definition at call %d of a history of calls on the same arrays: code=%r definition=%r"
                          % (bad[0], res[bad[0]][0], res[bad[0]][1]),
                          {"shared": True, "dgms": dgms, "calls": [list(c) for c in calls], "single": single}, found_input=True)
            return


def spec_value(dgms, keep, vinf, norm):
    """the mathematical definition, written independently of the code and of the model (math.fsum)"""
    if keep and vinf is None:
        return "err:Exception"
    out = []
    for d in dgms:
        if keep:
            d = [[vinf if math.isinf(x) else x for x in b] for b in d]
        else:
            d = [b for b in d if b[1] != math.inf]
        l = [b[1] - b[0] for b in d]
        if not all(x > 0 for x in l):
            return "err:Exception"
        L = math.fsum(l)
        E = -math.fsum((x / L) * math.log(x / L) for x in l) if l else 0.0
        if norm:
            ln = math.log(len(l)) if len(l) > 0 else -math.inf
            E = E / ln if ln != 0 else math.nan
        out.append(E)
    return out


def spec_disagrees(spec, code):
    if isinstance(spec, str) or isinstance(code, str):
        return spec != code
    return len(spec) != len(code) or not all(close(a, b, 1e-9) for a, b in zip(spec, code))


INT_DTYPES = ["uint8", "int8", "int32", "int64", "uint16", "float32"]


def gen_int_barcode(r, dtype, bad):
    """small integer bars that fit the dtype; `bad` puts in a bar born after dying (or of length 0)"""
    lo = 0 if dtype.startswith("uint") or dtype == "float32" else -60
    n = r.randint(1, 8)
    bars = []
    for _ in range(n):
        b = r.randint(lo, 100)
        bars.append([b, b + r.randint(1, 27)])
    if bad:
        b = r.randint(lo + 30, 100)
        bars.insert(r.randint(0, len(bars)), [b, b - r.choice([0, 1, 2, 30])])
    return bars


def rep_eval(bars, rep, norm):
    """the real routine on one representation of `bars` and the definition on the same numbers"""
    pe = common.pm("persistent_entropy").persistent_entropy
    if rep == "lists":
        arg = [[list(map(int, b)) for b in bars]]                 # a list of diagrams, the diagram a nested list
    elif rep == "tuples":
        arg = [tuple((int(b[0]), int(b[1])) for b in bars)]
    elif rep == "extra_column":
        arg = np.array([[b[0], b[1], 7] for b in bars], dtype="int64")
    else:
        arg = np.array(bars, dtype=rep)
    with np.errstate(all="ignore"):
        code = canon(call(pe, arg, normalize=norm))
    spec = spec_value([[[float(b[0]), float(b[1])] for b in bars]], False, None, norm)
    return code, spec


def representations(ctx):
    """[T] the value must not depend on how the same numbers are stored (fix 53d45dc: `np.asarray(dgm, dtype=float)`):
    integer arrays of every width, unsigned ones with a bar born after dying (the subtraction must not wrap round),
    nested lists, tuples, an array with an extra column.  Reference: the definition on the same numbers."""
    r = ctx.rng
    for k in range(ctx.n(240, 3000)):
        rep = (INT_DTYPES + ["lists", "tuples", "extra_column"])[k % (len(INT_DTYPES) + 3)]
        bad = r.random() < 0.35
        norm = r.random() < 0.3
        bars = gen_int_barcode(r, rep if rep in INT_DTYPES else "int64", bad)
        code, spec = rep_eval(bars, rep, norm)
        ctx.case({"op": "representation", "rep": rep, "bars": bars, "normalize": norm}, len(bars) >= 2, sample_every=53)
        ctx.count("representation:" + rep + (":born_after_dying" if bad else ""))
        ok = not spec_disagrees(spec, code)
        ctx.test("representation", ok)
        if not ok:
            ctx.violation("persistent_entropy of the %s representation differs from the definition on the same numbers: code=%r definition=%r"
                          % (rep, code, spec), {"representation": rep, "bars": bars, "normalize": norm})
            if len(ctx.violations) > 5:
                return


LAWS = ["bounds", "perm", "translate", "scale", "equal_lengths", "normalised_unit", "inf_handling", "list_is_map",
        "nonpositive_raises"]


def eval_laws(bars, t, lam, perm_seed, drop):
    """the laws of the statement on the real code for one recorded barcode; returns {law: bool}"""
    pe = common.pm("persistent_entropy").persistent_entropy
    a = arr(bars)
    n = len(bars)
    out = {}
    H = float(pe(a)[0])
    out["bounds"] = -1e-12 <= H <= math.log(n) + 1e-12
    perm = a[np.random.RandomState(perm_seed).permutation(n)]
    span = float(np.max(np.abs(a))) + 1.0
    out["perm"] = close(float(pe(perm)[0]), H, 1e-10)
    # translation adds t to both ends: lengths change by rounding only (relative to the coordinates' size)
    out["translate"] = close(float(pe(a + t)[0]), H, 1e-7 * max(1.0, (abs(t) + span) / float(np.min(a[:, 1] - a[:, 0]))))
    out["scale"] = close(float(pe(a * lam)[0]), H, 1e-10)
    eq = np.array([[float(i), float(i) + 2.5] for i in range(n)])
    out["equal_lengths"] = close(float(pe(eq)[0]), math.log(n), 1e-12)
    if n >= 2:
        Hn = float(pe(a, normalize=True)[0])
        out["normalised_unit"] = -1e-12 <= Hn <= 1 + 1e-12
    k = perm_seed % (n + 1)                    # the infinite bar goes anywhere in the diagram, not only to the end
    withinf = np.vstack([a[:k], [[0.0, np.inf]], a[k:]])
    subst = np.vstack([a[:k], [[0.0, 9.0]], a[k:]])
    out["inf_handling"] = close(float(pe(withinf)[0]), H, 0.0) and \
        close(float(pe(withinf, keep_inf=True, val_inf=9.0)[0]), float(pe(subst)[0]), 0.0)
    both = pe([a, eq])
    out["list_is_map"] = close(float(both[0]), H, 0.0) and close(float(both[1]), float(pe(eq)[0]), 0.0) and len(both) == 2
    bad = np.vstack([a[:k], [[2.0, 2.0 - drop]], a[k:]])
    out["nonpositive_raises"] = call(pe, bad)[0] == "err"
    return out


def laws(ctx):
    """[T] the laws of the statement on the real code (float rounding is not covered by the theorems)"""
    r = ctx.rng
    for _ in range(ctx.n(300, 5000)):
        bars = [b for b in gen_barcode(ctx, nmax=14, inf_p=0.0) if b[1] > b[0]]
        if len(bars) < 1:
            continue
        perm_seed = r.randint(0, 2**31 - 1)
        t = r.choice([-3.0, 0.5, 1000.0])
        lam = r.choice([0.25, 3.0, 1024.0])
        drop = r.choice([0.0, 1.0])
        res = eval_laws(bars, t, lam, perm_seed, drop)
        for k, v in res.items():
            ctx.test(k, v)
        if not all(res.values()):
            ctx.violation("entropy law fails on the real code (%s)" % " ".join("%s=%s" % kv for kv in res.items()),
                          {"bars": bars, "t": t, "lam": lam, "perm_seed": perm_seed, "drop": drop}, law=True)
            if len(ctx.violations) > 5:
                return


def replay(ctx, rep):
    c = rep["case"]
    if c.get("shared"):
        res = eval_shared(c["dgms"], [tuple(x) for x in c["calls"]], c["single"])
        for i, (code, spec) in enumerate(res):
            print("call", i, c["calls"][i], "code:", code, "definition:", spec)
        return not any(spec_disagrees(spec, code) for code, spec in res)
    if "dgms" in c:
        code = canon(run_code(c["dgms"], c["keep_inf"], c["val_inf"], c["normalize"]))
        spec = spec_value(c["dgms"], c["keep_inf"], c["val_inf"], c["normalize"])
        print("code:", code, "\ndefinition:", spec)
        return not spec_disagrees(spec, code)
    if "representation" in c:
        code, spec = rep_eval(c["bars"], c["representation"], c["normalize"])
        print("representation:", c["representation"], "bars:", c["bars"], "\ncode:", code, "\ndefinition:", spec)
        return not spec_disagrees(spec, code)
    if "bars" in c and "perm_seed" in c:
        res = eval_laws(c["bars"], c["t"], c["lam"], c["perm_seed"], c["drop"])
        print("laws on the recorded barcode:", res)
        return all(res.values())
    raise common.HarnessError("C16 replay: unknown case shape %r" % sorted(c))

MANIFEST = {
    "text": "Proof: 27 Lean theorems (16 of them core: each carries a clause of the statement; the rest are helpers and rfl restatements "
            "such as list_is_map_*) about the model of persistent_entropy at the reals: 0 <= H <= log n via Gibbs' inequality, "
            "= log n for equal lengths, invariance under reordering/translation/rescaling both for the Shannon sum and for what the "
            "routine returns for a diagram (E1_perm, E1_scale for c > 0, E1_translate: value or error), normalised variant in [0,1] for "
            "n>=2, list -> vector, a bar with infinite death anywhere in the diagram is dropped / every infinite entry is replaced by the "
            "supplied value, a non-positive bar raises - including a bar with infinite birth and finite death, which the death-only "
            "filter keeps (inf_birth_raises) - for barcodes of every size. The model is tied to the code on every run by executing the "
            "same definitions at Float against the real function on generated barcodes (infinite deaths and births) and all flag "
            "combinations (1e-12); a representation stream (uint8/int8/int32/int64/uint16/float32 arrays, nested lists, tuples, an "
            "extra column, unsigned bars born after dying) compares the real function with the definition on the same numbers, and "
            "the laws are also evaluated on the real code as tests.",
    "note": "Trusted: Lean kernel + Mathlib, axioms propext/Classical.choice/Quot.sound; the correspondence harness; np.log/np.sum as "
            "Real.log/sum up to rounding. Theorems are exact-arithmetic; float rounding and the conversion of the input container "
            "to float64 are covered only by the [T] law and representation streams. -inf/NaN coordinates are outside the model.",
    "technique": "Lean 4 theorems over a hand-written model + differential correspondence with the real code",
}
MANIFEST["note"] += " " + py2lean.manifest_note("entropy")
