"""C18 — transformers: fit+transform == fit_transform, and refits forget the past.

Theorems: lean/PersimVerif/Props/C18.lean about lean/PersimVerif/Model/Transformers.lean (both transformers as
state machines; per-diagram image and PersLandscapeApprox are abstract parameters).
Tie: random call sequences (fit / transform / fit_transform / user assignments / reads) on the real
`PersistenceImager` and `PersistenceLandscaper`; public attributes after every call and the *structure* of every
output (which diagram, under which geometry / which grid arguments) compared with the model at `Rat`
(driver ops `imgT.hist`, `lsc.hist`).  Imager histories of this stream are dyadic with power-of-two pixel sizes,
so the code's float arithmetic is exact and the comparison is exact (rounding is C12's business).
[T]: the laws themselves on the real code with arbitrary floats: fit;transform == fit_transform, transform twice
equal with the public and fitted attributes unchanged (FITTED below; a new private attribute such as a cache is not a
change of the fitted state), collections map element-wise in order, refits forget — also when the refit runs on
`sklearn.base.clone(obj)`, on the clone of a `Pipeline` holding the object, or after `set_params(**get_params())`.
"Refits forget" is applied as stated: the result of a fit may depend on the data of that fit and on what the user fixed
explicitly, never on earlier fits.  For the imager that is: the same user assignments without the earlier fits, then
fit(X), give the same public state and images; that the present code also overwrites user-assigned ranges (result =
a fresh imager's) is compared as correspondence only.  A landscaper fit on a diagram without a finite point (nothing to
learn an end from) may raise anything or return; a fit that returns must agree with an unfitted landscaper with the same
user-fixed parameters.  persim raising on valid input inside a law fails the law; any other exception in a law stream is a
HarnessError (exit 2).

Several theorems hold BY CONSTRUCTION of the model (`imager_transform_pure(_history)`, `landscaper_transform_pure`,
`landscaper_fit_then_transform(_history)`: a `transform` call of the model returns the state it was given, and
`lfitTransform` is defined as `lfit` then `ltransform`).  They say nothing about the code by themselves; they rest on
the per-call comparison of the public and fitted attributes before/after every transform / repr / get_params call and of every
fit_transform output with PersLandscapeApprox on the model's arguments (BY_CONSTRUCTION below, reported in the evidence).
"""
import copy
import math
import numpy as np
from .. import common
from ..translator import py2lean
from ..common import enc, ask

LEVEL = "proof"
RULE = ("call sequences generated from one PRNG. Landscaper: constructor with any subset of {start, stop} given, 0-12 calls from "
        "{start=, stop= (attribute or set_params, value or None), num_steps=, flatten=, hom_deg=, fit, transform, fit_transform, "
        "repr/get_params reads, sklearn.base.clone (the history goes on with the clone), set_params(**get_params())} on 1-3 diagrams "
        "of 0-6 bars (lattice/dyadic/decimal/uniform coordinates; empty diagrams and out-of-range hom_deg for the error paths; a "
        "quarter of the non-empty diagrams carry points with an infinite death, a -inf birth or a NaN, a fifth of those are "
        "all-infinite); a quarter of the histories are refit pipelines (fit / fit_transform on one fold, clone or "
        "set_params(**get_params()) or nothing, refit on another fold, 2-4 rounds). Imager: constructor with any subset of ranges/pixel size, 0-10 calls from "
        "{birth_range=, pers_range=, pixel_size=, fit, transform, fit_transform} with single diagrams, collections (also with empty "
        "members) and empty inputs; in the law stream skew is passed by position in about half of the cases. non-trivial = at least one fit or fit_transform followed by another call; distinct by digest")
ASSUMPTIONS = [
    "diagrams are float arrays of shape (-,2); landscaper diagrams may contain non-finite coordinates (ignored by fit), imager "
    "diagrams are finite; user-assigned start/stop are finite numbers or None",
    "sklearn.base.clone(obj) = type(obj)(**obj.get_params()) and set_params(**p) = setattr per parameter (exercised on every run)",
    "sklearn TransformerMixin.fit_transform(X) = fit(X).transform(X) (compared on every fit_transform call of the landscaper)",
    "copy.deepcopy of the argument equals the argument (the imager's fit_transform works on a deep copy)",
    "purity is judged on public attributes and on the fitted ones listed in FITTED (backing fields, mesh, user-fixed flags); other "
    "private attributes are compared as correspondence only",
    "attributes compared exactly (landscaper start/stop are data values; imager histories of the correspondence stream are dyadic); "
    "outputs compared with np.array_equal against the image / landscape the model says they are",
]
MAXV = 5
# theorems that carry a clause of the property and have content of their own …
CORE_THEOREMS = [
    "PersimVerif.C18.imager_fit_forgets", "PersimVerif.C18.imager_fit_forgets_histories",
    "PersimVerif.C18.imager_fit_then_transform", "PersimVerif.C18.imager_map_in_order",
    "PersimVerif.C18.landscaper_fit_forgets", "PersimVerif.C18.landscaper_clone_is_unfitted",
    "PersimVerif.C18.landscaper_fit_rejects",
]
# … clauses that hold by construction of the model (`rfl` / list induction over a model whose transform returns its state);
# they rest on the per-call state (public + fitted attributes) / output comparisons of this harness …
BY_CONSTRUCTION = [
    "PersimVerif.C18.imager_transform_pure", "PersimVerif.C18.imager_transform_pure_history",
    "PersimVerif.C18.imager_fit_then_transform_history", "PersimVerif.C18.landscaper_fit_then_transform",
    "PersimVerif.C18.landscaper_fit_then_transform_history", "PersimVerif.C18.landscaper_transform_pure",
]
# … and the rest are decided counterexamples for the three pre-fix behaviours (concrete instances).


def PI():
    return common.pm("images").PersistenceImager


def PL():
    return common.pm("landscapes.transformer").PersistenceLandscaper


def PLA():
    return common.pm("landscapes.approximate").PersLandscapeApprox


def arr(d):
    return np.array(d, dtype=float).reshape(-1, 2)


# ============================================================================= state snapshots (purity)

def deep_eq(a, b):
    if isinstance(a, np.ndarray) or isinstance(b, np.ndarray):
        return isinstance(a, np.ndarray) and isinstance(b, np.ndarray) and out_eq(a, b)
    if isinstance(a, dict) and isinstance(b, dict):
        return a.keys() == b.keys() and all(deep_eq(a[k], b[k]) for k in a)
    if isinstance(a, (list, tuple)) and isinstance(b, (list, tuple)):
        return type(a) == type(b) and len(a) == len(b) and all(deep_eq(x, y) for x, y in zip(a, b))
    if callable(a) or callable(b):
        return a is b
    try:
        if type(a) != type(b):
            return False
        if isinstance(a, (float, np.floating)) and a != a and b != b:      # an unchanged NaN attribute is unchanged
            return True
        return bool(a == b)
    except Exception:
        return False


def snap_dict(obj):
    return {k: (v if callable(v) else copy.deepcopy(v)) for k, v in obj.__dict__.items()}


# attributes that make up the fitted / user-fixed state although their names are private (the backing fields of the public
# properties, the fitted mesh, the "fixed by the user" flags).  Purity ("transforming does not alter the fitted state") is
# judged on these and on every public attribute; a NEW private attribute (a cache, a counter) is not a change of the fitted
# state, and a change of some other private attribute is reported as a correspondence matter only - its effect, if any,
# shows in the outputs, which are compared as well (repeatability, fit;transform == fit_transform).
FITTED = {
    "landscaper": {"_start", "_stop", "_start_fixed", "_stop_fixed"},
    "imager": {"_birth_range", "_pers_range", "_pixel_size", "_width", "_height", "_resolution", "_bpnts", "_ppnts"},
}


def state_diff(before, after, kind):
    """(changed, other): `changed` = public or fitted attributes of `before` that are missing or different in `after`;
    `other` = private non-fitted attributes that changed, and attributes that are new in `after`"""
    changed, other = [], []
    for k in before:
        if k not in after or not deep_eq(before[k], after[k]):
            (changed if (not k.startswith("_") or k in FITTED[kind]) else other).append(k)
    other += ["+" + k for k in after if k not in before]
    return changed, other


def purity(obj, before, before_pub, kind):
    """(changed, other) of the object now against the snapshot (and the public view) taken before the call"""
    changed, other = state_diff(before, snap_dict(obj), kind)
    pub = l_public(obj) if kind == "landscaper" else i_public(obj)
    if pub != before_pub and not changed:
        changed.append("public view %r -> %r" % (before_pub, pub))
    return changed, other


class LawFailure(Exception):
    """persim (or sklearn / copy acting on a persim object) raised on valid input inside a law: the law fails there"""


def P(what, fn, *a, **k):
    """a call into persim with valid arguments inside a law.  An exception here is a failure of the law; any OTHER exception
    inside a law is the harness's own and ends the run with exit status 2"""
    try:
        return fn(*a, **k)
    except common.HarnessError:
        raise
    except Exception as e:
        raise LawFailure("%s raised %s (%s) on valid input" % (what, type(e).__name__, str(e)[:120]))


def out_eq(a, b):
    """two transform outputs: same container kind, same length, element-wise identical arrays"""
    if isinstance(a, list) or isinstance(b, list):
        return isinstance(a, list) and isinstance(b, list) and len(a) == len(b) and all(out_eq(x, y) for x, y in zip(a, b))
    a, b = np.asarray(a), np.asarray(b)
    if a.shape != b.shape or a.dtype != b.dtype:
        return False
    return np.array_equal(a, b, equal_nan=(a.dtype.kind == "f"))


# ============================================================================= landscaper

def l_public(obj):
    g = lambda x: None if x is None else float(x)
    return [g(obj.start), g(obj.stop), int(obj.num_steps), bool(obj.flatten), int(obj.hom_deg)]


def l_construct(c):
    return PL()(**{k: v for k, v in c.items() if v is not None})


def l_dgms(X):
    return [arr(d) for d in X]


def l_apply(obj, call):
    """returns (the object the history goes on with, the call's return value (None for assignments)).
    `cl` replaces the object by sklearn.base.clone(obj); every other call returns the object itself."""
    k = call[0]
    if k in ("ss", "st"):
        name = "start" if k == "ss" else "stop"
        if call[2] == "attr":
            setattr(obj, name, call[1])
        else:
            obj.set_params(**{name: call[1]})
        return obj, None
    if k == "ns":
        obj.num_steps = call[1]; return obj, None
    if k == "fl":
        obj.flatten = call[1]; return obj, None
    if k == "hd":
        obj.hom_deg = call[1]; return obj, None
    if k == "read":
        repr(obj); obj.get_params(); return obj, None
    if k == "cl":
        from sklearn.base import clone
        new = clone(obj)
        if new is obj or type(new) is not type(obj):
            raise common.HarnessError("sklearn.base.clone did not return a new PersistenceLandscaper")
        return new, None
    if k == "spg":
        r = obj.set_params(**obj.get_params())
        if r is not obj:
            raise common.HarnessError("set_params did not return self")
        return obj, None
    if k == "fit":
        r = obj.fit(l_dgms(call[1]))
        if r is not obj:
            raise common.HarnessError("PersistenceLandscaper.fit did not return self")
        return obj, None
    if k == "tr":
        return obj, obj.transform(l_dgms(call[1]))
    if k == "ft":
        return obj, obj.fit_transform(l_dgms(call[1]))
    raise common.HarnessError("unknown landscaper call %r" % (call,))


def l_enc_call(call):
    k = call[0]
    if k in ("ss", "st"):
        return "[%s,%s]" % (k, enc(call[1]))
    if k == "ns" or k == "hd":
        return "[%s,%d]" % (k, call[1])
    if k == "fl":
        return "[fl,%s]" % enc(bool(call[1]))
    if k in ("cl", "spg"):
        return "[%s]" % k
    return "[%s,%s]" % (k, enc(call[1]))


def l_line(case):
    c = case["ctor"]
    calls = [x for x in case["calls"] if x[0] != "read"]
    return "lsc.hist %d %s %s %d %s [%s]" % (c.get("hom_deg", 0) or 0, enc(c.get("start")), enc(c.get("stop")),
                                              500 if c.get("num_steps") is None else c["num_steps"], enc(bool(c.get("flatten") or False)),
                                              ",".join(l_enc_call(x) for x in calls))


def l_expected_output(desc, X):
    """the value the model says transform returns: PersLandscapeApprox(dgms=X, start, stop, num_steps, hom_deg).values [flattened]"""
    _, st, sp, n, k, flat = desc
    g = lambda x: None if x is None else float(x)
    res = common.call(lambda: PLA()(dgms=l_dgms(X), start=g(st), stop=g(sp), num_steps=int(n), hom_deg=int(k)).values)
    if res[0] == "err":
        return "err:" + res[1]
    return res[1].flatten() if flat else res[1]


def l_run_real(case):
    """records per step: {'pub', 'res'}; res = 'ok' | 'err:Kind' | ndarray"""
    recs = []
    with np.errstate(all="ignore"):
        obj = l_construct(case["ctor"])
        recs.append({"pub": l_public(obj), "res": "ok"})
        for call in case["calls"]:
            before = snap_dict(obj) if call[0] in ("tr", "read") else None
            before_pub = l_public(obj) if before is not None else None
            st, v, _ = common.call(l_apply, obj, call)
            if st == "err" and v == "HarnessError":
                raise common.HarnessError("landscaper call %r broke the harness's own expectations" % (call[0],))
            if st != "err":
                obj, v = v
            changed, other = purity(obj, before, before_pub, "landscaper") if before is not None else ([], [])
            if other:       # new / private non-fitted attributes: not the fitted state (correspondence only)
                recs[-1].setdefault("private_changes", "%s touched private attributes %r" % (
                    "transform" if call[0] == "tr" else "repr/get_params", other))
            if call[0] == "read":
                if changed:
                    recs.append({"pub": l_public(obj), "res": "ok", "impure": "repr/get_params changed %r" % (changed,)})
                    break
                continue
            recs.append({"pub": l_public(obj), "res": ("err:" + v) if st == "err" else ("ok" if v is None else v)})
            if changed:      # [T] purity of transform, on every transform call of every history
                recs[-1]["impure"] = "transform changed the object: %r -> %r" % (
                    {k: before.get(k) for k in changed}, {k: obj.__dict__.get(k) for k in changed})
                break
    return recs


def l_compare(case, recs, ans):
    """first disagreement between the code's records and the model's answer, or None"""
    calls = [x for x in case["calls"] if x[0] != "read"]
    if not isinstance(ans, list) or len(ans) != len(recs):
        return 0, "model answered %r states for %d calls" % (len(ans) if isinstance(ans, list) else ans, len(recs))
    for k, (rec, ent) in enumerate(zip(recs, ans)):
        g = lambda x: None if x is None else float(x)
        mpub = [g(ent[0]), g(ent[1]), int(ent[4]), bool(ent[5]), int(ent[6])]
        if mpub != rec["pub"]:
            return k, "public attributes (start, stop, num_steps, flatten, hom_deg): code %r, model %r" % (rec["pub"], mpub)
        mres = ent[7]
        cres = rec["res"]
        if isinstance(mres, list):          # a transform / fit_transform that returned
            exp = l_expected_output(mres, calls[k - 1][1])
            if isinstance(exp, str) or isinstance(cres, str):
                # PersLandscapeApprox itself rejected the arguments: the code must fail the same way
                if not (isinstance(exp, str) and isinstance(cres, str) and exp == cres):
                    return k, "output: code %r, PersLandscapeApprox on the model's arguments %r" % (
                        cres if isinstance(cres, str) else "array", exp if isinstance(exp, str) else "array")
            elif not out_eq(cres, exp):
                return k, "output differs from PersLandscapeApprox(start=%r, stop=%r, num_steps=%r, hom_deg=%r)%s" % (
                    g(mres[1]), g(mres[2]), int(mres[3]), int(mres[4]), ".flatten()" if mres[5] else "")
        else:
            if not (isinstance(cres, str) and cres == mres):
                return k, "call outcome: code %r, model %r" % (cres if isinstance(cres, str) else "array", mres)
    return None


class LGen:
    def __init__(self, ctx):
        self.ctx, self.r, self.g = ctx, ctx.rng, ctx.gen
        self.mode = self.g.mode()

    def value(self):
        return float(self.g.coord(self.mode))

    def X(self, bad=0.1, inf=0.25):
        """1-3 diagrams; a member is empty with probability `bad`; with probability `inf` a non-empty member gets
        non-finite points: an infinite death (the essential class of H0), more rarely a -inf birth or a NaN, and in a
        fifth of those cases ALL its points are made infinite (fit must then behave as on an empty diagram)"""
        r = self.r
        n = r.randint(1, 3)
        X = []
        for _ in range(n):
            if r.random() < bad:
                X.append([])
                continue
            m = r.randint(1, 6)
            d = [self.g.bar(self.mode, allow_diag=False) for _ in range(m)]
            if r.random() < inf:
                t = r.random()
                if t < 0.2:
                    d = [[b, math.inf] for b, _ in d]
                    self.ctx.count("ldgm:all_infinite")
                else:
                    for _ in range(r.randint(1, 2)):
                        u = r.random()
                        pt = [self.value(), math.inf] if u < 0.7 else ([-math.inf, self.value()] if u < 0.85 else
                                                                     r.choice([[self.value(), math.nan], [math.nan, self.value()]]))
                        d.insert(r.randint(0, len(d)), pt)
                    self.ctx.count("ldgm:some_nonfinite")
            else:
                self.ctx.count("ldgm:finite")
            X.append(d)
        return X

    def optval(self):
        return None if self.r.random() < 0.3 else self.value()

    def call(self):
        r = self.r
        k = r.choice(["ss", "st", "ns", "fl", "hd", "fit", "fit", "fit", "tr", "tr", "ft", "ft", "read", "cl", "cl", "spg"])
        if k in ("ss", "st"):
            return [k, self.optval(), r.choice(["attr", "attr", "set_params"])]
        if k == "ns":
            return [k, r.choice([2, 3, 7, 10, 50])]
        if k == "fl":
            return [k, r.random() < 0.5]
        if k == "hd":
            return [k, r.choice([0, 0, 1, 1, 2, 3, -1])]
        if k in ("read", "cl", "spg"):
            return [k]
        return [k, self.X()]

    def refit_pipeline(self):
        """the cross-validation pattern: fit on one fold, then clone / set_params(**get_params()) / nothing, refit on
        another fold, transform; 2-4 rounds, user assignments now and then"""
        r = self.r
        calls = []
        for _ in range(r.randint(2, 4)):
            X = self.X(bad=0.0)
            calls.append([r.choice(["fit", "fit", "ft"]), X])
            if r.random() < 0.5:
                calls.append(["tr", r.choice([X, self.X(bad=0.0)])])
            t = r.random()
            if t < 0.45:
                calls.append(["cl"])
            elif t < 0.7:
                calls.append(["spg"])
            elif t < 0.8:
                calls.append(["read"])
            if r.random() < 0.15:
                calls.append([r.choice(["ss", "st"]), self.optval(), r.choice(["attr", "set_params"])])
        return calls

    def history(self):
        r = self.r
        c = {"hom_deg": r.choice([0, 0, 1]), "start": None, "stop": None, "num_steps": r.choice([None, 5, 20, 40]),
             "flatten": r.choice([None, True, False])}
        if r.random() < 0.3:
            c["start"] = self.value()
        if r.random() < 0.3:
            c["stop"] = self.value() + 20
        if r.random() < 0.25:
            c["hom_deg"] = 0
            self.ctx.count("landscaper_refit_pipelines")
            return {"ctor": c, "calls": self.refit_pipeline()}
        return {"ctor": c, "calls": [self.call() for _ in range(r.randint(0, 12))]}


L_CORPUS = [
    {"ctor": {"hom_deg": 0, "start": None, "stop": None, "num_steps": 10, "flatten": None},
     "calls": [["fit", [[[0.0, 4.0]]]], ["fit", [[[2.0, 10.0]]]], ["tr", [[[2.0, 10.0]]]]]},              # 9596bd3
    {"ctor": {"hom_deg": 0, "start": 1.0, "stop": None, "num_steps": 10, "flatten": True},
     "calls": [["fit", [[[0.0, 4.0]]]], ["ss", None, "attr"], ["fit", [[[2.0, 10.0]]]], ["st", 12.0, "set_params"], ["ft", [[[3.0, 5.0], [1.0, 2.0]]]]]},
    {"ctor": {"hom_deg": 1, "start": None, "stop": None, "num_steps": 5, "flatten": None},
     "calls": [["fit", [[[0.0, 4.0]]]], ["fit", [[[0.0, 4.0]], []]], ["ft", [[[0.0, 3.0], [1.0, 4.0]], [[1.0, 4.0]]]]]},
    {"ctor": {"hom_deg": 0, "start": None, "stop": None, "num_steps": 10, "flatten": None},
     "calls": [["fit", [[[0.0, 4.0]]]], ["cl"], ["fit", [[[2.0, 10.0]]]], ["tr", [[[2.0, 10.0]]]]]},                      # 4d8db3a (clone)
    {"ctor": {"hom_deg": 0, "start": None, "stop": 7.0, "num_steps": 10, "flatten": None},
     "calls": [["fit", [[[0.0, 4.0]]]], ["spg"], ["tr", [[[1.0, 3.0]]]], ["fit", [[[2.0, 10.0]]]], ["cl"], ["ft", [[[3.0, 5.0]]]]]},  # 4d8db3a (set_params)
    {"ctor": {"hom_deg": 0, "start": None, "stop": None, "num_steps": 10, "flatten": None},
     "calls": [["ft", [[[0.0, 3.0], [1.0, 4.0], [0.0, math.inf]]]], ["fit", [[[0.0, math.inf]]]], ["fit", [[[1.0, 2.0], [-math.inf, 5.0], [0.5, math.nan]]]]]},  # b209c93
]


def l_laws(ctx, case, X0=None):
    """[T] the laws on the real landscaper, from the state the history reaches, for fresh data X (or the recorded X0).
    Returns (ok, text, X, notes): `ok` False = the statement fails on this input (`text` says how); `notes` lists
    differences from the model in behaviour the statement leaves open (correspondence only).  An exception raised by
    persim on valid input fails the law; any other exception propagates (the harness's own: exit status 2)."""
    hold, notes = {"X": X0}, []
    try:
        ok, text = _l_laws(ctx, case, X0, hold, notes)
    except LawFailure as e:
        ok, text = False, str(e)
    return ok, text, hold["X"], notes


def _l_laws(ctx, case, X0, hold, notes):
    g = LGen(ctx)
    g.mode = ctx.rng.choice(["lattice", "half", "dyadic", "dec", "unif"])
    with np.errstate(all="ignore"):
        obj = P("the constructor", l_construct, case["ctor"])
        for call in case["calls"]:
            res = common.call(l_apply, obj, call)
            if res[0] == "err" and res[1] == "HarnessError":
                raise common.HarnessError("landscaper call %r broke the harness's own expectations" % (call[0],))
            if res[0] == "ok":
                obj = res[1][0]
        X = g.X(bad=0.0) if X0 is None else X0
        hold["X"] = X
        law = case.get("law") if X0 is not None else None       # replay: the recorded choices of this function
        if law is not None:
            P("hom_deg assignment", setattr, obj, "hom_deg", law["hom_deg"])
        while len(X) <= obj.hom_deg or obj.hom_deg < 0:
            P("hom_deg assignment", setattr, obj, "hom_deg", ctx.rng.randint(0, len(X) - 1))
        # what the user fixed: the last assignment of the history (constructor counts); clone and
        # set_params(**get_params()) are not assignments by the user
        user = {"start": case["ctor"].get("start"), "stop": case["ctor"].get("stop")}
        for call in case["calls"]:
            if call[0] == "ss":
                user["start"] = call[1]
            if call[0] == "st":
                user["stop"] = call[1]
        # the cross-validation pattern on top of the history: the refit runs on the object itself, on its clone, or
        # on the clone of a Pipeline holding it (clone() of a Pipeline clones its steps), before or after a
        # set_params(**get_params()) round trip
        how = ctx.rng.choice(["self", "self", "clone", "clone", "spg", "pipeline"]) if law is None else law["how"]
        case["law"] = {"how": how, "hom_deg": int(obj.hom_deg)}
        ctx.count("law_refit_on:" + how)
        if how == "clone":
            from sklearn.base import clone
            obj = P("sklearn.base.clone", clone, obj)
        elif how == "spg":
            P("set_params(**get_params())", lambda: obj.set_params(**obj.get_params()))
        elif how == "pipeline":
            from sklearn.base import clone
            from sklearn.pipeline import Pipeline
            obj = P("clone of a Pipeline", lambda: clone(Pipeline([("landscaper", obj)])).named_steps["landscaper"])
        o1, o2 = P("copy.deepcopy", copy.deepcopy, obj), P("copy.deepcopy", copy.deepcopy, obj)
        # refit forgets: start/stop = the user's value, else min birth / max death over the points of this fit's
        # diagram that have finite coordinates
        d = arr(X[o1.hom_deg])
        d = d[np.all(np.isfinite(d), axis=1)]
        before_fit, before_fit_pub = snap_dict(o1), P("reading the public attributes", l_public, o1)
        rf = common.call(o1.fit, l_dgms(X))
        if len(d) == 0 and (user["start"] is None or user["stop"] is None):
            # nothing to learn an end from.  The statement does not say what happens then (the present code raises ValueError,
            # incidentally, from min([])): any exception is fine; its class and an object left changed by the failed call are
            # compared with the model as correspondence only.  A fit that RETURNS must still not depend on earlier fits:
            # an unfitted landscaper with the same user-fixed parameters, given the same data, has to end in the same state.
            if rf[0] == "err":
                if rf[1] != "ValueError":
                    notes.append("fit on a diagram without a finite point raised %s (model: ValueError)" % rf[1])
                if any(purity(o1, before_fit, before_fit_pub, "landscaper")):
                    notes.append("a fit that raised (diagram without a finite point) changed the object")
                return True, ""
            ref = P("the constructor", PL(), hom_deg=int(o1.hom_deg), start=user["start"], stop=user["stop"],
                    num_steps=o1.num_steps, flatten=o1.flatten)
            rr = common.call(ref.fit, l_dgms(X))
            got = P("reading the public attributes", l_public, o1)
            want = P("reading the public attributes", l_public, ref) if rr[0] == "ok" else "raises " + str(rr[1])
            if got != want:
                return False, ("after the history (refit on: %s), fit on a diagram without a finite point returned with (start, stop, ...) "
                               "= %r, but an unfitted landscaper with the same user-fixed parameters %s: the result depends on "
                               "earlier fits" % (how, got, want if isinstance(want, str) else "gives %r" % (want,)))
            notes.append("fit on a diagram without a finite point returned (model: ValueError)")
            return True, ""
        if rf[0] == "err":
            return False, "fit raised %s on a diagram with %d finite point(s)" % (rf[1], len(d))
        want = (user["start"] if user["start"] is not None else float(d[:, 0].min()),
                user["stop"] if user["stop"] is not None else float(d[:, 1].max()))
        got = (None if o1.start is None else float(o1.start), None if o1.stop is None else float(o1.stop))
        if got != want:
            return False, "after the history (refit on: %s), fit(X) gives (start, stop) = %r; user-fixed values / finite data of this fit give %r" % (
                how, got, want)
        # fit;transform == fit_transform
        before, before_pub = snap_dict(o1), l_public(o1)
        r1 = common.call(o1.transform, l_dgms(X))
        r2 = common.call(o2.fit_transform, l_dgms(X))
        if r1[0] != r2[0] or (r1[0] == "ok" and not out_eq(r1[1], r2[1])):
            return False, "fit(X).transform(X) and fit_transform(X) differ"
        if r1[0] == "err" and r1[1] != r2[1]:
            notes.append("fit(X).transform(X) raises %s, fit_transform(X) raises %s" % (r1[1], r2[1]))
        if l_public(o1) != l_public(o2):
            return False, "public attributes after fit;transform %r and after fit_transform %r differ" % (l_public(o1), l_public(o2))
        # transform is pure and repeatable: public and fitted attributes unchanged, same output again
        changed, other = purity(o1, before, before_pub, "landscaper")
        if changed:
            return False, "transform changed the fitted state: %r: %r -> %r" % (
                changed, {k: before.get(k) for k in changed}, {k: o1.__dict__.get(k) for k in changed})
        r3 = common.call(o1.transform, l_dgms(X))
        if r1[0] != r3[0] or (r1[0] == "ok" and not out_eq(r1[1], r3[1])):
            return False, "two transform calls on the same input differ"
        changed, other2 = purity(o1, before, before_pub, "landscaper")
        if changed:
            return False, "the second transform changed the fitted state: %r" % (changed,)
        if other or other2:
            notes.append("transform touched private attributes %r (public and fitted attributes unchanged)" % (other or other2,))
    return True, ""


# ============================================================================= imager

def i_public(obj):
    b, p, r = obj.birth_range, obj.pers_range, obj.resolution
    return [float(b[0]), float(b[1]), float(p[0]), float(p[1]), float(obj.pixel_size), float(obj.width), float(obj.height),
            int(r[0]), int(r[1])]


def i_input(kind, data):
    if kind == "s":
        return arr(data)
    seen, out = {}, []
    for d in data:                      # equal members of a collection are one and the same ndarray object
        key = repr(d)
        if key not in seen:
            seen[key] = arr(d)
        out.append(seen[key])
    return out


def i_construct(c):
    kw = {}
    for k in ("birth_range", "pers_range"):
        if c.get(k) is not None:
            kw[k] = tuple(c[k])
    if c.get("pixel_size") is not None:
        kw["pixel_size"] = c["pixel_size"]
    if c.get("kernel_params") is not None:
        kw["kernel_params"] = c["kernel_params"]
    return PI()(**kw)


def i_apply(obj, call):
    k = call[0]
    if k == "sb":
        obj.birth_range = (call[1], call[2]); return None
    if k == "sp":
        obj.pers_range = (call[1], call[2]); return None
    if k == "px":
        obj.pixel_size = call[1]; return None
    if k == "read":
        repr(obj); obj.resolution; obj.width; obj.height; return None
    if k == "fit":
        obj.fit(i_input(call[2], call[3]), skew=call[1]); return None
    if k == "tr":
        return obj.transform(i_input(call[2], call[3]), skew=call[1])
    if k == "ft":
        return obj.fit_transform(i_input(call[2], call[3]), skew=call[1])
    raise common.HarnessError("unknown imager call %r" % (call,))


def i_enc_call(call):
    if call[0] in ("fit", "tr", "ft"):
        return "[%s,%s,%s,%s]" % (call[0], enc(bool(call[1])), call[2], enc(call[3]))
    return "[" + ",".join([call[0]] + [enc(float(x)) for x in call[1:]]) + "]"


I_DEFAULTS = {"birth_range": (0.0, 1.0), "pers_range": (0.0, 1.0), "pixel_size": 0.2}


def i_line(case):
    c = case["ctor"]
    br = c.get("birth_range") or I_DEFAULTS["birth_range"]
    pr = c.get("pers_range") or I_DEFAULTS["pers_range"]
    ps = I_DEFAULTS["pixel_size"] if c.get("pixel_size") is None else c["pixel_size"]
    calls = [x for x in case["calls"] if x[0] != "read"]
    return "imgT.hist %s %s %s [%s]" % (enc([float(x) for x in br]), enc([float(x) for x in pr]), enc(float(ps)),
                                         ",".join(i_enc_call(x) for x in calls))


def i_run_real(case):
    """records per step: {'pub','out','ref'}: ref = a deep copy of the object as it was when the output was produced"""
    recs = []
    with np.errstate(all="ignore"):
        res = common.call(i_construct, case["ctor"])
        if res[0] == "err":
            return [{"err": res[1]}]
        obj = res[1]
        recs.append({"pub": i_public(obj), "out": None})
        for call in case["calls"]:
            before = snap_dict(obj) if call[0] in ("tr", "read") else None
            before_pub = i_public(obj) if before is not None else None
            st, v, _ = common.call(i_apply, obj, call)
            changed, other = purity(obj, before, before_pub, "imager") if before is not None else ([], [])
            if other:       # new / private non-fitted attributes: not the fitted state (correspondence only)
                recs[-1].setdefault("private_changes", "%s touched private attributes %r" % (
                    "transform" if call[0] == "tr" else "reading attributes", other))
            if call[0] == "read" and not changed:
                continue
            if st == "err":
                recs.append({"err": v})
                break
            recs.append({"pub": i_public(obj), "out": v, "ref": copy.deepcopy(obj) if v is not None else None})
            if changed:      # [T] purity of transform, on every transform call of every history
                recs[-1]["impure"] = "%s changed the object (attributes %r)" % (
                    "transform" if call[0] == "tr" else "reading attributes", changed)
                break
    return recs


def i_desc_ok(desc, img, ref):
    """is `img` the image the model names (zeros of a resolution / the image of one diagram under the geometry of `ref`)?"""
    img = np.asarray(img)
    if desc[0] == "zeros":
        return img.shape == (int(desc[1]), int(desc[2])) and not img.any()
    _, rx, ry, skew, dgm = desc
    if img.shape != (int(rx), int(ry)):
        return False
    d = arr([[float(a), float(b)] for a, b in dgm])
    single = ref.transform(d, skew=bool(skew))
    return isinstance(single, np.ndarray) and single.shape == img.shape and np.array_equal(single, img)


def i_compare(case, recs, ans):
    if not isinstance(ans, list):
        return 0, "model answered %r" % (ans,)
    for k, ent in enumerate(ans):
        if k >= len(recs):
            return k, "model goes on after the code stopped"
        rec = recs[k]
        if isinstance(ent, str) or "err" in rec:
            if isinstance(ent, str) and "err" in rec:
                return None
            return k, "code: %r, model: %r" % (rec.get("err", "no error"), ent if isinstance(ent, str) else "no error")
        mpub = [float(x) for x in ent[0][:7]] + [int(ent[0][7]), int(ent[0][8])]
        if mpub != rec["pub"]:
            return k, "attributes (birth_range, pers_range, pixel_size, width, height, resolution): code %r, model %r" % (rec["pub"], mpub)
        mout, cout = ent[1], rec["out"]
        if mout is None:
            if cout is not None:
                return k, "the call returned a value, the model says it returns nothing"
            continue
        if cout is None:
            return k, "the call returned nothing, the model says %s" % mout[0]
        if mout[0] == "image":
            if isinstance(cout, list) or not i_desc_ok(mout[1], cout, rec["ref"]):
                return k, "output is not the bare image the model names (%s)" % (mout[1][0],)
        else:
            if not isinstance(cout, list) or len(cout) != len(mout[1]):
                return k, "output is not a list of %d images" % len(mout[1])
            for j, (dsc, im) in enumerate(zip(mout[1], cout)):
                if not i_desc_ok(dsc, im, rec["ref"]):
                    return k, "image %d of the output is not the image of diagram %d of the input" % (j, j)
    if len(ans) != len(recs):
        return len(ans), "model stops after %d states, code reached %d" % (len(ans), len(recs))
    return None


class IGen:
    """dyadic histories with power-of-two pixel sizes: every float operation of the geometry is exact"""

    def __init__(self, ctx):
        self.r = ctx.rng
        self.L = 2.0 ** self.r.choice([-10, -2, 0, 0, 0, 1, 6])

    def pixel(self):
        return 2.0 ** self.r.randint(-2, 1) * self.L

    def rng_(self):
        lo = self.r.randint(-40, 40) / 8.0 * self.L
        return lo, lo + self.r.randint(1, 64) / 8.0 * self.L

    def dgm(self, n=None, skew=True):
        r = self.r
        n = r.randint(1, 5) if n is None else n
        out = []
        for _ in range(n):
            b = r.randint(-16, 40) / 8.0 * self.L
            p = r.randint(0, 48) / 8.0 * self.L
            out.append([b, b + p if skew else p])
        return out

    def data(self, skew, for_fit):
        """(kind, data): single diagram / collection / empty inputs; fits get a positive spread"""
        r = self.r
        t = r.random()
        if not for_fit and t < 0.1:
            return r.choice([("s", []), ("c", [])])
        if t < 0.45:
            d = self.dgm(r.randint(2, 5), skew)
            kind, data = "s", d
        else:
            data = [self.dgm(None, skew) for _ in range(r.randint(1, 4))]
            if r.random() < 0.3:            # a collection that repeats a member (bootstrap resample): i_input hands the
                data.append([list(p) for p in r.choice(data)])   # SAME ndarray object to the code for equal members
            if not for_fit and r.random() < 0.25:
                data.insert(r.randint(0, len(data)), [])
            kind = "c"
        if for_fit:     # make the hull non-degenerate
            first = data if kind == "s" else data[0]
            b, q = first[0]
            first.append([b + self.L, q + 2 * self.L if skew else q + self.L])
        return kind, data

    def call(self):
        r = self.r
        k = r.choice(["sb", "sp", "px", "fit", "fit", "tr", "tr", "tr", "ft", "ft", "read"])
        if k == "px":
            return ["px", self.pixel()]
        if k in ("sb", "sp"):
            lo, hi = self.rng_()
            return [k, lo, hi]
        if k == "read":
            return [k]
        skew = r.random() < 0.7
        kind, data = self.data(skew, for_fit=(k != "tr"))
        return [k, skew, kind, data]

    def history(self):
        r = self.r
        c = {"birth_range": None, "pers_range": None, "pixel_size": None}
        if r.random() < 0.6 or self.L != 1.0:      # the default ranges (0,1) only at scale 1 (resolution stays small)
            c["birth_range"] = list(self.rng_())
        if r.random() < 0.6 or self.L != 1.0:
            c["pers_range"] = list(self.rng_())
        c["pixel_size"] = self.pixel()          # always a power of two (the default 0.2 is exercised by C12)
        return {"ctor": c, "calls": [self.call() for _ in range(r.randint(0, 10))]}


def i_rand_dgm(ctx, n=None):
    g, r = ctx.gen, ctx.rng
    mode = r.choice(["lattice", "half", "dec", "unif"])      # bounded coordinates: the resolution stays small
    n = r.randint(1, 6) if n is None else n
    pts = [g.bar(mode, allow_diag=True) for _ in range(n)]
    return [[float(b), float(d)] for b, d in pts]


def i_laws(ctx):
    """[T] the laws on the real imager with arbitrary floats.  Returns (ok, text, case)"""
    r = ctx.rng
    kp = r.choice([None, None, {"sigma": 0.5}, {"sigma": 0.5}, {"sigma": [[1.0, 0.3], [0.3, 2.0]]}])
    ps = r.choice([0.2, 0.5, 1.0, 0.3, r.uniform(0.2, 1.5)])
    hist = []
    for _ in range(r.randint(0, 4)):
        k = r.choice(["sb", "sp", "px", "fit"])
        if k == "px":
            hist.append(["px", r.choice([0.25, 0.4, 1.0, r.uniform(0.2, 1.5)])])
        elif k in ("sb", "sp"):
            lo = r.uniform(-3, 3)
            hist.append([k, lo, lo + r.uniform(0.3, 6)])
        else:
            hist.append(["fit", True, "c", [i_rand_dgm(ctx, r.randint(2, 5)) + [[0.0, 1.0], [2.0, 5.0]]]])
    coll = [i_rand_dgm(ctx) for _ in range(r.randint(1, 4))]
    if r.random() < 0.15:
        # no extent along the birth axis (H0 diagrams: every class is born at the same value), or one single point:
        # the fitted range has width 0 there; it must still be THIS data's range, not what an earlier fit left behind
        b0 = r.choice([0.0, 0.0, 0.5, -1.0])
        coll = [[[b0, b0 + abs(q[1] - q[0]) + 0.25] for q in d] for d in coll] if r.random() < 0.7 else [[[b0, b0 + 1.5]]]
        ctx.count("imager_laws:degenerate_extent")
    else:
        coll[0] = coll[0] + [[0.25, 1.0], [3.0, 7.5]]          # a positive spread for the fit
    if r.random() < 0.3:
        coll.insert(r.randint(1, len(coll)), [])
    skew = r.random() < 0.6                      # the flag travels with the data: the same value to fit, transform and fit_transform
    alias = r.random() < 0.25                    # the collection repeats one ndarray OBJECT (a diagram listed twice)
    # `skew` is the second parameter of fit / transform / fit_transform: handed over by position in about half of the cases
    # (decided by the data, not by a further random draw, so that the case stream is the one earlier runs recorded)
    pos = sum(len(d) for d in coll) % 2 == 1
    ctx.count("imager_laws:skew_by_position" if pos else "imager_laws:skew_by_keyword")
    case = {"ctor": {"pixel_size": ps, "kernel_params": kp}, "calls": hist, "X": coll, "skew": skew, "alias": alias, "positional": pos}
    ok, text, notes = i_law_body(case)
    return ok, text, case, notes


def i_law_body(case):
    """every clause of the imager laws for one case ({ctor, calls, X, skew, alias}); used by the law stream AND by the
    replay, so that a recorded failure of any clause replays.  Returns (ok, text, notes): `notes` = differences from the
    model in behaviour the statement leaves open (correspondence only).  persim raising on valid input fails the law;
    any other exception propagates (the harness's own)."""
    notes = []
    try:
        ok, text = _i_law_body(case, notes)
    except LawFailure as e:
        ok, text = False, str(e)
    return ok, text, notes


def _i_law_body(case, notes):
    coll, hist = case["X"], case["calls"]
    skew, alias = bool(case.get("skew", True)), bool(case.get("alias", False))
    kp = case["ctor"].get("kernel_params")
    dc = lambda o: P("copy.deepcopy", copy.deepcopy, o)
    with np.errstate(all="ignore"):
        obj = P("the constructor", i_construct, case["ctor"])
        for c in hist:
            P("history call %r" % (c[0],), i_apply, obj, c)
        X = [d for d in coll if d] if any(len(d) == 0 for d in coll) else coll
        fitX = [arr(d) for d in X]            # fit rejects empty members; transform accepts them
        trX = [arr(d) for d in coll]
        # the flag and the aliasing first, on copies of the object: fit(X, skew);transform(X, skew) == fit_transform(X, skew)
        k1, k2 = dc(obj), dc(obj)
        kX = fitX + [fitX[0]] if alias else fitX
        kX0 = [np.array(a, copy=True) for a in kX]
        if case.get("positional"):
            P("fit", k1.fit, kX, skew)
            ka = P("transform", k1.transform, kX, skew)
            kb = P("fit_transform", k2.fit_transform, kX, skew)
        else:
            P("fit", k1.fit, kX, skew=skew)
            ka = P("transform", k1.transform, kX, skew=skew)
            kb = P("fit_transform", k2.fit_transform, kX, skew=skew)
        if not out_eq(ka, kb) or i_public(k1) != i_public(k2):
            kw = "" if case.get("positional") else "skew="
            return False, "fit(X, %s%s);transform(X, %s%s) and fit_transform(X, %s%s) differ%s" % (
                kw, skew, kw, skew, kw, skew, " (X lists one array object twice)" if alias else "")
        if any(not np.array_equal(a, b) for a, b in zip(kX, kX0)):
            return False, "fit / transform / fit_transform changed the caller's diagrams"
        o1, o2 = dc(obj), dc(obj)
        # fit;transform == fit_transform (same data to both)
        P("fit", o1.fit, fitX)
        out1 = P("transform", o1.transform, fitX)
        out2 = P("fit_transform", o2.fit_transform, fitX)
        if not out_eq(out1, out2):
            return False, "fit(X);transform(X) and fit_transform(X) differ"
        changed, other = state_diff(snap_dict(o1), snap_dict(o2), "imager")
        if i_public(o1) != i_public(o2) or changed:
            return False, "state after fit;transform %r and after fit_transform %r differ%s" % (
                i_public(o1), i_public(o2), " (attributes %r)" % (changed,) if changed else "")
        if other:
            notes.append("private attributes %r differ after fit;transform and after fit_transform (public and fitted ones agree)" % (other,))
        # refit forgets.  The statement: what a fit learns depends only on the data of THIS fit and on parameters the user
        # fixed explicitly, never on earlier fits.  Literally: the same history WITHOUT its fit calls (the same user
        # assignments in the same order), followed by fit(X), must end in the same public state and give the same images.
        ref = P("the constructor", i_construct, case["ctor"])
        for c in hist:
            if c[0] != "fit":
                P("history call %r" % (c[0],), i_apply, ref, c)
        P("fit", ref.fit, fitX)
        if i_public(ref) != i_public(o1):
            return False, ("after a history with earlier fits, fit(X) gives %r; the same user assignments without the earlier "
                           "fits give %r" % (i_public(o1), i_public(ref)))
        if not out_eq(P("transform", ref.transform, fitX), out1):
            return False, "after a history with earlier fits, fit(X);transform(X) differs from the same user assignments without the earlier fits"
        # the present code (and the model) forgets MORE: ranges the user assigned are overwritten by fit as well, so the
        # result equals that of a fresh imager of the same pixel size.  The statement allows a fit to keep "parameters the
        # user fixed explicitly": a difference here is a correspondence matter.
        fresh = P("the constructor", PI(), pixel_size=float(obj.pixel_size), **({"kernel_params": kp} if kp is not None else {}))
        P("fit", fresh.fit, fitX)
        if i_public(fresh) != i_public(o1):
            notes.append("after user-assigned ranges, fit(X) gives %r; a fresh imager of the same pixel size gives %r (the model "
                         "overwrites user-assigned ranges)" % (i_public(o1), i_public(fresh)))
        elif not all(hasattr(o, a) for o in (fresh, o1) for a in ("_bpnts", "_ppnts")) or \
                not np.array_equal(fresh._bpnts, o1._bpnts) or not np.array_equal(fresh._ppnts, o1._ppnts):
            notes.append("private mesh (_bpnts/_ppnts) after a history differs from a fresh imager's although the public geometry agrees")
        # single diagram: fit;transform == fit_transform as well
        s1, s2 = dc(obj), dc(obj)
        P("fit", s1.fit, fitX[0]); a = P("transform", s1.transform, fitX[0]); b = P("fit_transform", s2.fit_transform, fitX[0])
        if isinstance(a, list) or isinstance(b, list) or not out_eq(a, b):
            return False, "single diagram: fit;transform and fit_transform differ"
        # transform: pure (public and fitted attributes), repeatable, element-wise in order
        before, before_pub = snap_dict(o1), i_public(o1)
        t1 = P("transform", o1.transform, trX)
        changed, other = purity(o1, before, before_pub, "imager")
        if changed:
            return False, "transform changed the fitted state (attributes %r)" % (changed,)
        t2 = P("transform", o1.transform, trX)
        if not out_eq(t1, t2):
            return False, "two transform calls on the same collection differ"
        if not isinstance(t1, list) or len(t1) != len(trX):
            return False, "transform of a collection of %d diagrams is not a list of %d images" % (len(trX), len(trX))
        res = tuple(o1.resolution)
        for j, d in enumerate(trX):
            one = P("transform", o1.transform, d)
            if not isinstance(one, np.ndarray) or one.shape != res:
                return False, "transform of one diagram is not a bare image of the resolution"
            if len(d) == 0 and one.any():
                return False, "image of an empty diagram is not zero"
            if not np.array_equal(one, t1[j]):
                return False, "image %d of the collection is not the image of diagram %d" % (j, j)
        z = P("transform", o1.transform, [])
        if not isinstance(z, np.ndarray) or z.shape != res or z.any():
            return False, "transform([]) is not zeros of the resolution"
        changed, other2 = purity(o1, before, before_pub, "imager")
        if changed:
            return False, "transform changed the fitted state (attributes %r)" % (changed,)
        if other or other2:
            notes.append("transform touched private attributes %r (public and fitted attributes unchanged)" % (other or other2,))
    return True, ""


# ============================================================================= run

def nontriv(calls):
    ks = [c[0] for c in calls if c[0] != "read"]
    return any(k in ("fit", "ft") and i + 1 < len(ks) for i, k in enumerate(ks))


# source translator (DESIGN.md 3.2): part of the model is regenerated from the source text on every run
# (the landscaper, and the imager geometry whose `fit` C18's imager statements are about)
TRUSTED = [py2lean.trusted_note("landscaper"), py2lean.trusted_note("imager"), py2lean.trusted_note("image")]
PROP_FILES = ["PersimVerif/Props/C18.lean"] + py2lean.prop_files("landscaper") + [
    f for f in py2lean.prop_files("imager") if f not in py2lean.prop_files("landscaper")] + py2lean.prop_files("image")
# landscape engine (py2lean_landscape.py): PersistenceLandscaper.transform
TRUSTED += [py2lean.trusted_note("pltransform")]
PROP_FILES += [f for f in py2lean.prop_files("pltransform") if f not in PROP_FILES]


def pre_build(ctx):
    """source translator: regenerate Generated/Src*.lean from PERSIM_ROOT's source"""
    py2lean.pre_build(ctx, ("landscaper", "imager", "image", "pltransform"))   # image: `transform` / `fit_transform` of the imager


def run(ctx):
    py2lean.report_broken(ctx, PROP_FILES)
    import contextlib, io
    buf = io.StringIO()
    try:
        with contextlib.redirect_stdout(buf):            # persim prints "Bad choice of grid …" for degenerate grids
            _run(ctx)
    finally:
        for ln in buf.getvalue().split("\n"):            # keep the harness's own lines only
            if ln.startswith(("VIOLATION", "  ->", "KNOWN-FINDING")):
                print(ln, flush=True)


def report_impure(ctx, which, cases, recs_all):
    """a transform (or a read) that changed the object is a failing input of the property; True = stop"""
    for case, recs in zip(cases, recs_all):
        bad = recs and recs[-1].get("impure")
        ctx.test(which + "_transform_pure_in_histories", not bad)
        if bad:
            calls = [c for c in case["calls"]]
            ctx.violation("%s: %s" % ("PersistenceLandscaper" if which == "landscaper" else "PersistenceImager", bad),
                          {"transformer": which, "history": case, "impure": True}, found_input=True,
                          reproducer=l_reproducer(case) if which == "landscaper" else None)
            if claimed(ctx) >= MAXV:
                return True
    for case, recs in zip(cases, recs_all):
        notes = [r["private_changes"] for r in recs if r.get("private_changes")]
        if notes:
            ctx.count(which + "_private_attribute_changes")
            corr_report(ctx, which + ": private attributes", "%s: %s (public and fitted attributes unchanged: not a change of the "
                        "fitted state)" % (which, notes[0]), {"transformer": which, "history": case})
    return False


def claimed(ctx):
    """violations with a claimed failing input (correspondence-only reports do not end the search)"""
    return sum(1 for _, found in ctx.violations if found)


def corr_report(ctx, key, what, case):
    """a difference in behaviour the statement leaves open: one report per kind, no claimed failing input"""
    ctx.count("correspondence_only:" + key)
    seen = ctx.__dict__.setdefault("_c18_corr_seen", set())
    if key in seen:
        return
    seen.add(key)
    ctx.violation(what, case, found_input=False, correspondence=key)


def _run(ctx):
    common.import_persim()
    ctx.extra["core_theorems"] = CORE_THEOREMS
    ctx.extra["theorems_by_construction_of_the_model"] = BY_CONSTRUCTION
    ctx.extra["anchors_digest"] = {
        "images.py": common.source_digest("persim/images.py", ["fit", "transform", "fit_transform", "_ensure_iterable"]),
        "landscapes/transformer.py": common.source_digest("persim/landscapes/transformer.py"),
    }
    # ---- landscaper: correspondence
    lcases = list(L_CORPUS)
    for _ in range(ctx.n(2000, 25000)):
        lcases.append(LGen(ctx).history())
    cov = common.LineCov(["persim/landscapes/transformer.py", "persim/images.py"])
    lrecs = []
    for i, case in enumerate(lcases):
        if i < 80:
            with cov:
                lrecs.append(l_run_real(case))
        else:
            lrecs.append(l_run_real(case))
        ctx.case(case, nontriv(case["calls"]), sample_every=173)
        ctx.count("landscaper_histories")
        for c in case["calls"]:
            ctx.count("lcall:" + c[0])
    if report_impure(ctx, "landscaper", lcases, lrecs):
        return
    lans = ask([l_line(c) for c in lcases])
    ldis = []
    for case, recs, ans in zip(lcases, lrecs, lans):
        for e in ans if isinstance(ans, list) else []:
            if isinstance(e, list) and isinstance(e[7], str) and e[7].startswith("err:"):
                ctx.count("landscaper_" + e[7])
        d = l_compare(case, recs, ans)
        if d is not None:
            ldis.append((case, d))
    # ---- imager: correspondence (dyadic, exact)
    icases = []
    for _ in range(ctx.n(1000, 12000)):
        icases.append(IGen(ctx).history())
    irecs = []
    for i, case in enumerate(icases):
        if i < 60:
            with cov:
                irecs.append(i_run_real(case))
        else:
            irecs.append(i_run_real(case))
        ctx.case(case, nontriv(case["calls"]), sample_every=173)
        ctx.count("imager_histories")
        for c in case["calls"]:
            ctx.count("icall:" + c[0] + (":" + c[2] if len(c) > 3 and c[0] in ("fit", "tr", "ft") else ""))
    if report_impure(ctx, "imager", icases, irecs):
        return
    ians = ask([i_line(c) for c in icases])
    idis = []
    for case, recs, ans in zip(icases, irecs, ians):
        d = i_compare(case, recs, ans)
        if d is not None:
            idis.append((case, d))
    ctx.extra["line_coverage"] = cov.summary()
    ctx.count("correspondence_disagreements", len(ldis) + len(idis))

    # ---- [T] the laws on the real code (this is also the search for a failing input when the correspondence broke)
    law_cases = list(lcases[:len(L_CORPUS)]) + [c for c, _ in ldis[:20]]
    for _ in range(ctx.n(1500, 20000)):
        law_cases.append(LGen(ctx).history())
    # persim raising on valid input inside a law fails the law (LawFailure, handled in l_laws / i_law_body); any other
    # exception in a law stream is the harness's own failure, never a violation
    for case in law_cases:
        try:
            ok, text, X, notes = l_laws(ctx, case)
        except common.HarnessError:
            raise
        except Exception as e:
            raise common.HarnessError("landscaper law stream raised %s: %s" % (type(e).__name__, e)) from e
        ctx.test("landscaper_laws", ok)
        if not ok:
            ctx.violation("PersistenceLandscaper: " + str(text), {"transformer": "landscaper", "history": case, "X": X},
                          found_input=True, reproducer=l_reproducer(case))
            if claimed(ctx) >= MAXV:
                return
        for note in notes:
            corr_report(ctx, "landscaper: " + " ".join(note.split()[:4]), "PersistenceLandscaper (the statement holds on this input): " + note,
                        {"transformer": "landscaper", "history": case, "X": X})
    for _ in range(ctx.n(800, 10000)):
        try:
            ok, text, case, notes = i_laws(ctx)
        except common.HarnessError:
            raise
        except Exception as e:
            raise common.HarnessError("imager law stream raised %s: %s" % (type(e).__name__, e)) from e
        ctx.test("imager_laws", ok)
        if not ok:
            ctx.violation("PersistenceImager: " + text, {"transformer": "imager", "law_case": case}, found_input=True)
            if claimed(ctx) >= MAXV:
                return
        for note in notes:
            corr_report(ctx, "imager: " + " ".join(note.split()[:4]), "PersistenceImager (the statement holds on this input): " + note,
                        {"transformer": "imager", "law_case": case})
    found = any(f for _, f in ctx.violations)
    for case, (k, text) in ldis[:2]:
        cut = {"ctor": case["ctor"], "calls": [c for c in case["calls"] if c[0] != "read"][:k]}
        ctx.violation("code and model of PersistenceLandscaper differ after call %d: %s" % (k, text),
                      {"correspondence": "lsc.hist", "line": l_line(cut)[:4000], "transformer": "landscaper", "history": cut},
                      found_input=False, reproducer=l_reproducer(cut))
    for case, (k, text) in idis[:2]:
        cut = {"ctor": case["ctor"], "calls": [c for c in case["calls"] if c[0] != "read"][:k]}
        ctx.violation("code and model of PersistenceImager (transformer calls) differ after call %d: %s" % (k, text),
                      {"correspondence": "imgT.hist", "line": i_line(cut)[:4000], "transformer": "imager", "history": cut},
                      found_input=False)


def l_reproducer(case):
    c = case["ctor"]
    args = ", ".join("%s=%r" % (k, v) for k, v in c.items() if v is not None)
    lines = ["from persim import PersistenceLandscaper; import numpy as np", "t = PersistenceLandscaper(%s)" % args]
    for x in case["calls"]:
        if x[0] in ("ss", "st"):
            lines.append("t.%s = %r" % ("start" if x[0] == "ss" else "stop", x[1]))
        elif x[0] in ("ns", "fl", "hd"):
            lines.append("t.%s = %r" % ({"ns": "num_steps", "fl": "flatten", "hd": "hom_deg"}[x[0]], x[1]))
        elif x[0] in ("fit", "tr", "ft"):
            lines.append("t.%s([np.array(d, dtype=float).reshape(-1, 2) for d in %s])" % (
                {"fit": "fit", "tr": "transform", "ft": "fit_transform"}[x[0]], repr(x[1]).replace("inf", "np.inf").replace("nan", "np.nan")))
        elif x[0] == "cl":
            lines.append("import sklearn.base; t = sklearn.base.clone(t)")
        elif x[0] == "spg":
            lines.append("t.set_params(**t.get_params())")
    lines.append("print(t.start, t.stop)")
    return "; ".join(lines)


def replay(ctx, rep):
    c = rep["case"]
    if c.get("transformer") == "landscaper":
        case = c["history"]
        recs = l_run_real(case)
        for k, r in enumerate(recs):
            print("call %d: (start, stop, num_steps, flatten, hom_deg) = %r -> %s" % (k, r["pub"], r["res"] if isinstance(r["res"], str) else "array"))
        if recs and recs[-1].get("impure"):
            print("law fails:", recs[-1]["impure"])
            return False
        ok, text, _, notes = l_laws(ctx, case, c.get("X"))
        for note in notes:
            print("left open by the statement (correspondence only):", note)
        if not ok:
            print("law fails:", text)
            return False
        try:
            d = l_compare(case, recs, ask([l_line(case)])[0])
            if d is not None:
                print("code and model still differ after call %d: %s (no law fails on this input)" % d)
        except Exception as e:
            print("model driver not available:", e)
        return True
    if "law_case" in c:
        case = c["law_case"]
        # re-run every clause of the law stream on exactly this case (the same function the stream uses)
        ok, text, notes = i_law_body(case)
        for note in notes:
            print("left open by the statement (correspondence only):", note)
        if not ok:
            print("law fails:", text)
        return ok
    if "history" not in c:
        print("correspondence-only replay (no failing input was found): re-run `./check.py C18` with VERIF_SEED=%s" % rep.get("seed"))
        return True
    case = c["history"]
    recs = i_run_real(case)
    for k, r in enumerate(recs):
        print("call %d:" % k, r.get("pub", r.get("err")), r.get("impure", ""), r.get("private_changes", ""))
    return not (recs and recs[-1].get("impure"))


MANIFEST = {
    "text": "Proof (16 theorems, of which 7 core, 6 true by construction of the model, 3 decided counterexamples): Lean theorems about "
            "the state-machine models of PersistenceImager (fit/transform/fit_transform on the C12 geometry state) and "
            "PersistenceLandscaper (start/stop with the user-fixed flags, get_params, fit with the finiteness filter, sklearn clone and "
            "set_params(**get_params()) as calls of the history). Core: fit on the imager depends on the earlier history only through "
            "pixel_size (for every pair of histories); the imager's fit_transform = transform after fit (its deepcopy is irrelevant); a "
            "collection maps to the list of per-diagram images in order, one diagram to the bare image, an empty input to zeros of the "
            "resolution; for every landscaper history - including clones and get_params round trips - fit gives start/stop = the user's "
            "last assignment if any, else min birth / max death over the points of this fit's diagram with finite coordinates; a clone is "
            "the unfitted object with the user's parameters; fit rejects exactly an out-of-range degree and a diagram without a finite "
            "point when an end is not user-fixed. By construction of the model (rfl / list induction; they rest on the per-call "
            "comparison of the public and fitted attributes (a new private attribute is not a change of state) and of the outputs on every run): transform returns the state unchanged and is repeatable, "
            "transforms can be deleted from any history, the landscaper's fit_transform = fit then transform. The pre-9596bd3 fit, the "
            "pre-4d8db3a get_params (clone / set_params round trip freeze learned values) and the pre-b209c93 fit (stop = inf) are "
            "refuted by decided counterexamples. The models are tied to the code on every run by random call sequences with public "
            "attributes and output structure compared after every call.",
    "note": "Trusted: Lean kernel + Mathlib, axioms propext/Classical.choice/Quot.sound; the correspondence harness; sklearn's "
            "TransformerMixin.fit_transform, base.clone, set_params and copy.deepcopy as modelled (all exercised on every run). The "
            "per-diagram image and PersLandscapeApprox are abstract parameters of the model (their content is C04/C11 and C08); "
            "np.isfinite is a predicate parameter. The driver computes every state with irun/lrun (the functions of the theorems) on the "
            "prefixes of a history. The laws are additionally evaluated on the real code with arbitrary floats as [T] tests, the refit "
            "law also on a clone, on the clone of a Pipeline holding the object and after set_params(**get_params()). Compared with the "
            "model but never claimed as a failing input (the statement leaves them open): the exception class and the object's state "
            "after a landscaper fit on a diagram without a finite point (or its returning, provided the result does not depend on earlier "
            "fits), new or non-fitted private attributes touched by transform, and the imager's fit overwriting ranges the user assigned "
            "(the statement lets a fit keep what the user fixed; what must not matter is an EARLIER FIT, checked against the same "
            "assignments without the earlier fits).",
    "technique": "Lean 4 theorems over state-machine models + differential correspondence on call sequences + metamorphic tests",
}
MANIFEST["note"] += " " + py2lean.manifest_note("landscaper") + " " + py2lean.manifest_note("imager") + " " + py2lean.manifest_note("image")
MANIFEST["note"] += " " + py2lean.manifest_note("pltransform")
